"""Deterministic native replay of schedule witnesses: the real threads are made to follow the witness's global order of
lock acquisitions by the controller in /verif/replay/src/sched.rs (through the vendored, instrumented lock_api)."""
from . import replay as R
from . import wrap


def scenario(w):
    subs = wrap.subjects(); rec = subs[w['subject']]; name = w['subject']; cname = rec['intended']['cache_name']
    L = ['scenario subj']
    for t in w.get('fills', []): L.append(f"call 0 {name} 0 " + ' '.join(map(str, t)))
    if w.get('sleep_ms'): L.append(f"sleep_ms {w['sleep_ms']}")
    fresh = {tuple(k): v for k, v in zip(w.get('fresh_keys', []), w.get('fresh', []))}
    for ti, prog in enumerate(w['progs']):
        ops = []
        for op in prog:
            if op[0] == 'call':
                spec = tuple(op[1])
                a = w['fills'][spec[1]] if spec[0] == 'fill' else fresh.get(spec, [777000 + spec[1]])
                ops.append(f"call {name} 0 " + ' '.join(map(str, a)))
            elif op[0] == 'call_first': ops.append(f"call {op[1]} 0 " + ' '.join(['424242'] * len(subs[op[1]]['args'])))
            elif op[0] == 'inv_with':
                keys = [k.replace(' ', '%20') for cn, k, b in w.get('pred', []) if b]
                ops.append('inv_with ' + cname + ' ' + ' '.join(keys))
            elif op[0] == 'inv_all_with':
                ops.append('inv_all_with ' + ' '.join(f"{cn}:{k.replace(' ', '%20')}" for cn, k, b in w.get('pred', []) if b))
            elif op[0] in ('inv_tag', 'inv_cache', 'inv_event', 'inv_dep'): ops.append(f'{op[0]} {op[1]}')
            elif op[0] in ('stats_get', 'stats_reset'): ops.append(f'{op[0]} {cname}')
        L.append(f'conc_thread {ti} ' + ' / '.join(ops))
    ev = [e for e in w['locks'] if e[0] == 'lock']
    L.append('conc_sched ' + ' '.join([f"{e[1]}:{e[4]}:{e[5]}" for e in ev] + [f"{b[0]}:{b[3]}:1:a" for b in (w.get('attempts') or [])]))
    L.append('stats ' + cname)
    L.append('execs')
    L.append('conc_run')
    L.append('execs')
    L.append('stats ' + cname)
    L.append('keys ' + cname)
    lim = rec['intended']['limit']
    if lim:
        for i in range(lim + 1): L.append(f"call 0 {name} 0 " + ' '.join(str(880000 + i * 10 + j) for j in range(len(rec['args']))))
        L.append('keys ' + cname)
    L.append('end')
    return '\n'.join(L) + '\n', lim


def replay(f, w):
    if w is None: return False, 'no witness', []
    txt, lim = scenario(w)
    outs, err = R.run_scenarios(txt, timeout=60)
    if not outs: return False, 'no output from the replay binary: ' + err[-200:], []
    lines = outs[0]
    prog = [l for l in lines if l.startswith('conc_progress')]
    blocked = [l for l in lines if l.startswith('conc_blocked')]
    info = (prog[0] if prog else '')
    if f.get('clause') == 'no panic' or 'panic' in w:
        pl = [l for l in lines if '<panic' in l]
        if pl: return True, 'native thread driven along the witness schedule panicked: ' + pl[0][:200] + ' ' + info, lines
        return False, 'no native panic ' + info, lines
    if f['prop'] == 'C17' or 'deadlock' in w:
        if blocked: return True, 'native threads driven along the witness schedule never return (deadlock): ' + blocked[0] + ' ' + info, lines
        return False, 'native threads all returned ' + info, lines
    if blocked: return False, 'native run blocked ' + info, lines
    if f['prop'] in ('C03', 'C14'):
        ip = [i for i, l in enumerate(lines) if l.startswith('conc_progress')]
        ex = []
        if ip:
            before = [int(l.split()[1]) for l in lines[:ip[0]] if l.startswith('execs ') and len(l.split()) == 2]
            after = [int(l.split()[1]) for l in lines[ip[0]:] if l.startswith('execs ') and len(l.split()) == 2]
            if before and after: ex = [before[-1], after[0]]
        if len(ex) >= 2 and w.get('execs_conc') is not None:
            d = ex[1] - ex[0]
            if d == w['execs_conc'] and 'stuck=true' not in info: return True, f"natively the body ran {d} times during the concurrent phase, as on the interpreted schedule on which the claim fails " + info, lines
            if ('before the concurrent phase' in f.get('clause', '') or 'in flight' in f.get('clause', '')) and w.get('fills'):
                # the witness needs a lock-held window the controller cannot hold open (the holder has no acquisition inside it):
                # unscheduled repetition of the stored call on 8 threads; any execution of the body confirms the claim's failure
                subs = wrap.subjects(); rec = subs[w['subject']]
                if not rec['recv']:
                    L = ['scenario subj'] + [f"call 0 {w['subject']} 0 " + ' '.join(map(str, t)) for t in w['fills']] + [f"stress 8 30000 {w['subject']} 0 " + ' '.join(map(str, w['fills'][0])), 'end']
                    o2, _e = R.run_scenarios('\n'.join(L) + '\n', timeout=120)
                    st = [l for l in (o2[0] if o2 else []) if l.startswith('stress ')]
                    if st and int(st[0].split()[2]) > 0:
                        return True, f"natively, {st[0].split()[1]} concurrent repetitions of the stored call ran the body {st[0].split()[2]} more times (unscheduled stress run; the interpreted schedule needs a window inside a guard) " + info, o2[0]
                    return False, f"natively the body never ran again in {st[0].split()[1] if st else '?'} concurrent repetitions " + info, lines
            return False, f"natively the body ran {d} times during the concurrent phase (interpreter: {w['execs_conc']}) " + info, lines
        return False, 'execution counts not observable ' + info, lines
    if f['prop'] == 'C15':
        st = [l.split()[1:] for l in lines if l.startswith('stats ') and 'none' not in l]
        if len(st) >= 2:
            delta = (int(st[1][0]) + int(st[1][1])) - (int(st[0][0]) + int(st[0][1]))
            if delta != w.get('nlookups'): return True, f"natively hits+misses grew by {delta} during {w.get('nlookups')} lookups " + info, lines
            if 'counted as a hit' in f.get('clause', ''):
                # without invalidate_on / cache_if a call found its entry iff it did not run the body
                ip = [i for i, l in enumerate(lines) if l.startswith('conc_progress')]
                before = [int(l.split()[1]) for l in lines[:ip[0]] if l.startswith('execs ') and len(l.split()) == 2] if ip else []
                after = [int(l.split()[1]) for l in lines[ip[0]:] if l.startswith('execs ') and len(l.split()) == 2] if ip else []
                rec = wrap.subjects()[w['subject']]['intended']
                if before and after and not rec['invalidate_on']:
                    ran = after[0] - before[-1]; dh = int(st[1][0]) - int(st[0][0]); dm = int(st[1][1]) - int(st[0][1])
                    if dm != ran or dh != w.get('nlookups') - ran:
                        return True, f"natively {w.get('nlookups')} lookups, {ran} of them ran the body (found nothing), but the counters grew by hits={dh} misses={dm} " + info, lines
                    return False, f"natively hits={dh} misses={dm} match {ran} executions out of {w.get('nlookups')} lookups " + info, lines
                return False, 'executions not observable ' + info, lines
            return False, f"natively hits+misses grew by {delta} = number of lookups " + info, lines
        return False, 'statistics not observable ' + info, lines
    keyl = [l.split()[2:] for l in lines if l.startswith('keys ')]
    untracked = [k for k in w.get('keys', []) if k not in w.get('queue', [])]
    dev = []
    if keyl and sorted(keyl[0]) != sorted(w.get('keys', [])): dev_note = f"(store after the concurrent phase {sorted(keyl[0])}, witness {sorted(w.get('keys', []))})"
    else: dev_note = ''
    if lim and len(keyl) >= 2:
        after = keyl[1]
        if len(after) > lim: dev.append(f"after {lim + 1} further sequential stores the cache holds {len(after)} entries {sorted(after)} with limit {lim}")
        for k in untracked:
            if k in after: dev.append(f"key {k} (stored but not tracked by the queue at quiescence) survives {lim + 1} further stores: it can no longer be evicted")
    if 'stuck=true' in info: return False, 'the controller could not impose the witness schedule ' + info, lines
    return (len(dev) > 0), ('; '.join(dev) + ' ' + info + dev_note) if dev else ('native run consistent ' + info + dev_note), lines
