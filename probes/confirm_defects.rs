use cachelito::cache;
use cachelito_async::cache_async;
use std::sync::atomic::{AtomicU32, Ordering::SeqCst};
static N: AtomicU32 = AtomicU32::new(0);

#[cache(scope = "thread", limit = 2, policy = "lfu")]
fn t_lfu(a: u32) -> u32 { a }

fn stale(_k: &String, v: &u32) -> bool { *v < 100 }
#[cache_async(invalidate_on = stale)]
async fn a_inv(a: u32) -> u32 { a + N.fetch_add(100, SeqCst) }

#[cache_async(limit = 2, policy = "arc")]
async fn a_arc(a: u32) -> u32 { N.fetch_add(1, SeqCst); a }

fn main() {
    let r = std::panic::catch_unwind(|| { t_lfu(1); t_lfu(2); t_lfu(3); });
    println!("thread-local LFU overflow panicked: {}", r.is_err());
    // async via minimal executor
    use tokio_min::block_on as rt;
    let v1 = rt(a_inv(1)); let v2 = rt(a_inv(1)); let v3 = rt(a_inv(1));
    println!("a_inv: {v1} {v2} {v3} (stale until >=100; third should equal second if refreshed)");
    N.store(0, SeqCst);
    rt(a_arc(1)); rt(a_arc(2)); rt(a_arc(1)); rt(a_arc(2)); // hits: 1->1, 2->1 ; queue [1,2] (2 most recent)
    rt(a_arc(3)); // evicts one of equally popular: should evict 1 (LRU)
    let before = N.load(SeqCst);
    rt(a_arc(2)); let after2 = N.load(SeqCst);
    println!("a_arc: key 2 (most recent) still cached after overflow: {}", after2 == before);
}
mod tokio_min {
    use std::future::Future; use std::pin::pin; use std::task::{Context, Poll, RawWaker, RawWakerVTable, Waker};
    fn rw() -> RawWaker { fn c(_: *const ()) -> RawWaker { rw() } fn n(_: *const ()) {} static V: RawWakerVTable = RawWakerVTable::new(c, n, n, n); RawWaker::new(std::ptr::null(), &V) }
    pub fn block_on<F: Future>(f: F) -> F::Output { let w = unsafe { Waker::from_raw(rw()) }; let mut cx = Context::from_waker(&w); let mut f = pin!(f); loop { if let Poll::Ready(v) = f.as_mut().poll(&mut cx) { return v; } } }
}
