//! Scripted environment of the subjects.
//!
//! In the symbolic executor (`mirsym`) every function in this module is a
//! *builtin*: `body*` log an execution event and return an uninterpreted
//! function of their arguments (or a fresh symbolic outcome), `pred*`/`stale*`
//! log a consultation event and return an uninterpreted Boolean, `Gate::poll`
//! returns `Pending`/`Ready` as the driver decides.  Natively (replay crate)
//! the same functions are real and driven by the script below.
use std::collections::{HashMap, VecDeque};
use std::future::Future;
use std::pin::Pin;
use std::sync::Mutex;
use std::task::{Context, Poll};

#[derive(Clone, Debug, PartialEq)]
pub enum Ev {
    Exec(u32, Vec<u64>),
    Pred(u32, String, String, bool),
    Stale(u32, String, String, bool),
}

#[derive(Default)]
pub struct Script {
    /// per id: queue of scripted integer outcomes of `body` (then the default F)
    pub vals: HashMap<u32, VecDeque<u64>>,
    /// per id: queue of scripted Ok/Err flags for `body_res`
    pub oks: HashMap<u32, VecDeque<bool>>,
    /// per id: queue of predicate verdicts (cache_if), default true
    pub preds: HashMap<u32, VecDeque<bool>>,
    /// per id: queue of staleness verdicts (invalidate_on), default false
    pub stales: HashMap<u32, VecDeque<bool>>,
    /// per id: queue of string capacities for `body_str`
    pub caps: HashMap<u32, VecDeque<usize>>,
    /// per id: number of times the gate still answers Pending
    pub pendings: HashMap<u32, u32>,
    pub log: Vec<Ev>,
}

pub static SCRIPT: Mutex<Option<Script>> = Mutex::new(None);

pub fn with<T>(f: impl FnOnce(&mut Script) -> T) -> T {
    let mut g = SCRIPT.lock().unwrap_or_else(|e| e.into_inner());
    if g.is_none() {
        *g = Some(Script::default());
    }
    f(g.as_mut().unwrap())
}
pub fn reset() {
    with(|s| *s = Script::default());
}
pub fn take_log() -> Vec<Ev> {
    with(|s| std::mem::take(&mut s.log))
}
pub fn execs() -> usize {
    with(|s| s.log.iter().filter(|e| matches!(e, Ev::Exec(..))).count())
}

#[inline(never)]
pub fn f_default(id: u32, a: u64) -> u64 {
    ((id as u64) << 40) ^ a.wrapping_mul(0x9E37_79B9_7F4A_7C15)
}

#[inline(never)]
pub fn body(id: u32, a: u64) -> u64 {
    with(|s| {
        s.log.push(Ev::Exec(id, vec![a]));
        match s.vals.get_mut(&id).and_then(|q| q.pop_front()) {
            Some(v) => v,
            None => f_default(id, a),
        }
    })
}

#[inline(never)]
pub fn body_res(id: u32, a: u64) -> Result<u64, u8> {
    with(|s| {
        s.log.push(Ev::Exec(id, vec![a]));
        let ok = s.oks.get_mut(&id).and_then(|q| q.pop_front()).unwrap_or(true);
        let v = match s.vals.get_mut(&id).and_then(|q| q.pop_front()) {
            Some(v) => v,
            None => f_default(id, a),
        };
        if ok {
            Ok(v)
        } else {
            Err(v as u8)
        }
    })
}

#[inline(never)]
pub fn body_str(id: u32, a: u64) -> String {
    with(|s| {
        s.log.push(Ev::Exec(id, vec![a]));
        let cap = s.caps.get_mut(&id).and_then(|q| q.pop_front()).unwrap_or(0);
        let mut out = String::with_capacity(cap);
        out.push_str(&format!("{}", f_default(id, a) % 7));
        out
    })
}

#[inline(never)]
pub fn pred(id: u32, key: &String, v: &u64) -> bool {
    with(|s| {
        let b = s.preds.get_mut(&id).and_then(|q| q.pop_front()).unwrap_or(true);
        s.log.push(Ev::Pred(id, key.clone(), format!("{:?}", v), b));
        b
    })
}

#[inline(never)]
pub fn pred_res(id: u32, key: &String, v: &Result<u64, u8>) -> bool {
    with(|s| {
        let b = s.preds.get_mut(&id).and_then(|q| q.pop_front()).unwrap_or(true);
        s.log.push(Ev::Pred(id, key.clone(), format!("{:?}", v), b));
        b
    })
}

#[inline(never)]
pub fn stale(id: u32, key: &String, v: &u64) -> bool {
    with(|s| {
        let b = s.stales.get_mut(&id).and_then(|q| q.pop_front()).unwrap_or(false);
        s.log.push(Ev::Stale(id, key.clone(), format!("{:?}", v), b));
        b
    })
}

/// A future that answers `Pending` as long as the script says so.
pub struct Gate {
    pub id: u32,
}
#[inline(never)]
pub fn gate(id: u32) -> Gate {
    Gate { id }
}
impl Future for Gate {
    type Output = ();
    #[inline(never)]
    fn poll(self: Pin<&mut Self>, _cx: &mut Context<'_>) -> Poll<()> {
        let id = self.id;
        with(|s| {
            let n = s.pendings.entry(id).or_insert(0);
            if *n > 0 {
                *n -= 1;
                Poll::Pending
            } else {
                Poll::Ready(())
            }
        })
    }
}

#[inline(never)]
pub fn body2(id: u32, a: u64, b: u64) -> u64 {
    with(|s| {
        s.log.push(Ev::Exec(id, vec![a, b]));
        match s.vals.get_mut(&id).and_then(|q| q.pop_front()) {
            Some(v) => v,
            None => f_default(id, a ^ b.rotate_left(17)),
        }
    })
}

#[inline(never)]
pub fn body3(id: u32, a: u64, b: u64, c: u64) -> u64 {
    with(|s| {
        s.log.push(Ev::Exec(id, vec![a, b, c]));
        match s.vals.get_mut(&id).and_then(|q| q.pop_front()) {
            Some(v) => v,
            None => f_default(id, a ^ b.rotate_left(17) ^ c.rotate_left(34)),
        }
    })
}

/// Body of the key-shape subjects: the value does not matter, only whether it ran.
#[inline(never)]
pub fn body_any(id: u32) -> u64 {
    with(|s| {
        s.log.push(Ev::Exec(id, vec![]));
        let n = s.log.len() as u64;
        match s.vals.get_mut(&id).and_then(|q| q.pop_front()) {
            Some(v) => v,
            None => f_default(id, n),
        }
    })
}
