#!/bin/sh
# Offline setup after a fresh restore: regenerate the MIR dumps of the current /repo tree (this also builds the
# nightly dependency artefacts), build the native replay crate, validate the encoder against the real crates.
set -e
cd "$(dirname "$0")"
export CARGO_NET_OFFLINE=true
[ -f subjects/Cargo.lock ] || cp /repo/Cargo.lock subjects/Cargo.lock
[ -f replay/Cargo.lock ] || cp subjects/Cargo.lock replay/Cargo.lock
/opt/veriftools/pyvenv/bin/python -m mirsym.front >/dev/null
/opt/veriftools/pyvenv/bin/python -c "from mirsym import replay; print('replay binary:', replay.build())"
/opt/veriftools/pyvenv/bin/python -m mirsym.validate || { echo "encoder validation FAILED"; exit 1; }
# conformance of the interpreter's std models (informational: a gap makes checks on changed code INCONCLUSIVE, it does not invalidate them)
/opt/veriftools/pyvenv/bin/python tools/idioms_check.py | tail -3 || echo "WARNING: std-model conformance corpus reports gaps"
