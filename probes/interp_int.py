"""Throw-away probe: path-forking symbolic interpreter for the MIR subset of GlobalCache.
Deterministic re-execution with a choice log (no state copying)."""
import re, sys, time, itertools
import z3
from mirparse import parse_file, Place, split_top

U64 = 64
def bv(v, w=U64): return z3.BitVecVal(v, w)
def is_conc(x): return isinstance(x, (int, bool))

class Infeasible(Exception): pass
class Panic(Exception):
    def __init__(s, msg): s.msg = msg
class Unsupported(Exception): pass

# ---------------- values
class Agg:
    __slots__ = ('ty', 'variant', 'fields')
    def __init__(s, ty, variant, fields): s.ty = ty; s.variant = variant; s.fields = list(fields)
    def __repr__(s): return f"{s.ty}#{s.variant}{s.fields}"
class Cell:
    """a memory location"""
    __slots__ = ('v', 'name')
    def __init__(s, v=None, name=''): s.v = v; s.name = name
class Ref:
    __slots__ = ('cell', 'path')
    def __init__(s, cell, path=()): s.cell = cell; s.path = tuple(path)
    def __repr__(s): return f"&{s.cell.name}{list(s.path)}"
class Str:
    """abstract string: term is python str (concrete) or z3 Int const (symbolic id)"""
    __slots__ = ('t',)
    def __init__(s, t): s.t = t
    def __repr__(s): return f"Str({s.t})"
def str_eq(a, b):
    if isinstance(a.t, str) and isinstance(b.t, str): return a.t == b.t
    if isinstance(a.t, str) or isinstance(b.t, str): return False  # symbolic ids never equal literals (probe)
    if a.t is b.t or a.t.eq(b.t): return True
    return a.t == b.t
class MapM:   # HashMap<String, V> : list of [Str, value]
    def __init__(s, items=None): s.items = items or []
class DequeM:
    def __init__(s, items=None): s.items = items or []
class LockM:  # Mutex / RwLock
    def __init__(s, inner, name): s.inner = Cell(inner, name); s.state = 0; s.name = name   # 0 free, -1 write, n readers
class GuardM:
    def __init__(s, lock, mode): s.lock = lock; s.mode = mode; s.live = True
class LazyM:
    def __init__(s, inner): s.inner = Cell(inner, 'lazy')
class IterM:
    def __init__(s, items, pos=0, enum=False): s.items = items; s.pos = pos; s.enum = enum
class Closure:
    def __init__(s, fn, upvars): s.fn = fn; s.upvars = upvars
class Instant:
    def __init__(s, t): s.t = t   # z3 Int nanoseconds
class Duration:
    def __init__(s, t): s.t = t

def unit(): return Agg('()', 0, [])
def some(v, ty='Option'): return Agg(ty, 1, [v])
def none(ty='Option'): return Agg(ty, 0, [])

# ---------------- execution context (one path)
class Ctx:
    def __init__(s, forced):
        s.solver = z3.Solver(); s.forced = list(forced); s.trace = []; s.new_alts = []
        s.pc = []; s.nchecks = 0; s.tsolve = 0.0; s.steps = 0; s.events = []; s.fresh = itertools.count()
        s.now_vars = []
    def add(s, c):
        if c is True: return
        if c is False: raise Infeasible()
        s.pc.append(c); s.solver.add(c)
    def feasible(s, c):
        if c is True: return True
        if c is False: return False
        t = time.time(); s.nchecks += 1
        r = s.solver.check(c); s.tsolve += time.time() - t
        if r == z3.unknown: raise Unsupported('z3 unknown')
        return r == z3.sat
    def choose(s, conds):
        """conds: list of z3 Bool / python bool, covering all cases. returns chosen index."""
        pos = len(s.trace)
        if pos < len(s.forced):
            i = s.forced[pos]
        else:
            feas = [i for i, c in enumerate(conds) if s.feasible(c)]
            if not feas: raise Infeasible()
            i = feas[0]
            for j in feas[1:]: s.new_alts.append(s.trace + [j])
        s.trace.append(i); s.add(conds[i]); return i
    def branch(s, cond):
        """returns python bool for symbolic/concrete condition"""
        if is_conc(cond): return bool(cond)
        cond = z3.simplify(cond)
        if z3.is_true(cond): return True
        if z3.is_false(cond): return False
        return s.choose([cond, z3.Not(cond)]) == 0
    def fresh_bv(s, name, w=U64): return z3.BitVec(f"{name}!{next(s.fresh)}", w)
    def fresh_int(s, name): return z3.Int(f"{name}!{next(s.fresh)}")

# ---------------- interpreter
class Interp:
    def __init__(s, items, allocs):
        s.items = items; s.allocs = allocs
        s.fns = {k: v for k, v in items.items() if isinstance(k, str) and v.kind == 'fn'}
        s.by_last = {}
        for name, f in s.fns.items():
            last = re.sub(r'::<[^>]*>$', '', name).split('::')[-1]
            s.by_last.setdefault(last, []).append(f)

    # ---- name resolution
    def resolve(s, func):
        f0 = func
        func = re.sub(r'\{closure@[^}]*\}', '{closure}', func)
        if func in s.fns: return s.fns[func]
        m = re.match(r'^<(.+) as (.+)>::(\w+)(::<.*>)?$', func)
        if m:
            ty = re.sub(r'<.*', '', m.group(1)).strip('&').split('::')[-1]; meth = m.group(3)
        else:
            parts = split_generic_path(func)
            meth = parts[-1]; ty = parts[-2] if len(parts) > 1 else None
        cands = s.by_last.get(meth, [])
        if ty is None:
            cands = [f for f in cands if re.sub(r'::<.*', '', f.name) == meth or f.name == meth]
        else:
            def outer(t):
                t = re.sub(r"^&('\w+ )?(mut )?", '', t.strip()); t = re.sub(r'<.*', '', t); return t.split('::')[-1]
            c1 = [f for f in cands if '<impl' in f.name and f.args and outer(f.locals[f.args[0]].ty) == ty]
            if len(c1) != 1:
                c2 = [f for f in cands if '<impl' in f.name and outer(f.ret) == ty and not (f.args and outer(f.locals[f.args[0]].ty) in ('GlobalCache','ThreadLocalCache','AsyncGlobalCache','CacheEntry','CacheStats','InvalidationRegistry') and outer(f.locals[f.args[0]].ty) != ty)]
                c1 = c1 or c2
            cands = c1
        if len(cands) == 1: return cands[0]
        return None

    def call_fn(s, ctx, f, args):
        frame = {}
        for idx, a in zip(f.args, args): frame[idx] = Cell(a, f"{short(f.name)}._{idx}")
        blk = 'bb0'
        while True:
            ctx.steps += 1
            if ctx.steps > 20000: raise Unsupported('step budget')
            for ln, st in f.blocks[blk]:
                k = st[0]
                if k == 'assign':
                    s.write(ctx, frame, st[1], s.rvalue(ctx, frame, f, st[2]))
                elif k in ('nop', 'ConstEvalCounter'): pass
                elif k == 'setdiscr':
                    v = s.read(ctx, frame, st[1]); v.variant = st[2]
                elif k == 'goto': blk = st[1]; break
                elif k == 'return':
                    return frame[0].v if 0 in frame else unit()
                elif k == 'unreachable': raise Panic('unreachable reached in ' + f.name)
                elif k == 'resume': raise Panic('resume')
                elif k == 'switch':
                    v = s.operand(ctx, frame, st[1]); tg = st[2]
                    blk = s.switch(ctx, v, tg); break
                elif k == 'drop':
                    s.drop_place(ctx, frame, st[1]); blk = st[2]['return']; break
                elif k == 'assert':
                    c = s.operand(ctx, frame, st[2])
                    ok = c if not st[1] else (not c if is_conc(c) else z3.Not(c))
                    if not ctx.branch(ok): raise Panic('assert failed: ' + st[3] + ' in ' + short(f.name))
                    blk = st[4]['success']; break
                elif k == 'call':
                    args_ = [s.operand(ctx, frame, a) for a in st[3]]
                    r = s.call(ctx, st[2], args_, f)
                    if st[1] is not None: s.write(ctx, frame, st[1], r)
                    if 'return' not in st[4]: raise Panic('diverging call returned')
                    blk = st[4]['return']; break
                else: raise Unsupported('stmt ' + k)
            else:
                raise Unsupported('block without terminator')

    def switch(s, ctx, v, tg):
        if isinstance(v, bool): v = int(v)
        keys = [k for k in tg if k != 'otherwise']
        if not is_conc(v) and z3.is_bv_value(v): v = v.as_long()
        if is_conc(v):
            return tg.get(str(v), tg.get('otherwise'))
        conds = []; dests = []
        w = v.size() if z3.is_bv(v) else None
        for k in keys:
            kv = int(k)
            conds.append(v == (z3.BitVecVal(kv, w) if w else (kv != 0))) if w or not z3.is_bool(v) else conds.append(v if kv else z3.Not(v))
            dests.append(tg[k])
        if 'otherwise' in tg:
            conds.append(z3.And([z3.Not(c) for c in conds]) if conds else True); dests.append(tg['otherwise'])
        return dests[ctx.choose(conds)]

    # ---- places
    def cell_of(s, frame, local):
        if local not in frame: frame[local] = Cell(None, f"_{local}")
        return frame[local]
    def locate(s, ctx, frame, place):
        """returns (container, key) such that container[key] is the slot; container is Cell(.v) or Agg.fields"""
        cell = s.cell_of(frame, place.local); cont, key = cell, None
        def get():
            return cont.v if key is None else cont.fields[key]
        for pr in place.proj:
            cur = get()
            if pr[0] == 'deref':
                cur = s.auto(cur)
                if isinstance(cur, Ref):
                    cont, key = cur.cell, None
                    for p in cur.path:
                        cont, key = (cont.v if key is None else cont.fields[key]), p
                else: raise Unsupported(f'deref of {cur!r}')
            elif pr[0] == 'field':
                if cur is None:
                    cur = Agg('?', 0, [])
                    if key is None: cont.v = cur
                    else: cont.fields[key] = cur
                if isinstance(cur, Closure): cont, key = cur, pr[1]; cont = ClosureFields(cur); continue
                if not isinstance(cur, Agg): raise Unsupported(f'field of {cur!r}')
                while len(cur.fields) <= pr[1]: cur.fields.append(None)
                cont, key = cur, pr[1]
            elif pr[0] == 'downcast':
                pass
            else: raise Unsupported('proj ' + str(pr))
        return cont, key
    def read(s, ctx, frame, place):
        cont, key = s.locate(ctx, frame, place)
        return cont.v if key is None else cont.fields[key]
    def write(s, ctx, frame, place, v):
        cont, key = s.locate(ctx, frame, place)
        if key is None: cont.v = v
        else: cont.fields[key] = v
    def auto(s, v): return v
    def ref_to(s, ctx, frame, place):
        # build a Ref with path from the base cell
        cell = s.cell_of(frame, place.local); path = []
        for pr in place.proj:
            if pr[0] == 'deref':
                cur = s.deref_path(cell, path)
                if not isinstance(cur, Ref): raise Unsupported(f'ref deref of {cur!r}')
                cell, path = cur.cell, list(cur.path)
            elif pr[0] == 'field':
                cur = s.deref_path(cell, path)
                if cur is None:
                    s.set_path(cell, path, Agg('?', 0, []))
                    cur = s.deref_path(cell, path)
                if isinstance(cur, Agg):
                    while len(cur.fields) <= pr[1]: cur.fields.append(None)
                path.append(pr[1])
            elif pr[0] == 'downcast': pass
            else: raise Unsupported('refproj')
        return Ref(cell, path)
    def deref_path(s, cell, path):
        v = cell.v
        for p in path:
            v = ClosureFields(v).fields[p] if isinstance(v, Closure) else v.fields[p]
        return v
    def set_path(s, cell, path, val):
        if not path: cell.v = val; return
        v = cell.v
        for p in path[:-1]: v = v.fields[p]
        v.fields[path[-1]] = val
    def load(s, ref): return s.deref_path(ref.cell, ref.path)
    def store(s, ref, val): s.set_path(ref.cell, ref.path, val)

    def operand(s, ctx, frame, op):
        if op[0] in ('copy', 'move'): return s.read(ctx, frame, op[1])
        return s.const(ctx, op[1])
    def const(s, ctx, c):
        c = c.strip()
        if c in ('true', 'false'): return c == 'true'
        if c == '()': return unit()
        m = re.match(r'^(-?\d+)_(u8|u16|u32|u64|usize|i8|i16|i32|i64|isize|u128|i128)$', c)
        if m: return z3.BitVecVal(int(m.group(1)), WIDTH[m.group(2)])
        m = re.match(r'^(-?[\d.]+(?:e[+-]?\d+)?)f64$', c)
        if m: return z3.RealVal(m.group(1))
        m = re.match(r'^"(.*)"$', c)
        if m: return Str(m.group(1))
        if c == 'core::num::<impl u64>::MAX' or c == 'core::num::<impl usize>::MAX': return z3.BitVecVal(2**64 - 1, 64)
        if c == 'core::f64::<impl f64>::MAX': return z3.FPVal(1.7976931348623157e308, z3.Float64())
        m = re.match(r'^(-?\d+(?:\.\d+)?(?:[eE][+-]?\d+)?)_?f64$', c)
        if m: return z3.FPVal(float(m.group(1)), z3.Float64())
        if c.startswith('ZeroSized') or c.startswith('{') or '::' in c or re.match(r'^\w+$', c): return ('fnitem', c)
        raise Unsupported('const ' + c)

    def rvalue(s, ctx, frame, f, rv):
        k = rv[0]
        if k == 'use': return s.operand(ctx, frame, rv[1])
        if k == 'ref': return s.ref_to(ctx, frame, rv[2])
        if k == 'discr':
            v = s.read(ctx, frame, rv[1])
            if isinstance(v, Agg):
                return z3.BitVecVal(v.variant, 64) if is_conc(v.variant) else v.variant
            raise Unsupported(f'discr of {v!r}')
        if k == 'binop':
            a = s.operand(ctx, frame, rv[2]); b = s.operand(ctx, frame, rv[3]); return s.binop(ctx, rv[1], a, b)
        if k == 'unop':
            a = s.operand(ctx, frame, rv[2])
            if rv[1] == 'Not': return (not a) if is_conc(a) else (z3.Not(a) if z3.is_bool(a) else ~a)
            raise Unsupported('unop ' + rv[1])
        if k == 'cast':
            a = s.operand(ctx, frame, rv[2]); ck = rv[1]; ty = rv[3]
            if ck == 'IntToFloat': return z3.ToReal(z3.BV2Int(a))
            if ck == 'IntToInt':
                w = WIDTH[ty]
                if a.size() == w: return a
                return z3.ZeroExt(w - a.size(), a) if a.size() < w else z3.Extract(w - 1, 0, a)
            if ck in ('PointerCoercion', 'Transmute', 'PtrToPtr'): return a
            raise Unsupported('cast ' + ck)
        if k == 'agg':
            kind, ty, flds = rv[1], rv[2], rv[3]
            if kind == 'tuple': return Agg('tuple', 0, [s.operand(ctx, frame, o) for o in flds])
            if kind == 'array': return Agg('array', 0, [s.operand(ctx, frame, o) for o in flds])
            if kind == 'variant':
                name = re.sub(r'::<[^>]*(?:<[^>]*>[^>]*)*>', '', ty)
                vname = name.split('::')[-1]; tname = name.split('::')[-2] if '::' in name else '?'
                vi = VARIANTS.get(vname, vname)
                return Agg(tname, vi, [s.operand(ctx, frame, o) for o in flds])
            if kind == 'struct': return Agg(ty, 0, [s.operand(ctx, frame, o) for n, o in flds])
            if kind == 'closure':
                # find closure fn by span text
                return Closure(('span', ty, f.name), [s.operand(ctx, frame, o) for n, o in flds])
        raise Unsupported('rvalue ' + k)

    def binop(s, ctx, op, a, b):
        fp = z3.is_fp(a) or z3.is_fp(b)
        if z3.is_real(a) or z3.is_real(b):
            if z3.is_fp(a): a = z3.RealVal(1.7976931348623157e308) 
            if z3.is_fp(b): b = z3.RealVal(1.7976931348623157e308)
            return {'Mul': lambda: a * b, 'Div': lambda: a / b, 'Sub': lambda: a - b, 'Add': lambda: a + b, 'Lt': lambda: a < b, 'Gt': lambda: a > b, 'Le': lambda: a <= b, 'Ge': lambda: a >= b}[op]()
        if op in ('AddWithOverflow', 'SubWithOverflow', 'MulWithOverflow'):
            w = a.size()
            if op[0] == 'A': r = a + b; ov = z3.ULT(r, a)
            elif op[0] == 'S': r = a - b; ov = z3.ULT(a, b)
            else:
                r = a * b; ov = z3.Not(z3.BVMulNoOverflow(a, b, False))
            return Agg('tuple', 0, [r, ov])
        if fp:
            if op == 'Mul': return z3.fpMul(z3.RNE(), a, b)
            if op == 'Div': return z3.fpDiv(z3.RNE(), a, b)
            if op == 'Sub': return z3.fpSub(z3.RNE(), a, b)
            if op == 'Add': return z3.fpAdd(z3.RNE(), a, b)
            if op == 'Lt': return z3.fpLT(a, b)
            if op == 'Gt': return z3.fpGT(a, b)
            if op == 'Le': return z3.fpLEQ(a, b)
            if op == 'Ge': return z3.fpGEQ(a, b)
        if (not is_conc(a) and z3.is_int(a)) or (not is_conc(b) and z3.is_int(b)):
            if not is_conc(a) and z3.is_bv(a): a = z3.BV2Int(a)
            if not is_conc(b) and z3.is_bv(b): b = z3.BV2Int(b)
            return {'Add': lambda: a + b, 'Sub': lambda: a - b, 'Eq': lambda: a == b, 'Ne': lambda: a != b, 'Lt': lambda: a < b, 'Le': lambda: a <= b, 'Gt': lambda: a > b, 'Ge': lambda: a >= b}[op]()
        if op == 'Add': return a + b
        if op == 'Sub': return a - b
        if op == 'Mul': return a * b
        if op == 'Eq': return a == b
        if op == 'Ne': return a != b
        if op == 'Lt': return z3.ULT(a, b)
        if op == 'Le': return z3.ULE(a, b)
        if op == 'Gt': return z3.UGT(a, b)
        if op == 'Ge': return z3.UGE(a, b)
        raise Unsupported('binop ' + op)

    def drop_place(s, ctx, frame, place):
        try: v = s.read(ctx, frame, place)
        except Exception: return
        s.drop_val(ctx, v)
    def drop_val(s, ctx, v):
        if isinstance(v, GuardM) and v.live:
            v.live = False
            if v.mode == 'w': v.lock.state = 0
            else: v.lock.state -= 1
            ctx.events.append(('unlock', v.lock.name))
        elif isinstance(v, Agg):
            for x in v.fields: s.drop_val(ctx, x)

    # ---- calls
    def call(s, ctx, func, args, caller):
        b = s.builtin(ctx, func, args, caller)
        if b is not NotImplemented: return b
        f = s.resolve(func)
        if f is None: raise Unsupported('call ' + func)
        return s.call_fn(ctx, f, args)

    def call_closure(s, ctx, clo, args):
        # find closure fn: named  parent::{closure#k} ; match by span in first arg type
        span = clo.fn[1]; parent = clo.fn[2]
        cands = [f for n, f in s.fns.items() if n.startswith(parent + '::{closure#') and n.count('{closure#') == parent.count('{closure#') + 1
                 and span.replace('{closure@', '') .rstrip('}') in f.locals[f.args[0]].ty]
        if len(cands) != 1: raise Unsupported(f'closure resolve {span} in {parent}: {len(cands)}')
        f = cands[0]
        selfty = f.locals[f.args[0]].ty
        selfv = Ref(Cell(clo, 'clo')) if selfty.startswith('&') else clo
        return s.call_fn(ctx, f, [selfv] + args)

    def builtin(s, ctx, func, args, caller):
        fn = re.sub(r'\{closure@[^}]*\}', '{closure}', func)
        g = strip_generics(fn)
        A = args
        def deref(x):  # follow Ref to value
            return s.load(x) if isinstance(x, Ref) else x
        # --- lazy / locks
        if g.startswith('<once_cell::sync::Lazy') and g.endswith('as Deref>::deref'):
            lz = deref(A[0]); return Ref(lz.inner)
        if re.search(r'(Mutex|RwLock)::(lock|read|write)$', g):
            lk = deref(A[0]); mode = 'r' if g.endswith('read') else 'w'
            ctx.events.append(('lock', lk.name, mode, tuple(sorted(h for h in ctx_held(ctx)))))
            if mode == 'w' and lk.state != 0 or mode == 'r' and lk.state < 0: raise Panic('self-deadlock on ' + lk.name)
            lk.state = -1 if mode == 'w' else lk.state + 1
            gd = GuardM(lk, mode); ctx.held = getattr(ctx, 'held', []); ctx.held.append(gd); return gd
        if re.search(r'Guard<.*> as Deref(Mut)?>::deref(_mut)?$', fn) or re.search(r'Guard as Deref(Mut)?>::deref(_mut)?$', g):
            gd = deref(A[0]); return Ref(gd.lock.inner)
        # --- strings
        if g in ('<str as ToString>::to_string', '<String as Clone>::clone', '<String as Deref>::deref', 'String::as_str'):
            return deref(A[0])
        if g in ('<String as PartialEq>::eq', '<str as PartialEq>::eq', '<&String as PartialEq>::eq', '<&String as PartialEq<&str>>::eq'):
            a, b = deref(A[0]), deref(A[1]); a = deref(a); b = deref(b); return str_eq(a, b)
        if g in ('<&String as PartialEq>::ne', '<&String as PartialEq<&str>>::ne'):
            a, b = deref(deref(A[0])), deref(deref(A[1])); r = str_eq(a, b); return (not r) if is_conc(r) else z3.Not(r)
        # --- hashmap
        if re.match(r'^HashMap::(get|get_mut|contains_key|remove)$', g):
            m = deref(A[0]); k = deref(A[1]); op = g.split('::')[1]
            conds = [str_eq(it[0], k) for it in m.items]
            none_c = z3.And([z3.Not(c) if not is_conc(c) else (not c) for c in conds]) if conds else True
            i = ctx.choose(conds + [none_c])
            if i == len(conds):
                return False if op == 'contains_key' else none()
            if op == 'contains_key': return True
            if op == 'remove':
                it = m.items.pop(i); return some(it[1])
            cell = Cell(m.items[i][1], 'entry'); m.items[i][1] = m.items[i][1]
            return some(Ref(EntryCell(m.items[i])))
        if g == 'HashMap::insert':
            m = deref(A[0]); k = A[1]; v = A[2]
            conds = [str_eq(it[0], k) for it in m.items]
            none_c = z3.And([z3.Not(c) if not is_conc(c) else (not c) for c in conds]) if conds else True
            i = ctx.choose(conds + [none_c])
            if i == len(conds): m.items.append([k, v]); return none()
            old = m.items[i][1]; m.items[i][1] = v; return some(old)
        if g == 'HashMap::clear': deref(A[0]).items.clear(); return unit()
        if g == 'HashMap::values': return IterM([Ref(EntryCell(it)) for it in deref(A[0]).items])
        # --- vecdeque
        if g == 'VecDeque::iter': return IterM([Ref(ItemCell(deref(A[0]).items, i)) for i in range(len(deref(A[0]).items))])
        if g.endswith('as Iterator>::enumerate'): A[0].enum = True; return A[0]
        if g.endswith('as IntoIterator>::into_iter'):
            return IterM(list(A[0].items)) if isinstance(A[0], DequeM) else A[0]
        if g.endswith('as Iterator>::position'):
            it = deref(A[0]); clo = A[1]
            for i in range(it.pos, len(it.items)):
                r = s.call_closure(ctx, clo, [it.items[i]])
                if ctx.branch(r): return some(z3.BitVecVal(i, 64))
            return none()
        if g.endswith('as Iterator>::next'):
            it = deref(A[0])
            if it.pos >= len(it.items): return none()
            v = it.items[it.pos]; i = it.pos; it.pos += 1
            return some(Agg('tuple', 0, [z3.BitVecVal(i, 64), v]) if it.enum else v)
        if g.endswith('as Iterator>::collect'):
            it = A[0]; return DequeM([Agg('tuple', 0, [z3.BitVecVal(i, 64), v]) if it.enum else v for i, v in enumerate(it.items)][it.pos:])
        if g == 'Vec::len' or g == 'VecDeque::len': return z3.BitVecVal(len(deref(A[0]).items), 64)
        if g == 'VecDeque::is_empty': return len(deref(A[0]).items) == 0
        if g == 'VecDeque::remove':
            d = deref(A[0]); idx = A[1]
            if not is_conc(idx): idx = s.concretize_index(ctx, idx, len(d.items))
            if idx < len(d.items): return some(d.items.pop(idx))
            return none()
        if g == 'VecDeque::push_back': deref(A[0]).items.append(A[1]); return unit()
        if g == 'VecDeque::pop_front':
            d = deref(A[0]); return some(d.items.pop(0)) if d.items else none()
        if g == 'VecDeque::pop_back':
            d = deref(A[0]); return some(d.items.pop()) if d.items else none()
        if g == 'VecDeque::clear': deref(A[0]).items.clear(); return unit()
        # --- time
        if g == 'Instant::now':
            t = ctx.fresh_int('now');
            if ctx.now_vars: ctx.add(t >= ctx.now_vars[-1])
            ctx.now_vars.append(t); return Instant(t)
        if g == 'Instant::elapsed':
            i0 = deref(A[0]); t = ctx.fresh_int('now')
            if ctx.now_vars: ctx.add(t >= ctx.now_vars[-1])
            ctx.now_vars.append(t); ctx.add(t >= i0.t); return Duration(t - i0.t)
        if g == 'Duration::as_secs':
            d = deref(A[0]); q = ctx.fresh_int('secs'); r = ctx.fresh_int('rem')
            ctx.add(z3.And(d.t == q * 1000000000 + r, r >= 0, r < 1000000000, q >= 0, q < 2**40)); return q
        if g == 'Duration::as_secs_f64': return z3.ToReal(deref(A[0]).t) / 1000000000
        if g.endswith('f64>::min') or g == 'core::f64::min' or g.endswith('::min'):
            a, b = A; return z3.If(a < b, a, b)
        if g.endswith('::max'):
            a, b = A; return z3.If(a > b, a, b)
        # --- atomics / stats
        if g == 'Atomic::fetch_add':
            a = deref(A[0]); old = a.fields[0]; a.fields[0] = old + A[1]; return old
        if g == 'Atomic::load': return deref(A[0]).fields[0]
        # --- option helpers
        if g == 'Option::is_some': return deref(A[0]).variant == 1
        if g == 'core::num::saturating_add' or g.endswith('::saturating_add'):
            a, b = A; r = a + b; return z3.If(z3.ULT(r, a), z3.BitVecVal(2**64 - 1, 64), r)
        if g in ('<R as Clone>::clone', '<K as Clone>::clone', '<T as Clone>::clone'): return deref(A[0])
        if g == 'fastrand::usize' or g == 'usize':
            hi = A[0].fields[0]; x = ctx.fresh_bv('rand'); ctx.add(z3.ULT(x, hi)); return x
        return NotImplemented

    def concretize_index(s, ctx, idx, n):
        i = ctx.choose([idx == z3.BitVecVal(j, 64) for j in range(n)] + [z3.UGE(idx, z3.BitVecVal(n, 64))])
        return i

class EntryCell:
    """cell aliasing slot 1 of a map item [key, value]"""
    def __init__(s, item): s.item = item; s.name = 'mapentry'
    @property
    def v(s): return s.item[1]
    @v.setter
    def v(s, x): s.item[1] = x
class ItemCell:
    def __init__(s, lst, i): s.lst = lst; s.i = i; s.name = 'item'; s._v = lst[i]
    @property
    def v(s): return s._v
    @v.setter
    def v(s, x): s._v = x
class ClosureFields:
    def __init__(s, clo): s.fields = clo.upvars

def ctx_held(ctx): return [g.lock.name for g in getattr(ctx, 'held', []) if g.live]
WIDTH = {'u8': 8, 'u16': 16, 'u32': 32, 'u64': 64, 'usize': 64, 'i8': 8, 'i16': 16, 'i32': 32, 'i64': 64, 'isize': 64, 'u128': 128, 'i128': 128}
VARIANTS = {'None': 0, 'Some': 1, 'Ok': 0, 'Err': 1, 'FIFO': 0, 'LRU': 1, 'LFU': 2, 'ARC': 3, 'Random': 4, 'TLRU': 5, 'Pending': 1, 'Ready': 0}
def short(n): return re.sub(r'<impl at [^>]*>', '<impl>', n)
def strip_generics(fn):
    out = ''; d = 0; i = 0
    while i < len(fn):
        c = fn[i]
        if fn.startswith('::<', i) and d == 0:
            # skip turbofish
            j = i + 2; dd = 0
            while True:
                if fn[j] == '<': dd += 1
                elif fn[j] == '>' and fn[j - 1] != '-':
                    dd -= 1
                    if dd == 0: break
                j += 1
            i = j + 1; continue
        out += c; i += 1
    # collapse <Type<..> as Trait>::m  generics inside type: keep as is but drop inner generic args of known containers
    out = re.sub(r'^<(?:std::collections::(?:vec_deque|hash_map)::)?(\w+)<.*> as (Iterator|IntoIterator)>', r'<\1 as \2>', out)
    out = re.sub(r'^<(Enumerate|Cloned|std::iter::Map|std::vec::IntoIter)<.*> as (Iterator|IntoIterator)>', r'<\1 as \2>', out)
    out = re.sub(r'^core::num::<impl \w+>::', 'core::num::', out)
    return out
def split_generic_path(func):
    g = strip_generics(func); return g.split('::')
