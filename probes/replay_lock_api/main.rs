use cachelito_core::{CacheEntry, CacheStats, EvictionPolicy, GlobalCache};
use once_cell::sync::Lazy;
use parking_lot::{Mutex, RwLock};
use std::collections::{HashMap, VecDeque};
use std::sync::atomic::{AtomicUsize, Ordering::SeqCst};

static MAP: Lazy<RwLock<HashMap<String, CacheEntry<u32>>>> = Lazy::new(|| RwLock::new(HashMap::new()));
static ORDER: Lazy<Mutex<VecDeque<String>>> = Lazy::new(|| Mutex::new(VecDeque::new()));
static STATS: Lazy<CacheStats> = Lazy::new(|| CacheStats::new());

// witness: sequence of thread ids, one per acquisition of a *watched* lock
static SCHED: [usize; 4] = [1, 0, 0, 1];   // B:store.write  A:store.write  A:queue.lock  B:queue.lock
static STEP: AtomicUsize = AtomicUsize::new(0);
static WATCH: [AtomicUsize; 2] = [AtomicUsize::new(0), AtomicUsize::new(0)];
thread_local! { static TID: std::cell::Cell<usize> = std::cell::Cell::new(usize::MAX); }

fn hook(addr: usize, _kind: u8) {
    if addr != WATCH[0].load(SeqCst) && addr != WATCH[1].load(SeqCst) { return; }
    let me = TID.with(|t| t.get());
    if me == usize::MAX { return; }
    loop {
        let s = STEP.load(SeqCst);
        if s >= SCHED.len() { return; }
        if SCHED[s] == me { STEP.store(s + 1, SeqCst); return; }
        std::hint::spin_loop();
    }
}

fn main() {
    let cache = || GlobalCache::new(&MAP, &ORDER, Some(1), None, EvictionPolicy::FIFO, None, None, &STATS);
    WATCH[0].store(&*MAP as *const RwLock<HashMap<String, CacheEntry<u32>>> as *const () as usize, SeqCst);
    WATCH[1].store(&*ORDER as *const Mutex<VecDeque<String>> as *const () as usize, SeqCst);
    lock_api::verif_sched::install(hook);
    let a = std::thread::spawn(move || { TID.with(|t| t.set(0)); cache().insert("k", 7); });
    let b = std::thread::spawn(move || { TID.with(|t| t.set(1)); cache().clear(); });
    a.join().unwrap(); b.join().unwrap();
    lock_api::verif_sched::uninstall();
    let stored: Vec<String> = MAP.read().keys().cloned().collect();
    let queued: Vec<String> = ORDER.lock().iter().cloned().collect();
    println!("after replay: store={:?} queue={:?}", stored, queued);
    // sequential probe: limit = 1, insert another key -> store must stay <= 1
    cache().insert("j", 8);
    let n = MAP.read().len();
    println!("after one more insert with limit=1: |store|={} -> {}", n, if n > 1 { "REPRODUCED: limit exceeded (untracked entry)" } else { "not reproduced" });
}
