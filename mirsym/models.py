"""Symbolic pre-states (the representation invariant Inv of DESIGN.md section 3) and post-state views for the three
cache flavours, built on the interpreter heap.  The cache objects themselves are constructed by running the *real*
`new` constructors' MIR; struct field orders are read from the MIR aggregates, never hard-coded."""
import z3
from .engine import (Agg, Cell, Ref, Str, MapM, SeqM, LockM, LazyM, RefCellM, TlsKey, Instant, Unsupported, run_single, some, none,
                     is_conc, is_z3, deref_all, load, b_and, b_or, b_not, simp)

POLICIES = ['FIFO', 'LRU', 'LFU', 'ARC', 'Random', 'TLRU']
POL_IDX = {p: i for i, p in enumerate(POLICIES)}
NS = 1000000000
HITS_MAX = 2 ** 20
SIZE_MAX = 2 ** 40


def struct_fields(P, struct):
    """field names of a struct in index order, read from a MIR aggregate statement"""
    for f in P.fns.values():
        for blk in f.blocks.values():
            for ln, st in blk:
                if st[0] == 'assign' and st[2][0] == 'agg' and st[2][1] == 'struct':
                    name = st[2][2]
                    base = name.split('::<')[0].split('::')[-1]
                    if base == struct: return [n for n, _ in st[2][3]]
    raise Unsupported('no aggregate of struct ' + struct + ' found in the MIR')


def find_method(P, ty, meth):
    c = P.methods.get((ty, meth), [])
    if len(c) != 1: raise Unsupported(f'{ty}::{meth}: {len(c)} candidates in the MIR')
    return c[0]


class Entry:
    """one pre-state entry (all fields are terms)"""
    def __init__(s, key, val, birth, hits, size=None, tstore=None): s.key = key; s.val = val; s.birth = birth; s.hits = hits; s.size = size; s.tstore = tstore


class Cfg:
    def __init__(s, flavour, policy, limit=False, ttl=False, mem=False, fw=None):
        s.flavour = flavour; s.policy = policy; s.has_limit = limit; s.has_ttl = ttl; s.has_mem = mem; s.fw = fw
        s.limit = s.ttl = s.mem = None; s.real = False
        s.extreme = None          # 'ttl' | 'limit' | 'mem': that configuration value ranges over the top of its type instead of the ordinary range
    def tag(s):
        return f"{s.flavour}/{s.policy}/{'L' if s.has_limit else '-'}{'T' if s.has_ttl else '-'}{'M' if s.has_mem else '-'}" + (f'/w{s.fw}' if s.fw is not None else '')


class Harness:
    """a cache of one flavour in a symbolic Inv-state"""
    def __init__(s, P, I, ctx, cfg, n, nmax=None, tolerant=False, name='c', hits_max=False):
        s.P = P; s.I = I; s.ctx = ctx; s.cfg = cfg; s.n = n; s.name = name
        fl = cfg.flavour
        s.SIZE = z3.Function('size', z3.IntSort(), z3.IntSort())
        RI = z3.Real if cfg.real else z3.Int
        ctx.real_time = cfg.real
        # ---- configuration terms
        if cfg.has_limit:
            cfg.limit = z3.Int(name + '_limit')
            if cfg.extreme == 'limit': ctx.add(z3.And(cfg.limit >= 2 ** 63 - 1, cfg.limit <= 2 ** 64 - 1))
            else: ctx.add(z3.And(cfg.limit >= 1, cfg.limit <= (nmax if nmax is not None else n + 2), cfg.limit >= n))      # full and non-full caches
        if cfg.has_ttl:
            cfg.ttl = RI(name + '_ttl')
            if cfg.extreme == 'ttl': ctx.add(z3.And(cfg.ttl >= 2 ** 62, cfg.ttl <= 2 ** 64 - 1))          # "never expires" spellings: i64::MAX, u64::MAX
            else: ctx.add(z3.And(cfg.ttl >= (0 if cfg.policy == 'TLRU' else 1), cfg.ttl <= 2 ** 32))       # ttl = 0 (TLRU): the age fraction divides by it
        if cfg.has_mem:
            cfg.mem = z3.Int(name + '_maxmem')
            if cfg.extreme == 'mem': ctx.add(z3.And(cfg.mem >= 2 ** 63 - 1, cfg.mem <= 2 ** 64 - 1))
            else: ctx.add(z3.And(cfg.mem >= 0, cfg.mem <= SIZE_MAX))
        # ---- clock
        if fl == 'A':
            s.now0 = RI(name + '_now0s'); ctx.add(z3.And(s.now0 >= 0, s.now0 <= 2 ** 36)); ctx.sys_vars.append(s.now0)
            s.tnow0 = z3.Real(name + '_tnow0'); ctx.add(z3.And(s.tnow0 >= (s.now0 if cfg.real else z3.ToReal(s.now0)), s.tnow0 < (s.now0 if cfg.real else z3.ToReal(s.now0)) + 1))
        else:
            s.now0 = RI(name + '_now0'); ctx.add(z3.And(s.now0 >= 0, s.now0 <= 2 ** 68)); ctx.now_vars.append(s.now0)
        # ---- entries (queue order = index order)
        s.pre = []
        for i in range(n):
            key = z3.Int(f'{name}_key{i}'); val = z3.Int(f'{name}_val{i}'); hits = RI(f'{name}_hits{i}')
            birth = RI(f'{name}_birth{i}')
            ctx.add(z3.And(birth >= 0, birth <= s.now0))
            if cfg.policy in ('FIFO', 'LRU', 'Random'): ctx.add(hits == 0)
            elif hits_max and i == 0: ctx.add(hits == 2 ** 64 - 1)          # saturation corner: the counter is already u64::MAX
            else: ctx.add(z3.And(hits >= 0, hits <= HITS_MAX))
            e = Entry(key, val, birth, hits)
            if fl == 'A':
                # ghost real store time inside the stamped second
                e.tstore = z3.Real(f'{name}_tstore{i}'); br = birth if cfg.real else z3.ToReal(birth); ctx.add(z3.And(e.tstore >= br, e.tstore < br + 1, e.tstore <= s.tnow0))
            e.size = s.SIZE(val); ctx.add(z3.And(e.size >= 0, e.size <= SIZE_MAX))
            s.pre.append(e)
        if n > 1: ctx.add(z3.Distinct([e.key for e in s.pre]))
        if cfg.has_mem and n:
            ctx.add(z3.Sum([e.size for e in s.pre]) <= cfg.mem)
        # ---- heap objects
        ce = struct_fields(P, 'CacheEntry') if fl != 'A' else None
        def mk_entry(e):
            if fl == 'A': return Agg('tuple', 0, [e.val, e.birth, e.hits])
            d = {'value': e.val, 'inserted_at': Instant(e.birth), 'frequency': e.hits}
            return Agg('CacheEntry', 0, [d[f] for f in ce])
        s.ce_fields = ce
        order = list(reversed(range(n)))       # store iteration order: one arbitrary order (here: reverse queue order)
        s.mapm = MapM([[Str(s.pre[i].key), mk_entry(s.pre[i])] for i in order], 'DashMap' if fl == 'A' else 'HashMap')
        s.dq = SeqM([Str(e.key) for e in s.pre], 'VecDeque')
        stats_fields = struct_fields(P, 'CacheStats')
        s.h0 = z3.Int(name + '_stat_hits'); s.m0 = z3.Int(name + '_stat_misses'); ctx.add(z3.And(s.h0 >= 0, s.h0 <= 2 ** 40, s.m0 >= 0, s.m0 <= 2 ** 40))
        d = {'hits': Agg('Atomic', 0, [s.h0]), 'misses': Agg('Atomic', 0, [s.m0])}
        s.stats = Agg('CacheStats', 0, [d[f] for f in stats_fields]); s.stats_fields = stats_fields
        lim = some(cfg.limit) if cfg.has_limit else none()
        mem = some(cfg.mem) if cfg.has_mem else none()
        ttl = some(cfg.ttl) if cfg.has_ttl else none()
        fw = some(z3.RealVal(str(cfg.fw))) if cfg.fw is not None else none()
        pol = Agg('EvictionPolicy', POL_IDX[cfg.policy], [])
        if fl == 'G':
            s.maplock = LockM(s.mapm, name + '.store', 'RwLock'); s.qlock = LockM(s.dq, name + '.queue', 'Mutex')
            lz_m = LazyM(None, 'MAP'); lz_m.inner = Cell(s.maplock, 'MAP')
            lz_q = LazyM(None, 'ORDER'); lz_q.inner = Cell(s.qlock, 'ORDER')
            lz_s = LazyM(None, 'STATS'); lz_s.inner = Cell(s.stats, 'STATS')
            args = [Ref(Cell(lz_m, 'MAP')), Ref(Cell(lz_q, 'ORDER')), lim, mem, pol, ttl, fw, Ref(Cell(lz_s, 'STATS'))]
            s.locks = [s.maplock, s.qlock]
            new = find_method(P, 'GlobalCache', 'new'); s.ty = 'GlobalCache'
        elif fl == 'A':
            s.mapm.shard = LockM(None, name + '.shard', 'RwLock'); s.qlock = LockM(s.dq, name + '.queue', 'Mutex')
            args = [Ref(Cell(s.mapm, 'CACHE')), Ref(Cell(s.qlock, 'ORDER')), lim, mem, pol, ttl, fw, Ref(Cell(s.stats, 'STATS'))]
            s.locks = [s.mapm.shard, s.qlock]
            new = find_method(P, 'AsyncGlobalCache', 'new'); s.ty = 'AsyncGlobalCache'
        else:
            s.rc_m = RefCellM(s.mapm, name + '.store'); s.rc_q = RefCellM(s.dq, name + '.queue')
            km = TlsKey('CACHE', None); km.per_thread[0] = Cell(s.rc_m, 'CACHE')
            kq = TlsKey('ORDER', None); kq.per_thread[0] = Cell(s.rc_q, 'ORDER')
            args = [Ref(Cell(km, 'CACHEKEY')), Ref(Cell(kq, 'ORDERKEY')), lim, mem, pol, ttl, fw]
            s.locks = []
            new = find_method(P, 'ThreadLocalCache', 'new'); s.ty = 'ThreadLocalCache'
        cache = run_single(ctx, I.call_fn(ctx, new, args))
        if fl == 'T':
            # the thread-local cache owns its statistics: replace the fresh counters by symbolic ones
            names = struct_fields(P, 'ThreadLocalCache'); cache.fields[names.index('stats')] = s.stats
        s.cache = cache; s.cache_ref = Ref(Cell(cache, 'cache'))
        # time may pass between building the handle and using it: the operation starts at a later (symbolic) instant
        clock = ctx.sys_vars if fl == 'A' else ctx.now_vars
        s.t_constructed = clock[-1]; s.now_pre = s.now0
        if fl == 'A':
            s.now0 = RI(name + '_opstart_s'); ctx.add(z3.And(s.now0 >= s.t_constructed, s.now0 <= 2 ** 36)); clock.append(s.now0)
            tpre = s.tnow0
            s.tnow0 = z3.Real(name + '_topstart'); nr = s.now0 if cfg.real else z3.ToReal(s.now0)
            ctx.add(z3.And(s.tnow0 >= tpre, s.tnow0 >= nr, s.tnow0 < nr + 1))
        else:
            s.now0 = RI(name + '_opstart'); ctx.add(z3.And(s.now0 >= s.t_constructed, s.now0 <= 2 ** 68)); clock.append(s.now0)

    # ---------- running operations
    def method(s, name): return find_method(s.P, s.ty, name)
    def call(s, meth, *args):
        return run_single(s.ctx, s.I.call_fn(s.ctx, s.method(meth), [s.cache_ref] + list(args)))

    # ---------- views of the current (post) state
    def store_view(s):
        """list of (key term, value term, birth term, hits term) in store iteration order"""
        out = []
        for k, v in s.mapm.items:
            if s.cfg.flavour == 'A': out.append((k.t, v.fields[0], v.fields[1], v.fields[2]))
            else:
                f = s.ce_fields
                out.append((k.t, v.fields[f.index('value')], v.fields[f.index('inserted_at')].t, v.fields[f.index('frequency')]))
        return out
    def queue_view(s): return [x.t for x in s.dq.items]
    def stats_view(s):
        return s.stats.fields[s.stats_fields.index('hits')].fields[0], s.stats.fields[s.stats_fields.index('misses')].fields[0]
    def locks_free(s):
        bad = [lk.name for lk in s.locks if lk.state != 0]
        if s.cfg.flavour == 'T': bad += [rc.name for rc in (s.rc_m, s.rc_q) if rc.state != 0]
        return bad
