#!/bin/sh
# proc_mutant.sh <worktree> <pkg> <test target> <checks...>: confirm a sub-agent's change natively, then run the given checks (quick) on /repo with it applied
WT=$1; PKG=$2; T=$3; shift 3
/verif/tools/confirm_mutant.sh $WT $PKG $T 2>&1 | grep -v "^ *[0-9]* test result: ok" | tail -12
echo "== checks"
cd /repo && git apply $WT/_mutant/patch.diff || exit 2
cd /verif
for c in "$@"; do ./check "$c" --tier quick > /tmp/try_$c.log 2>&1; rc=$?; grep -E "^VIOLATION|^UNCONFIRMED|^INCONCLUSIVE|^NOTE|^  " /tmp/try_$c.log | cut -c1-400 | head -8; tail -1 /tmp/try_$c.log | cut -c1-200; echo "-- exit $rc ($c)"; done
git -C /repo checkout -- .
git -C /repo status --short | head -3
