"""mirsym engine: a symbolic executor for rustc MIR text over z3.

* scalars are Python ints/bools when concrete, z3 Int/Bool/Real terms when symbolic
  (Int-first encoding: Rust integer widths are kept through range constraints and the
  explicit overflow `assert`s that `-C overflow-checks=on` puts in the MIR);
* aggregates have a concrete shape per path, symbolic discriminants fork at creation;
* containers / locks / clocks / RNG / formatting are builtin models (section 2.3 of DESIGN.md);
* a path is a choice log; siblings are explored by re-execution (no state copying);
* every entry point is a generator so that a simulated thread can be suspended at a
  scheduling point (lock acquisition, DashMap call, atomic, Once).
Anything not understood raises Unsupported => the check reports INCONCLUSIVE, never a verdict.
"""
import re, time, itertools, hashlib, sys
import z3
sys.setrecursionlimit(100000)
from .mirparse import parse_file, Place, split_top


# ------------------------------------------------------------------ exceptions
class Infeasible(Exception): pass
class Unsupported(Exception): pass
class Panic(Exception):
    def __init__(s, msg, kind='panic'): s.msg = msg; s.kind = kind
    def __str__(s): return s.msg
class Deadlock(Exception):
    def __init__(s, info): s.info = info
    def __str__(s): return 'deadlock ' + repr(s.info)


def is_conc(x): return isinstance(x, (int, bool))
def is_z3(x): return isinstance(x, z3.ExprRef)


INT_RANGE = {'u8': (0, 2 ** 8 - 1), 'u16': (0, 2 ** 16 - 1), 'u32': (0, 2 ** 32 - 1), 'u64': (0, 2 ** 64 - 1), 'usize': (0, 2 ** 64 - 1), 'u128': (0, 2 ** 128 - 1),
             'i8': (-2 ** 7, 2 ** 7 - 1), 'i16': (-2 ** 15, 2 ** 15 - 1), 'i32': (-2 ** 31, 2 ** 31 - 1), 'i64': (-2 ** 63, 2 ** 63 - 1), 'isize': (-2 ** 63, 2 ** 63 - 1),
             'i128': (-2 ** 127, 2 ** 127 - 1), 'char': (0, 0x10FFFF)}
VARIANTS = {'None': 0, 'Some': 1, 'Ok': 0, 'Err': 1, 'FIFO': 0, 'LRU': 1, 'LFU': 2, 'ARC': 3, 'Random': 4, 'TLRU': 5, 'Ready': 0, 'Pending': 1,
            'ThreadLocal': 0, 'Global': 1, 'Tag': 0, 'Event': 1, 'Dependency': 2, 'Less': -1, 'Equal': 0, 'Greater': 1,
            'Occupied': 0, 'Vacant': 1, 'Continue': 0, 'Break': 1, 'Borrowed': 0, 'Owned': 1}


# ------------------------------------------------------------------ values
class Agg:
    __slots__ = ('ty', 'variant', 'fields')
    def __init__(s, ty, variant, fields): s.ty = ty; s.variant = variant; s.fields = list(fields)
    def __repr__(s): return f"{s.ty}#{s.variant}{s.fields}"
class Cell:
    __slots__ = ('v', 'name')
    def __init__(s, v=None, name=''): s.v = v; s.name = name
class SlotCell:
    """cell aliasing lst[i] (a container slot)"""
    __slots__ = ('lst', 'i', 'name')
    def __init__(s, lst, i, name='slot'): s.lst = lst; s.i = i; s.name = name
    @property
    def v(s): return s.lst[s.i]
    @v.setter
    def v(s, x): s.lst[s.i] = x
class Ref:
    __slots__ = ('cell', 'path')
    def __init__(s, cell, path=()): s.cell = cell; s.path = tuple(path)
    def __repr__(s): return f"&{getattr(s.cell, 'name', '?')}{list(s.path)}"
class Str:
    """abstract string.  t: python str | z3 Int (opaque key id) | ('join', sep, [Str]) | ('fmt', kind, template, value, type)"""
    __slots__ = ('t', 'cap')
    def __init__(s, t, cap=None): s.t = t; s.cap = cap
    def __repr__(s): return f"Str({s.t})"
class MapM:      # HashMap / HashSet / DashMap: list of [key, value]
    def __init__(s, items=None, kind='HashMap'): s.items = items if items is not None else []; s.kind = kind; s.shard = None
class SeqM:      # Vec / VecDeque
    def __init__(s, items=None, kind='Vec'): s.items = items if items is not None else []; s.kind = kind; s.cap = None
class LockM:
    def __init__(s, inner, name, kind='Mutex'): s.inner = Cell(inner, name); s.state = 0; s.owners = []; s.name = name; s.kind = kind
class GuardM:
    def __init__(s, lock, mode, tid): s.lock = lock; s.mode = mode; s.live = True; s.tid = tid
class LazyM:
    def __init__(s, init, name='lazy'): s.init = init; s.inner = None; s.name = name
class OnceM:
    def __init__(s, name='once'): s.done = False; s.running = None; s.name = name; s.value = None
class IterM:
    def __init__(s, items, pos=0): s.items = items; s.pos = pos; s.adapters = []; s.count = 0; s.guard = None; s.state = {}; s.peeked = None; s.repeat = None; s.genfn = None       # genfn: `iter::from_fn` closure producing further items on demand
class Closure:
    def __init__(s, fname, upvars): s.fname = fname; s.fields = list(upvars)
    def __repr__(s): return f"Closure({s.fname})"
class Coroutine:
    def __init__(s, fname, upvars): s.fname = fname; s.fields = list(upvars); s.variant = 0; s.ty = 'coroutine'
class RefCellM:
    def __init__(s, inner, name): s.inner = Cell(inner, name); s.state = 0; s.name = name   # -1 mut, n shared
class BorrowM:
    def __init__(s, rc, mode): s.rc = rc; s.mode = mode; s.live = True
class TlsKey:
    def __init__(s, name, init): s.name = name; s.init = init; s.per_thread = {}
class FnItem:
    def __init__(s, name): s.name = name
    def __repr__(s): return f"FnItem({s.name})"
class Instant:
    def __init__(s, t): s.t = t          # nanoseconds (Int)
class Duration:
    def __init__(s, t): s.t = t          # nanoseconds (Int)
class FSpec:
    """a non-finite f64 value: 'nan' | 'inf' | '-inf' (finite floats are exact reals)"""
    __slots__ = ('kind',)
    def __init__(s, kind): s.kind = kind
    def __repr__(s): return f"f64::{s.kind}"
NAN = FSpec('nan'); PINF = FSpec('inf'); NINF = FSpec('-inf')


def fspec_binop(ctx, op, a, b):
    """IEEE-754 arithmetic / comparison with a non-finite operand (the finite operand is an exact real or a Python number)"""
    an = isinstance(a, FSpec) and a.kind == 'nan'; bn = isinstance(b, FSpec) and b.kind == 'nan'
    cmp_ops = ('Lt', 'Le', 'Gt', 'Ge', 'Eq', 'Ne')
    if an or bn: return (op == 'Ne') if op in cmp_ops else NAN
    def sgn(x):        # +1 / -1 / 0 of a finite value (forks on symbolic values)
        if isinstance(x, FSpec): return 1 if x.kind == 'inf' else -1
        if isinstance(x, (int, float)): return (x > 0) - (x < 0)
        return [0, 1, -1][ctx.choose([x == 0, x > 0, x < 0])]
    ai = isinstance(a, FSpec); bi = isinstance(b, FSpec)
    if op in cmp_ops:
        va = (2 if a.kind == 'inf' else -2) if ai else 0; vb = (2 if b.kind == 'inf' else -2) if bi else 0
        return {'Lt': va < vb, 'Le': va <= vb, 'Gt': va > vb, 'Ge': va >= vb, 'Eq': va == vb, 'Ne': va != vb}[op]
    if op in ('Add', 'Sub'):
        sb = sgn(b) if bi else 0
        if op == 'Sub': sb = -sb
        sa = sgn(a) if ai else 0
        if ai and bi: return NAN if sa != sb else (PINF if sa > 0 else NINF)
        t = sa if ai else sb
        return PINF if t > 0 else NINF
    if op == 'Mul':
        t = sgn(a) * sgn(b)
        return NAN if t == 0 else (PINF if t > 0 else NINF)
    if op == 'Div':
        if ai and bi: return NAN
        if bi: return z3.RealVal(0)
        t = sgn(a) * sgn(b)
        return PINF if t > 0 else NINF          # inf / 0 keeps the sign of inf (divisor +0.0)
    raise Unsupported('float operation ' + op + ' on a non-finite value')


class Opaque:
    def __init__(s, what): s.what = what
    def __repr__(s): return f"Opaque({s.what})"
class ArgVal:
    """argument placeholder used when only the *shape* of a computation matters (key terms).  Opaque until the code looks
    inside: a tuple-typed placeholder unfolds into one placeholder per component, an Option-typed one into None / Some(inner)"""
    def __init__(s, name, ty, parent=None): s.name = name; s.ty = ty; s._fields = None; s.shape = None; s.parent = parent; s.variant_ = None
    def __repr__(s): return f"<{s.name}: {s.ty}>"
    def _bare(s): return re.sub(r"^&('\w+ )?(mut )?", '', s.ty.strip()).strip()
    @property
    def fields(s):
        if s._fields is None:
            t = s._bare()
            if t.startswith('(') and t.endswith(')') and t != '()':
                s._fields = [ArgVal(f'{s.name}.{i}', c.strip(), s) for i, c in enumerate(split_top(t[1:-1])) if c.strip()]; s.shape = 'tuple'
            else: raise Unsupported(f'projection into the opaque argument {s.name}: {s.ty}')
        return s._fields
    def option_variant(s, ctx):
        """discriminant of an Option-typed placeholder: both variants are explored"""
        m = re.match(r'^(?:std::option::)?Option<(.*)>$', s._bare())
        if not m: raise Unsupported(f'discriminant of {s!r}')
        if s.variant_ is None:
            b = ctx.fresh_bool('opt_' + re.sub(r'\W', '_', s.name))
            s.variant_ = ctx.choose([z3.Not(b), b])
            if s.variant_ == 1: s._fields = [ArgVal(s.name + '.some', m.group(1).strip(), s)]; s.shape = 'some'
            else: s._fields = []; s.shape = 'none'
        return s.variant_
    def elements(s, ctx):
        """elements of a Vec / slice typed placeholder once the code iterates over it: every length 0..2 is explored"""
        t = s._bare()
        m = re.match(r'^(?:std::vec::)?Vec<(.*)>$', t) or re.match(r'^\[(.*)\]$', t)
        if not m: raise Unsupported(f'iteration over the opaque argument {s!r}')
        if s.shape is None:
            n = ctx.fresh_int('len_' + re.sub(r'\W', '_', s.name), 0, 3)
            k = ctx.choose([n == 0, n == 1, n == 2])
            s._fields = [ArgVal(f'{s.name}[{i}]', m.group(1).strip(), s) for i in range(k)]; s.shape = 'vec'
        if s.shape != 'vec': raise Unsupported(f'iteration over {s!r} after it was unfolded as {s.shape}')
        return s._fields
    def leaves(s):
        """the placeholders a value of this argument consists of, given what the executed code unfolded"""
        if s.shape in ('tuple', 'some', 'vec'): return [l for c in s._fields for l in c.leaves()]
        if s.shape == 'none': return []
        return [s]


class EnvFn:
    """user-supplied callable modelled by the driver: apply(ctx, args) -> value"""
    def __init__(s, name, fn): s.name = name; s.fn = fn


def unit(): return Agg('()', 0, [])
def some(v): return Agg('Option', 1, [v])
def none(): return Agg('Option', 0, [])
def ok(v): return Agg('Result', 0, [v])
def err(v): return Agg('Result', 1, [v])
def tup(*xs): return Agg('tuple', 0, list(xs))


def load(ref):
    v = ref.cell.v
    for p in ref.path: v = v.fields[p]
    return v
def store(ref, val):
    if not ref.path: ref.cell.v = val; return
    v = ref.cell.v
    for p in ref.path[:-1]: v = v.fields[p]
    v.fields[ref.path[-1]] = val
def deref(x): return load(x) if isinstance(x, Ref) else x
def deref_all(x):
    while isinstance(x, Ref): x = load(x)
    return x


def clone_val(v):
    """value-level clone (Copy / Clone of data); references, locks and closures stay shared"""
    if isinstance(v, Agg): return Agg(v.ty, v.variant, [clone_val(x) for x in v.fields])
    if isinstance(v, MapM):
        m = MapM([[clone_val(k), clone_val(x)] for k, x in v.items], v.kind); return m
    if isinstance(v, SeqM):
        q = SeqM([clone_val(x) for x in v.items], v.kind); q.cap = v.cap; return q
    return v


# ------------------------------------------------------------------ scalar helpers
def b_not(a): return (not a) if is_conc(a) else z3.Not(a)
def b_and(*xs):
    ys = []
    for x in xs:
        if x is False: return False
        if x is True: continue
        ys.append(x)
    if not ys: return True
    return ys[0] if len(ys) == 1 else z3.And(ys)
def b_or(*xs):
    ys = []
    for x in xs:
        if x is True: return True
        if x is False: continue
        ys.append(x)
    if not ys: return False
    return ys[0] if len(ys) == 1 else z3.Or(ys)
def v_eq(a, b):
    if is_conc(a) and is_conc(b): return a == b
    if is_z3(a) and is_z3(b) and a.eq(b): return True
    r = (a == b)
    return r
def to_real(a):
    if isinstance(a, bool): a = int(a)
    if isinstance(a, int): return z3.RealVal(a)
    if z3.is_real(a): return a
    return z3.ToReal(a)
def is_real(a): return is_z3(a) and z3.is_real(a)
def simp(x):
    if is_z3(x):
        x = z3.simplify(x)
        if z3.is_true(x): return True
        if z3.is_false(x): return False
        if z3.is_int_value(x): return x.as_long()
    return x


def str_eq(a, b):
    """equality of two abstract strings: True / False / z3 Bool"""
    ta, tb = a.t, b.t
    if isinstance(ta, str) and isinstance(tb, str): return ta == tb
    if isinstance(ta, tuple) and isinstance(tb, tuple):
        if ta[0] != tb[0]: return _str_eq_slow(a, b)
        if ta[0] == 'join':
            if ta[1] != tb[1] or len(ta[2]) != len(tb[2]): return _str_eq_slow(a, b)
            return b_and(*[str_eq(x, y) for x, y in zip(ta[2], tb[2])])
        if ta[0] == 'fmt':
            if ta[1:3] != tb[1:3] or ta[4] != tb[4]: return _str_eq_slow(a, b)
            x, y = ta[3], tb[3]
            if isinstance(x, Str) and isinstance(y, Str): return str_eq(x, y)
            return term_eq(x, y)
        if ta[0] == 'fmtn':
            # same template, same formatting traits and types: equal texts iff equal arguments (boundaries are C02's business)
            if ta[1] != tb[1] or len(ta[2]) != len(tb[2]) or any(p[0] != q[0] or p[2] != q[2] for p, q in zip(ta[2], tb[2])): return _str_eq_slow(a, b)
            return b_and(*[(str_eq(p[1], q[1]) if isinstance(p[1], Str) and isinstance(q[1], Str) else term_eq(p[1], q[1])) for p, q in zip(ta[2], tb[2])])
        if ta[0] == 'concat':
            if len(ta[1]) != len(tb[1]): return _str_eq_slow(a, b)
            return b_and(*[str_eq(x, y) for x, y in zip(ta[1], tb[1])])
    if isinstance(ta, (str, tuple)) or isinstance(tb, (str, tuple)):
        return _str_eq_slow(a, b)
    return v_eq(ta, tb)
def _str_eq_slow(a, b):
    from .builtins_ext import render_concrete
    ra, rb = render_concrete(a), render_concrete(b)
    if ra is not None and rb is not None: return ra == rb          # both texts are fully concrete: compare them
    # structurally different terms (literal vs rendered, different arity...): the wrapper-level VCs never
    # compare such keys inside one cache (one key shape per subject); across shapes: different unless proven
    # otherwise by C02.  Literal-vs-opaque-id: an opaque id never equals a literal.
    return False
def term_eq(x, y):
    x = deref_all(x); y = deref_all(y)                      # PartialEq on references compares the referents
    if isinstance(x, Agg) and isinstance(y, Agg):
        if x.variant != y.variant or len(x.fields) != len(y.fields): return False
        return b_and(*[term_eq(p, q) for p, q in zip(x.fields, y.fields)])
    if isinstance(x, Str) and isinstance(y, Str): return str_eq(x, y)
    if isinstance(x, SeqM) and isinstance(y, SeqM):
        if len(x.items) != len(y.items): return False
        return b_and(*[term_eq(p, q) for p, q in zip(x.items, y.items)])
    if isinstance(x, (Instant, Duration)) and type(x) is type(y): return v_eq(x.t, y.t)
    if isinstance(x, (Agg, Str, SeqM)) or isinstance(y, (Agg, Str, SeqM)): return False
    if not ((is_conc(x) or is_z3(x) or isinstance(x, float)) and (is_conc(y) or is_z3(y) or isinstance(y, float))): raise Unsupported(f'equality of {type(x).__name__} and {type(y).__name__}')
    return v_eq(x, y)


# ------------------------------------------------------------------ one path
class Ctx:
    def __init__(s, forced, seed=0, timeout_ms=20000):
        s.solver = z3.Solver(); s.solver.set('timeout', timeout_ms)
        if seed: s.solver.set('random_seed', seed % (2 ** 31))
        s.forced = list(forced); s.trace = []; s.new_alts = []
        s.pc = []; s.nchecks = 0; s.tsolve = 0.0; s.steps = 0; s.events = []; s.fresh = itertools.count()
        s.now_vars = []; s.sys_vars = []; s.tid = 0; s.sched_trace = []; s.blocks = 0
        s.gate_policy = None; s.notes = []; s.funcs_used = set(); s.tysubst = []; s.builtins_used = set(); s.real_time = False; s.blocked = []
    def add(s, c):
        if c is True: return
        if c is False: raise Infeasible()
        s.pc.append(c); s.solver.add(c)
    def check(s, *extra):
        t = time.time(); s.nchecks += 1
        r = s.solver.check(*extra); s.tsolve += time.time() - t
        if r == z3.unknown: raise Unsupported('z3 unknown: ' + s.solver.reason_unknown())
        return r == z3.sat
    def feasible(s, c):
        if c is True: return True
        if c is False: return False
        return s.check(c)
    def choose(s, conds):
        """fork over mutually exclusive, jointly exhaustive conditions; returns the index taken on this path"""
        pos = len(s.trace)
        if pos < len(s.forced): i = s.forced[pos]
        else:
            feas = [i for i, c in enumerate(conds) if s.feasible(c)]
            if not feas: raise Infeasible()
            i = feas[0]
            for j in feas[1:]: s.new_alts.append(s.trace + [j])
        s.trace.append(i); s.add(conds[i]); return i
    def choose_free(s, k):
        """unconditional k-way choice (scheduler, nondeterministic environment)"""
        if k <= 1: return 0
        pos = len(s.trace)
        if pos < len(s.forced): i = s.forced[pos]
        else:
            i = 0
            for j in range(1, k): s.new_alts.append(s.trace + [j])
        s.trace.append(i); return i
    def branch(s, cond):
        if is_conc(cond): return bool(cond)
        cond = simp(cond)
        if is_conc(cond): return bool(cond)
        return s.choose([cond, z3.Not(cond)]) == 0
    def concretize(s, v, candidates):
        """fork a symbolic int over a list of concrete candidates (+ 'other' => returns None)"""
        if is_conc(v): return v
        v = simp(v)
        if is_conc(v): return v
        conds = [v == c for c in candidates] + [z3.And([v != c for c in candidates]) if candidates else True]
        i = s.choose(conds)
        return candidates[i] if i < len(candidates) else None
    def fresh_int(s, name, lo=None, hi=None):
        x = z3.Int(f"{name}!{next(s.fresh)}")
        if lo is not None: s.add(x >= lo)
        if hi is not None: s.add(x <= hi)
        return x
    def fresh_time(s, name, hi):
        if s.real_time:
            x = z3.Real(f"{name}!{next(s.fresh)}"); s.add(z3.And(x >= 0, x <= hi)); return x
        return s.fresh_int(name, 0, hi)
    def fresh_bool(s, name): return z3.Bool(f"{name}!{next(s.fresh)}")
    def fresh_real(s, name): return z3.Real(f"{name}!{next(s.fresh)}")
    def prove(s, claim):
        """True iff claim holds on every model of the path condition; returns (ok, model_or_None)"""
        if claim is True: return True, None
        if claim is False: return False, (s.solver.model() if s.check() else None)
        if s.check(z3.Not(claim)): return False, s.solver.model()
        return True, None


# ------------------------------------------------------------------ names
def strip_generics(fn):
    out = []; i = 0; n = len(fn)
    while i < n:
        if fn.startswith('::<', i) and not fn.startswith('::<impl', i):
            j = i + 2; dd = 0
            while True:
                c = fn[j]
                if c == '<': dd += 1
                elif c == '>' and fn[j - 1] != '-':
                    dd -= 1
                    if dd == 0: break
                j += 1
            i = j + 1; continue
        out.append(fn[i]); i += 1
    return ''.join(out)


def outer_ty(t):
    t = t.strip()
    while True:
        t2 = re.sub(r"^&('\w+ )?(mut )?", '', t)
        t2 = re.sub(r"^\*(const|mut) ", '', t2)
        if t2 == t: break
        t = t2
    if t.startswith('('):
        return 'tuple%d' % len(split_top(t[1:-1])) if t != '()' else '()'
    if t.startswith('['): return 'slice'
    if t.startswith('dyn '): return 'dyn'
    t = re.sub(r'<.*', '', t)
    return t.split('::')[-1]


def norm_trait_call(g):
    """'<T<..> as path::Trait<..>>::m' -> (outer type name, trait name, method, full self type)"""
    if not g.startswith('<'): return None
    d = 0; i = 0
    for i, c in enumerate(g):
        if c == '<': d += 1
        elif c == '>' and g[i - 1] != '-':
            d -= 1
            if d == 0: break
    inner = g[1:i]; rest = g[i + 1:]
    if not rest.startswith('::'): return None
    # split "Type as Trait" at top level
    d = 0; k = -1; j = 0
    while j < len(inner):
        c = inner[j]
        if c in '<([': d += 1
        elif c in ')]' or (c == '>' and inner[j - 1] != '-'): d -= 1
        elif d == 0 and inner.startswith(' as ', j): k = j
        j += 1
    if k < 0: return None
    ty = inner[:k]; tr = inner[k + 4:]
    meth = rest[2:]
    if '::' in meth: return None
    return outer_ty(ty), re.sub(r'<.*', '', tr).split('::')[-1], meth, ty


def _strip_ref(t):
    t = t.strip()
    while True:
        t2 = re.sub(r"^&('\w+ )?(mut )?", '', t).strip()
        if t2 == t: return t
        t = t2


def bind_params(param_ty, site_ty):
    """{type parameter: concrete type} obtained by unifying a callee's self type (`&GlobalCache<R>`, `&GlobalCache<Result<T, E>>`,
    `&T`, `&Self`) with the concrete self type of a call site (`GlobalCache<u64>`, `GlobalCache<Result<u64, u8>>`, `u64`)"""
    isparam = lambda t: bool(re.match(r'^([A-Z][0-9]?|Self)$', t))
    out = {}
    def unify(p, sct):
        p = _strip_ref(p); sct = _strip_ref(sct)
        if isparam(p):
            if not isparam(sct): out.setdefault(p, sct)
            return
        if p.startswith('(') and sct.startswith('('):
            ps = split_top(p[1:-1]); ss = split_top(sct[1:-1])
        else:
            pm = re.search(r'<(.*)>$', p); sm = re.search(r'<(.*)>$', sct)
            if not pm or not sm: return
            if p[:pm.start()].split('::')[-1] != sct[:sm.start()].split('::')[-1]: return
            ps = [t for t in split_top(pm.group(1)) if not t.strip().startswith("'")]; ss = [t for t in split_top(sm.group(1)) if not t.strip().startswith("'")]
        if len(ps) != len(ss): return
        for a_, b_ in zip(ps, ss): unify(a_, b_)
    unify(param_ty, site_ty)
    return out or None


class Program:
    """parsed MIR of one or more crates + closure identities + function resolution"""
    def __init__(s):
        s.fns = {}; s.statics = {}; s.consts = {}; s.allocs = {}; s.clo_of_local = {}; s.clo_on_line = {}
        s.methods = {}; s.traitm = {}; s.free = {}; s.sources = {}; s.text = {}; s.clo_zs_on_line = {}
    def load(s, plain, verbose=None, tag=''):
        items, allocs = parse_file(plain)
        plines = open(plain).read().split('\n')
        vlines = open(verbose).read().split('\n') if verbose else None
        if vlines is not None and len(vlines) != len(plines):
            raise Unsupported(f'verbose MIR dump of {tag} is not line-aligned with the plain dump ({len(vlines)} vs {len(plines)})')
        s.text[tag] = plines
        for k, f in items.items():
            if not isinstance(k, tuple): continue
            f.tag = tag
            if f.kind == 'fn': s.fns.setdefault(f.name, f)
            elif f.kind.startswith('static'): s.statics.setdefault(f.name, f)
            else: s.consts.setdefault(f.name, f)
            if vlines:
                a, b = f.text_lines
                for ln in range(a - 1, b + 1):
                    pl = plines[ln - 1] if 0 < ln <= len(plines) else ''
                    if '{closure@' not in pl and '{coroutine@' not in pl and 'async ' not in pl: continue
                    names = re.findall(r'\{(?:static )?((?:<[^<>{}]*>|[^{} ]|\{(?:closure|constant|impl)#\d+\})*?\{closure#\d+\}) (?:closure_kind_ty|upvar_tys|resume_ty)', vlines[ln - 1])
                    mm = re.match(r'^\s*let (?:mut )?_(\d+): ', pl)
                    if mm and names: s.clo_of_local[(f.name, int(mm.group(1)))] = names[0]
                    if names: s.clo_on_line[(tag, ln)] = names
                    zs = re.findall(r'ZeroSized: \{(?:static )?((?:<[^<>{}]*>|[^{} ]|\{(?:closure|constant|impl)#\d+\})*?\{closure#\d+\}) (?:closure_kind_ty|upvar_tys|resume_ty)', vlines[ln - 1])
                    if zs: s.clo_zs_on_line[(tag, ln)] = zs
        for k, v in allocs.items(): s.allocs[(tag, k)] = v
        s._index()
    def fn_hash(s, f):
        a, b = f.text_lines
        return hashlib.sha256('\n'.join(s.text[f.tag][a - 2:b + 1]).encode()).hexdigest()[:16]
    def _index(s):
        s.methods = {}; s.traitm = {}; s.free = {}
        impl_ty = {}
        for name, f in s.fns.items():
            g = strip_generics(name)
            m = re.search(r'<impl at [^>]*>', g)
            if m and '{closure' not in g[m.end():] and g[m.end():].count('::') == 1:
                key = (f.tag, m.group(0))
                if f.args and 'self' in f.debug and f.debug['self'] == '_%d' % f.args[0]:
                    impl_ty.setdefault(key, outer_ty(f.locals[f.args[0]].ty))
        for name, f in s.fns.items():
            g = strip_generics(name)
            if '{closure' in g: continue
            m = re.search(r'<impl at [^>]*>', g)
            if m:
                rest = g[m.end():]
                if rest.count('::') != 1: continue
                meth = rest[2:]
                key = (f.tag, m.group(0))
                ty = impl_ty.get(key)
                if ty is None:
                    if f.args and meth in ('fmt', 'clone', 'eq', 'ne', 'estimate_memory', 'to_cache_key', 'partial_cmp', 'cmp', 'hash'):
                        ty = outer_ty(f.locals[f.args[0]].ty)
                    else: ty = outer_ty(f.ret)
                s.methods.setdefault((ty, meth), []).append(f)
            else:
                parts = g.split('::')
                if len(parts) >= 2 and parts[-2][:1].isupper():     # Trait::default_method
                    s.traitm.setdefault((parts[-2], parts[-1]), []).append(f)
                s.free.setdefault(parts[-1], []).append(f)
    def resolve(s, func):
        g = strip_generics(func)
        if g in s.fns: return s.fns[g]
        tc = norm_trait_call(g)
        if tc:
            ty, tr, meth, full = tc
            c = s.methods.get((ty, meth), [])
            if len(c) == 1: return c[0]
            if len(c) > 1:
                # several impls of the same method on one type name: pick by trait hint
                c2 = [f for f in c if tr.lower() in f.name.lower()]
                if len(c2) == 1: return c2[0]
                return c[0] if tr in ('Clone', 'PartialEq', 'Debug', 'From', 'Default') else None
            # blanket impl on a type parameter
            c = [f for (t, m2), fs in s.methods.items() if m2 == meth and (re.match(r'^[A-Z][0-9]?$', t) or t == 'Self') for f in fs]
            if len(c) == 1: return c[0]
            c = s.traitm.get((tr, meth), [])
            if len(c) == 1: return c[0]
            return None
        parts = g.split('::'); meth = parts[-1]
        if len(parts) >= 2 and parts[-2][:1].isupper():
            c = s.methods.get((parts[-2], meth), [])
            if len(c) == 1: return c[0]
            if len(c) > 1: return None
        c = s.free.get(meth, [])
        c = [f for f in c if '<impl' not in f.name]
        if len(c) == 1: return c[0]
        if len(c) > 1 and len(parts) >= 2:
            suf = '::'.join(parts[-2:])
            c2 = [f for f in c if strip_generics(f.name).endswith(suf)]
            if len(c2) == 1: return c2[0]
        if len(parts) >= 2:
            # an item nested in a method: call sites name the type (`Svc::m::inner`), definitions the impl span (`<impl at ..>::m::inner`)
            for k_ in range(2, len(parts) + 1):
                suf = '::' + '::'.join(parts[-k_:])
                c3 = [f for n_, f in s.fns.items() if strip_generics(n_).endswith(suf)]
                if len(c3) == 1: return c3[0]
                if not c3: break
        return None


class Thread:
    def __init__(s, tid, mk): s.tid = tid; s.mk = mk; s.gen = None; s.pending = None; s.done = False; s.result = None; s.error = None


# ------------------------------------------------------------------ interpreter
STEP_BUDGET = 200000


class Interp:
    def __init__(s, prog):
        s.p = prog; s.env = {}
        s.reset()
    def reset(s):
        s.static_cells = {}; s.tls = {}; s.const_cache = {}; s.lock_names = {}; s._addr = {}; s._addr_keep = []

    # ---------- function execution (generator)
    def call_fn(s, ctx, f, args):
        if f.parse_error: raise Unsupported('unparsed MIR in ' + f.name + ': ' + f.parse_error)
        ctx.funcs_used.add(f.name)
        frame = {}
        for idx, a in zip(f.args, args): frame[idx] = Cell(a, f"_{idx}")
        blk = 'bb0'
        while True:
            ctx.steps += 1; ctx.blocks += 1
            if ctx.steps > STEP_BUDGET: raise Unsupported('step budget exhausted in ' + f.name)
            for ln, st in f.blocks[blk]:
                k = st[0]
                if k == 'assign':
                    s.write(ctx, frame, f, st[1], s.rvalue(ctx, frame, f, st[2], st[1], ln))
                elif k in ('nop', 'ConstEvalCounter'): pass
                elif k == 'setdiscr': s.read(ctx, frame, f, st[1]).variant = st[2]
                elif k == 'goto': blk = st[1]; break
                elif k == 'return':
                    return frame[0].v if 0 in frame and frame[0].v is not None else unit()
                elif k == 'unreachable': raise Panic('unreachable code reached in ' + f.name, 'unreachable')
                elif k == 'resume': raise Panic('unwinding (resume) in ' + f.name)
                elif k == 'switch':
                    blk = s.switch(ctx, s.operand(ctx, frame, f, st[1], ln), st[2]); break
                elif k == 'drop':
                    try: v = s.read(ctx, frame, f, st[1])
                    except (KeyError, AttributeError, IndexError, TypeError): v = None
                    s.drop_val(ctx, v); blk = st[2]['return']; break
                elif k == 'assert':
                    c = s.operand(ctx, frame, f, st[2], ln)
                    okc = c if not st[1] else b_not(c)
                    if not ctx.branch(okc): raise Panic('assertion failed: ' + st[3][:80] + ' in ' + f.name, 'assert')
                    blk = st[4]['success']; break
                elif k == 'call':
                    args_ = [s.operand(ctx, frame, f, a, ln) for a in st[3]]
                    r = yield from s.call(ctx, st[2], args_, f, ln, frame)
                    if st[1] is not None: s.write(ctx, frame, f, st[1], r)
                    if 'return' not in st[4]: raise Panic('diverging call returned: ' + st[2][:60])
                    blk = st[4]['return']; break
                elif k == 'unparsed': raise Unsupported('unparsed statement: ' + st[1][:100])
                else: raise Unsupported('stmt ' + k)
            else: raise Unsupported('block without terminator in ' + f.name)

    def switch(s, ctx, v, tg):
        if isinstance(v, bool): v = int(v)
        if isinstance(v, str): raise Unsupported('switch on enum without discriminant table: ' + v)
        v = simp(v)
        if isinstance(v, bool): v = int(v)
        keys = [k for k in tg if k != 'otherwise']
        if is_conc(v):
            d = tg.get(str(v), tg.get('otherwise'))
            if d is None: raise Panic('switchInt without target for %r' % v)
            return d
        conds = []; dests = []
        for k in keys:
            kv = int(k)
            conds.append((v if kv else z3.Not(v)) if z3.is_bool(v) else v == kv)
            dests.append(tg[k])
        if 'otherwise' in tg:
            if z3.is_bool(v) and len(keys) == 1: conds.append(z3.Not(conds[0]))
            else: conds.append(z3.And([z3.Not(c) for c in conds]) if conds else True)
            dests.append(tg['otherwise'])
        return dests[ctx.choose(conds)]

    # ---------- places
    def cell_of(s, frame, local):
        c = frame.get(local)
        if c is None: c = frame[local] = Cell(None, f"_{local}")
        return c
    def walk(s, ctx, frame, f, place):
        cell = s.cell_of(frame, place.local); path = []
        for pr in place.proj:
            k = pr[0]
            if k == 'deref':
                cur = load(Ref(cell, path))
                if isinstance(cur, Agg) and cur.ty in ('Box', 'Pin') and cur.fields and isinstance(cur.fields[0], Ref): cur = cur.fields[0]
                if isinstance(cur, Str):
                    # `&str` constants are modelled by the text itself: `*s` is that text (kept in place; strings are immutable here)
                    continue
                if not isinstance(cur, Ref): raise Unsupported(f'deref of non-reference {cur!r} in {f.name}')
                cell, path = cur.cell, list(cur.path)
            elif k == 'field':
                cur = load(Ref(cell, path))
                if cur is None:
                    cur = Agg('?', 0, []); store(Ref(cell, path), cur)
                if isinstance(cur, Ref) and pr[1] == 0:
                    continue        # pointer newtypes (Unique<T> / NonNull<T> inside Box): the wrapped pointer is the reference itself
                if isinstance(cur, (Agg, Closure, Coroutine)):
                    while len(cur.fields) <= pr[1]: cur.fields.append(None)
                elif isinstance(cur, ArgVal):
                    if pr[1] >= len(cur.fields): raise Unsupported(f'field .{pr[1]} of the argument placeholder {cur!r} in {f.name}')     # .fields unfolds a tuple / Some(..) placeholder
                else: raise Unsupported(f'field .{pr[1]} of {type(cur).__name__} in {f.name}')
                path.append(pr[1])
            elif k == 'downcast':
                mm = re.match(r'variant#(\d+)$', pr[1])
                if mm:
                    cur = load(Ref(cell, path)); idx = 100 + int(mm.group(1))
                    while len(cur.fields) <= idx: cur.fields.append(None)
                    if cur.fields[idx] is None: cur.fields[idx] = Agg('covariant', int(mm.group(1)), [])
                    path.append(idx)
            elif k == 'index':
                cur = load(Ref(cell, path))
                ix = pr[1]
                if ':' in ix:
                    # Subslice projection of a slice pattern (`[first, rest @ ..]`): `[a:]`, `[:-b]`, `[a:-b]` - a view for reading
                    a_, b_ = ix.split(':'); items_ = cur.items if isinstance(cur, SeqM) else (cur.fields if isinstance(cur, Agg) else None)
                    if items_ is None: raise Unsupported('subslice of ' + type(cur).__name__)
                    lo_ = int(a_) if a_.strip() else 0; hi_ = len(items_) + int(b_) if b_.strip().startswith('-') else (int(b_) if b_.strip() else len(items_))
                    cell, path = Cell(SeqM(items_[lo_:hi_], 'Vec'), 'subslice'), []
                    continue
                iv = frame[int(ix[1:])].v if ix.startswith('_') else int(ix.split(' ')[0])
                iv = simp(iv)
                if not is_conc(iv): raise Unsupported('symbolic index projection')
                if isinstance(cur, SeqM):
                    if iv >= len(cur.items): raise Panic('index out of bounds', 'index')
                    cell, path = SlotCell(cur.items, iv), []
                elif isinstance(cur, Agg):
                    if iv >= len(cur.fields): raise Panic('index out of bounds', 'index')
                    path.append(iv)
                else: raise Unsupported('index into ' + type(cur).__name__)
            else: raise Unsupported('projection ' + str(pr))
        return Ref(cell, path)
    def read(s, ctx, frame, f, place): return load(s.walk(ctx, frame, f, place))
    def write(s, ctx, frame, f, place, v): store(s.walk(ctx, frame, f, place), v)

    def operand(s, ctx, frame, f, op, ln=None):
        if op[0] == 'move': return s.read(ctx, frame, f, op[1])
        if op[0] == 'copy':
            v = s.read(ctx, frame, f, op[1])
            return clone_val(v) if isinstance(v, Agg) else v
        return s.const(ctx, f, op[1], ln)

    def static_ref(s, name):
        if name not in s.static_cells: s.static_cells[name] = Cell(('uninit-static', name), name)
        return Ref(s.static_cells[name])

    def const(s, ctx, f, c, ln=None):
        c = c.strip()
        if c == 'true': return True
        if c == 'false': return False
        if c == '()': return unit()
        m = re.match(r'^(-?\d+)_(u8|u16|u32|u64|usize|i8|i16|i32|i64|isize|u128|i128)$', c)
        if m: return int(m.group(1))
        m = re.match(r'^(-?[\d.]+(?:[eE][+-]?\d+)?)_?f(64|32)$', c)
        if m: return z3.RealVal(m.group(1))
        if c.startswith('"') and c.endswith('"'):
            return Str(_unescape(c[1:-1]))
        m = re.match(r"^'(.*)'$", c)
        if m:
            ch = _unescape(m.group(1)); return ord(ch) if len(ch) == 1 else Opaque(('char', c))
        if re.search(r'<impl (u64|usize)>::MAX$', c) or c in ('u64::MAX', 'usize::MAX', 'core::num::<impl u64>::MAX', 'core::num::<impl usize>::MAX'): return 2 ** 64 - 1
        if re.search(r'<impl u32>::MAX$', c): return 2 ** 32 - 1
        if re.search(r'<impl f64>::MAX$', c) or c == 'f64::MAX': return z3.RealVal(2) ** 1023
        m = re.search(r'(?:<impl (\w+)>|\b(u8|u16|u32|u64|usize|u128|i8|i16|i32|i64|isize|i128|f64|f32))::(MIN|MAX|BITS|EPSILON|INFINITY|NEG_INFINITY|NAN|MIN_POSITIVE)$', c)
        if m:
            t_ = m.group(1) or m.group(2); k_ = m.group(3)
            if t_ in INT_RANGE and k_ in ('MIN', 'MAX'): return INT_RANGE[t_][0 if k_ == 'MIN' else 1]
            if t_ in INT_RANGE and k_ == 'BITS': return {'u8': 8, 'i8': 8, 'u16': 16, 'i16': 16, 'u32': 32, 'i32': 32, 'u128': 128, 'i128': 128}.get(t_, 64)
            if t_ in ('f64', 'f32'):
                big = z3.RealVal(2) ** (1023 if t_ == 'f64' else 127)
                if k_ == 'MAX': return big
                if k_ == 'MIN': return -big
                if k_ == 'INFINITY': return PINF
                if k_ == 'NEG_INFINITY': return NINF
                if k_ == 'NAN': return NAN
                if k_ == 'EPSILON': return z3.RealVal(2) ** (-52 if t_ == 'f64' else -23)
                if k_ == 'MIN_POSITIVE': return z3.RealVal(2) ** (-1022 if t_ == 'f64' else -126)
        if re.search(r'Duration::(ZERO|MAX|SECOND|MILLISECOND)$', c):
            return Duration({'ZERO': 0, 'MAX': (2 ** 64 - 1) * 10 ** 9 + 999999999, 'SECOND': 10 ** 9, 'MILLISECOND': 10 ** 6}[c.rsplit('::', 1)[1]])
        if c.endswith('std::time::UNIX_EPOCH') or c.endswith('time::UNIX_EPOCH'): return Opaque('unix_epoch')
        m = re.match(r'^\{(alloc\d+): (.*)\}$', c)
        if m:
            al = s.p.allocs.get((f.tag, m.group(1)))
            if al and al[0].startswith('static: '):
                return s.static_ref((f.tag, al[0][8:].split(',')[0]))
            if al: return Opaque(('alloc', m.group(1), tuple(al[1])))
            raise Unsupported('unknown alloc ' + c)
        m = re.match(r'^b"(.*)"$', c)
        if m: return Opaque(('bytes', m.group(1)))
        if c.startswith('ZeroSized: {closure') or c.startswith('{closure'):
            return s.closure_by_site(f, None, ln, c, [])
        if re.search(r'::promoted\[\d+\]$', c) or c in s.p.consts:
            return s.eval_const(ctx, f, c)
        if c.startswith('ZeroSized: '): c = c[11:]
        if c.startswith(('fn(', 'for<')): raise Unsupported('fn pointer const ' + c[:60])
        if re.match(r'^[\w:<>{}#@ ,.\-\[\]&\'()\*/]+$', c):
            cc = strip_generics(c)
            if cc in s.p.consts: return s.eval_const(ctx, f, cc)
            if '::' in cc and not cc.endswith(')'):
                parts_ = cc.split('::')
                if re.match(r'^[A-Z0-9_]+$', parts_[-1]):       # looks like a const item (e.g. a thread_local! key inside a method)
                    for k_ in range(1, len(parts_)):
                        suf = '::' + '::'.join(parts_[k_:])
                        cands = [n for n, g_ in s.p.consts.items() if n.endswith(suf) and g_.tag == f.tag]
                        if len(cands) == 1: return s.eval_const(ctx, f, cands[0])
                        if len(cands) > 1: break
            return FnItem(c)
        raise Unsupported('const ' + c[:80])

    def eval_const(s, ctx, f, name):
        key = (f.tag, name)
        if key in s.const_cache: return s.const_cache[key]
        cf = s.p.consts.get(name)
        if cf is None:
            mm = re.match(r'^(.*)::(promoted\[\d+\])$', name)
            if mm:
                ff = s.p.resolve(mm.group(1))
                if ff is not None: cf = s.p.consts.get(ff.name + '::' + mm.group(2))
        if cf is None: raise Unsupported('const item ' + name)
        g = s.call_fn(ctx, cf, [])
        try:
            next(g); raise Unsupported('const evaluation reached a scheduling point: ' + name)
        except StopIteration as e: v = e.value
        s.const_cache[key] = v
        return v

    def closure_by_site(s, f, dest, ln, ty, upvars):
        """identity of a closure/coroutine aggregate or ZeroSized closure const"""
        span = re.search(r'\{(?:closure|coroutine|async block|async fn body)[@ ]([^}]*?)(?: \(#\d+\))?\}', ty)
        spantxt = span.group(1) if span else None
        name = None
        if spantxt:
            cands = [n for n, g in s.p.fns.items() if '{closure#' in n and g.args and ('@' + spantxt) in g.locals[g.args[0]].ty and g.tag == f.tag]
            if len(cands) == 1: name = cands[0]
            elif len(cands) > 1:
                c2 = [n for n in cands if n.startswith(f.name + '::{closure#') and n.count('{closure#') == f.name.count('{closure#') + 1]
                if len(c2) == 1: name = c2[0]
        if name is None and dest is not None and not dest.proj:
            name = s.p.clo_of_local.get((f.name, dest.local))
        if name is None and dest is None:
            zs = s.p.clo_zs_on_line.get((f.tag, ln), [])
            if len(set(zs)) == 1: name = zs[0]
        if name is None:
            names = s.p.clo_on_line.get((f.tag, ln), [])
            if names: name = names[0]
        if name is None: raise Unsupported(f'closure identity {ty} at {f.name}:{ln}')
        if name not in s.p.fns and re.search(r'\w<[A-Za-z_][\w, ]*>::', name):
            # the verbose dump spells generic parameters of enclosing items (`f::helper<V>::{closure#0}`), item names do not
            bare = re.sub(r'(?<=\w)<[A-Za-z_][\w, ]*>(?=::)', '', name)
            if bare in s.p.fns or any(n.endswith(bare) for n in s.p.fns): name = bare
        if name not in s.p.fns:
            c = [n for n in s.p.fns if n.endswith(name)]
            if len(c) == 1: name = c[0]
            else:
                # verbose names are crate-qualified ("vsubjects::g::{closure#0}")
                short = name.split('::', 1)[1] if '::' in name else name
                c = [n for n in s.p.fns if n == short]
                if len(c) != 1:
                    # methods: verbose names say `Type::method::{closure#k}`, items say `<impl at ..>::method::{closure#k}`
                    parts_ = name.split('::'); c = []
                    for k_ in range(1, len(parts_)):
                        tail = '::'.join(parts_[k_:])
                        if tail.startswith('{'): break
                        c = [n for n, g_ in s.p.fns.items() if n.endswith('::' + tail) and g_.tag == f.tag and '<impl at' in n]
                        if len(c) == 1: break
                if len(c) == 1: name = c[0]
                else: raise Unsupported('closure fn not found: ' + name)
        if ty.startswith('{coroutine') or 'async' in ty.split('@')[0]: return Coroutine(name, upvars)
        return Closure(name, upvars)

    def rvalue(s, ctx, frame, f, rv, dest=None, ln=None):
        k = rv[0]
        if k == 'use': return s.operand(ctx, frame, f, rv[1], ln)
        if k == 'ref': return s.walk(ctx, frame, f, rv[2])
        if k == 'rawref': return s.walk(ctx, frame, f, rv[2])
        if k == 'tlsref': raise Unsupported('raw thread-local reference')
        if k == 'discr':
            v = s.read(ctx, frame, f, rv[1])
            if isinstance(v, (Agg, Coroutine)): return v.variant
            if isinstance(v, ArgVal): return v.option_variant(ctx)
            raise Unsupported(f'discriminant of {v!r}')
        if k == 'binop':
            ty = None
            if dest is not None and not dest.proj and dest.local in f.locals: ty = f.locals[dest.local].ty
            return s.binop(ctx, rv[1], s.operand(ctx, frame, f, rv[2], ln), s.operand(ctx, frame, f, rv[3], ln), ty, rv)
        if k == 'unop':
            a = s.operand(ctx, frame, f, rv[2], ln)
            if rv[1] == 'Not':
                if isinstance(a, bool) or (is_z3(a) and z3.is_bool(a)): return b_not(a)
                raise Unsupported('bitwise Not on integer')
            if rv[1] == 'Neg': return -a
            if rv[1] == 'PtrMetadata':
                d_ = deref_all(a)                     # metadata of a slice reference = its length
                if isinstance(d_, SeqM): return len(d_.items)
                if isinstance(d_, Agg) and d_.ty == 'array': return len(d_.fields)
                raise Unsupported('PtrMetadata of ' + type(d_).__name__)
            raise Unsupported('unop ' + rv[1])
        if k == 'cast':
            a = s.operand(ctx, frame, f, rv[2], ln); ck = rv[1]; ty = rv[3].strip()
            if ck == 'IntToFloat': return to_real(a)
            if ck == 'IntToInt':
                if isinstance(a, bool): a = int(a)
                if is_z3(a) and z3.is_bool(a): a = z3.If(a, 1, 0)
                lo, hi = INT_RANGE.get(ty, (None, None))
                if lo is None: raise Unsupported('cast to ' + ty)
                if is_conc(a):
                    if lo <= a <= hi: return a
                    return ((a - lo) % (hi - lo + 1)) + lo
                inr, _ = ctx.prove(z3.And(a >= lo, a <= hi))
                if inr: return a
                return ((a - lo) % (hi - lo + 1)) + lo
            if ck == 'FloatToInt':
                # `as`: truncation toward zero, saturating at the bounds of the target type, NaN -> 0
                lo, hi = INT_RANGE.get(ty.strip(), (0, 2 ** 64 - 1))
                if isinstance(a, FSpec): return 0 if a.kind == 'nan' else (hi if a.kind == 'inf' else lo)
                a = simp(a) if is_z3(a) else a
                if isinstance(a, float): a = z3.RealVal(a)
                if is_z3(a) and z3.is_rational_value(a):
                    n_, d_ = a.numerator_as_long(), a.denominator_as_long(); q_ = abs(n_) // d_ * (1 if n_ >= 0 else -1)
                    return max(lo, min(hi, q_))
                if is_conc(a): return max(lo, min(hi, int(a)))
                q = ctx.fresh_int('ftoi')
                ar = to_real(a)
                ctx.add(z3.If(ar >= 0, z3.And(z3.ToReal(q) <= ar, ar < z3.ToReal(q) + 1), z3.And(z3.ToReal(q) >= ar, ar > z3.ToReal(q) - 1)))
                return z3.If(q > hi, hi, z3.If(q < lo, lo, q))
            if ck == 'PointerExposeProvenance' and isinstance(a, Ref):
                # address of an object as an integer: one distinct, stable, non-null number per (cell, projection) of this run
                key = (id(a.cell), a.path)
                tab = s.__dict__.setdefault('_addr', {})
                keep = s.__dict__.setdefault('_addr_keep', [])
                if key not in tab: tab[key] = 0x10000 + 0x100 * len(tab); keep.append(a.cell)
                return tab[key]
            if ck in ('PointerCoercion', 'Transmute', 'PtrToPtr', 'FloatToFloat', 'FnPtrToPtr', 'PointerExposeProvenance'): return a
            raise Unsupported('cast ' + ck)
        if k == 'agg':
            kind, ty, flds = rv[1], rv[2], rv[3]
            if kind == 'tuple': return Agg('tuple', 0, [s.operand(ctx, frame, f, o, ln) for o in flds])
            if kind == 'array': return Agg('array', 0, [s.operand(ctx, frame, f, o, ln) for o in flds])
            if kind == 'variant':
                name = strip_generics(ty); parts = name.split('::'); vname = parts[-1]; tname = parts[-2] if len(parts) > 1 else '?'
                en = getattr(s.p, 'enums', {}).get(tname)
                if en is not None and vname in en and tname not in ('Option', 'Result', 'Poll', 'Ordering'):
                    return Agg(tname, en[vname], [s.operand(ctx, frame, f, o, ln) for o in flds])
                if vname in VARIANTS and tname[:1].isupper():
                    return Agg(tname, VARIANTS[vname], [s.operand(ctx, frame, f, o, ln) for o in flds])
                if not tname[:1].isupper():
                    # tuple struct  Path(op, ..)  or unit struct
                    return Agg(vname, 0, [s.operand(ctx, frame, f, o, ln) for o in flds])
                # variant of an enum without a known discriminant table: usable as data, not switchable
                return Agg(tname, 'variant:' + vname, [s.operand(ctx, frame, f, o, ln) for o in flds])
            if kind == 'struct': return Agg(strip_generics(ty).split('::')[-1], 0, [s.operand(ctx, frame, f, o, ln) for n, o in flds])
            if kind == 'closure':
                return s.closure_by_site(f, dest, ln, ty, [s.operand(ctx, frame, f, o, ln) for n, o in flds])
        if k == 'repeat':
            n = rv[2].strip(); n = int(re.match(r'(\d+)', n).group(1))
            v = s.operand(ctx, frame, f, rv[1], ln)
            return Agg('array', 0, [clone_val(v) for _ in range(n)])
        if k == 'len':
            v = s.read(ctx, frame, f, rv[1])
            if isinstance(v, SeqM): return len(v.items)
            if isinstance(v, Agg): return len(v.fields)
        raise Unsupported('rvalue ' + k)

    def binop(s, ctx, op, a, b, destty=None, rv=None):
        if isinstance(a, bool) and not isinstance(b, bool) and not (is_z3(b) and z3.is_bool(b)): a = int(a)
        if isinstance(b, bool) and not isinstance(a, bool) and not (is_z3(a) and z3.is_bool(a)): b = int(b)
        if op in ('AddWithOverflow', 'SubWithOverflow', 'MulWithOverflow'):
            ity = None
            if destty:
                mm = re.match(r'^\((\w+), bool\)$', destty.strip())
                if mm: ity = mm.group(1)
            if ity is None and rv is not None:
                for o in (rv[2], rv[3]):
                    if o[0] == 'const':
                        mm = re.match(r'^-?\d+_(\w+)$', o[1].strip())
                        if mm: ity = mm.group(1)
            lo, hi = INT_RANGE.get(ity or 'usize')
            r = a + b if op[0] == 'A' else (a - b if op[0] == 'S' else a * b)
            if is_conc(r): ov = not (lo <= r <= hi)
            else: ov = z3.Or(r > hi, r < lo)
            return Agg('tuple', 0, [r, ov])
        if (is_real(a) or is_real(b)) and op in ('Div', 'Rem') and destty is not None and destty.strip() in INT_RANGE:
            # integer division of integer-typed operands that are modelled over the reals (real-valued clock / hit counters)
            a = to_real(a); b = to_real(b)
            if not ctx.branch(b != 0): raise Panic('attempt to divide by zero', 'arith')
            q = ctx.fresh_int('fdiv'); qr = z3.ToReal(q)
            ctx.add(z3.And(qr * b <= a, a < (qr + 1) * b) if True else True)
            return qr if op == 'Div' else a - qr * b
        if isinstance(a, FSpec) or isinstance(b, FSpec): return fspec_binop(ctx, op, a, b)
        if is_real(a) or is_real(b):
            a = to_real(a); b = to_real(b)
            if op == 'Div':
                # f64 division: x / 0.0 is not a panic but +-inf, and 0.0 / 0.0 is NaN
                bz = simp(b == 0)
                if bz is not False and ctx.feasible(bz) and ctx.branch(bz):
                    return [NAN, PINF, NINF][ctx.choose([a == 0, a > 0, a < 0])]
                return a / b
            return {'Mul': lambda: a * b, 'Sub': lambda: a - b, 'Add': lambda: a + b, 'Lt': lambda: a < b, 'Gt': lambda: a > b,
                    'Le': lambda: a <= b, 'Ge': lambda: a >= b, 'Eq': lambda: a == b, 'Ne': lambda: a != b}[op]()
        if isinstance(a, Agg) or isinstance(b, Agg):
            if op in ('Eq', 'Ne'):
                r = term_eq(a, b); return r if op == 'Eq' else b_not(r)
            raise Unsupported('binop on aggregates ' + op)
        if op in ('Eq', 'Ne'):
            r = v_eq(a, b); return r if op == 'Eq' else b_not(r)
        if op in ('Lt', 'Le', 'Gt', 'Ge'):
            return {'Lt': lambda: a < b, 'Le': lambda: a <= b, 'Gt': lambda: a > b, 'Ge': lambda: a >= b}[op]()
        if op in ('Add', 'AddUnchecked'): return a + b
        if op in ('Sub', 'SubUnchecked'): return a - b
        if op in ('Mul', 'MulUnchecked'): return a * b
        if op in ('Div', 'Rem'):
            if is_conc(b) and b == 0: raise Panic('division by zero', 'arith')
            if is_conc(a) and is_conc(b): return (a // b) if op == 'Div' else (a % b)
            return (a / b) if op == 'Div' else (a % b)
        if op in ('BitAnd', 'BitOr', 'BitXor'):
            if isinstance(a, bool) or (is_z3(a) and z3.is_bool(a)):
                if op == 'BitAnd': return b_and(a, b)
                if op == 'BitOr': return b_or(a, b)
                return z3.Xor(a, b) if not (is_conc(a) and is_conc(b)) else (a != b)
            if is_conc(a) and is_conc(b): return {'BitAnd': a & b, 'BitOr': a | b, 'BitXor': a ^ b}[op]
            raise Unsupported('symbolic bit operation ' + op)
        if op in ('Shl', 'Shr', 'ShlUnchecked', 'ShrUnchecked'):
            if is_conc(a) and is_conc(b): return (a << b) & (2 ** 64 - 1) if op.startswith('Shl') else a >> b
            if is_conc(b): return a * (2 ** b) if op.startswith('Shl') else a / (2 ** b)
            raise Unsupported('symbolic shift')
        if op == 'Cmp':
            c = ctx.choose([a < b, a == b, a > b]) if not (is_conc(a) and is_conc(b)) else (0 if a < b else 1 if a == b else 2)
            return Agg('Ordering', c - 1, [])
        raise Unsupported('binop ' + op)

    def drop_val(s, ctx, v, depth=0):
        if isinstance(v, GuardM):
            if v.live:
                v.live = False; lk = v.lock
                if v.mode == 'w': lk.state = 0
                else: lk.state -= 1
                if v.tid in lk.owners: lk.owners.remove(v.tid)
                ctx.events.append(('unlock', v.tid, lk.name))
        elif isinstance(v, BorrowM):
            if v.live:
                v.live = False
                if v.mode == 'w': v.rc.state = 0
                else: v.rc.state -= 1
        elif isinstance(v, IterM):
            if v.guard is not None: s.drop_val(ctx, v.guard); v.guard = None
        elif isinstance(v, (Agg, Coroutine)) and depth < 8:
            for x in v.fields: s.drop_val(ctx, x, depth + 1)
        elif isinstance(v, SeqM) and depth < 8:
            for x in v.items:
                if isinstance(x, (Agg, GuardM, BorrowM)): s.drop_val(ctx, x, depth + 1)

    # ---------- sizes and powf
    SIZES = {'u8': 1, 'i8': 1, 'bool': 1, 'u16': 2, 'i16': 2, 'u32': 4, 'i32': 4, 'char': 4, 'f32': 4, 'u64': 8, 'i64': 8, 'usize': 8, 'isize': 8, 'f64': 8,
             'u128': 16, 'i128': 16, '()': 0, 'std::string::String': 24, 'String': 24, '&str': 16, 'std::time::Instant': 16,
             'std::result::Result<u64, u8>': 16, 'std::option::Option<u64>': 16, 'std::option::Option<usize>': 16, '(u64, u64)': 16, '(u64, u64, u64)': 24}
    def size_of(s, ctx, ty):
        ty = re.sub(r"'\w+ ", '', ty.strip())
        # associated-type projections that name a plain type: `<Box<T> as Deref>::Target` is `T`
        for _ in range(4):
            mm = re.match(r'^<(?:[\w]+::)*(?:Box|Rc|Arc)<(.*)> as (?:[\w]+::)*Deref>::Target$', ty) or re.match(r'^<&(?:mut )?(.*) as (?:[\w]+::)*Deref>::Target$', ty)
            if not mm: break
            ty = mm.group(1).strip()
        if ty in s.SIZES: return s.SIZES[ty]
        if ty.startswith('&') and ty.endswith(']'): return 16
        if ty.startswith('&') : return 16 if ty in ('&str',) or ty.startswith('&dyn') else 8
        o = outer_ty(ty)
        if o in ('Vec', 'String', 'VecDeque') and o != 'VecDeque': return 24
        if o in ('Box', 'Arc', 'Rc'): return 8
        if re.match(r'^[A-Z][0-9]?$', ty) or ty == 'Self':
            # a type parameter: symbolic constant (the same for every occurrence on this path)
            v = z3.Int('sizeof_' + ty)
            if ('sizeof', ty) not in ctx.notes:
                ctx.notes.append(('sizeof', ty)); ctx.add(z3.And(v >= 0, v <= 2 ** 16))
            return v
        m = re.match(r'^(?:\w+::)*CacheEntry<(.*)>$', ty)
        if m:
            inner = s.size_of(ctx, m.group(1))
            r = inner + 24
            if is_conc(r): return (r + 7) // 8 * 8
            return r
        m = re.match(r'^(?:std::option::)?Option<(.*)>$', ty)
        if m:
            inner = s.size_of(ctx, m.group(1))
            if m.group(1).strip() in ('std::string::String', 'String') or m.group(1).strip().startswith(('&', 'std::vec::Vec', 'Vec<', 'std::boxed::Box')): return inner
            if is_conc(inner): return inner * 2 if inner in (1, 2, 4, 8) else inner + 8
            return inner + 8
        m = re.match(r'^\((.*)\)$', ty)
        if m:
            parts = [s.size_of(ctx, t) for t in split_top(m.group(1))]
            tot = 0
            for x in parts: tot = tot + x
            if is_conc(tot): return (tot + 7) // 8 * 8 if any(p >= 8 for p in parts) else tot
            return tot
        m = re.match(r'^(?:std::result::)?Result<(.*)>$', ty)
        if m:
            a, b = [s.size_of(ctx, t) for t in split_top(m.group(1))]
            if is_conc(a) and is_conc(b): return max(a, b) + 8 if max(a, b) % 8 == 0 or max(a, b) < 8 and False else (max(a, b) + 8) // 8 * 8
            return z3.If(a >= b, a, b) + 8
        raise Unsupported('size_of::<' + ty + '>')
    def powf(s, ctx, x, w): return powf_term(ctx, x, w)

    # ---------- calls
    def call(s, ctx, func, args, caller, ln=None, frame=None):
        from . import builtins as B
        if re.match(r'^(move|copy) \(?\*?_\d+', func) and frame is not None:
            # call through a function pointer / closure held in a local
            from .mirparse import parse_operand
            c = s.operand(ctx, frame, caller, parse_operand(func), ln)
            r = yield from s.call_callable(ctx, c, list(args)); return r
        if '::Target' in func and 'Deref>' in func:
            # `<<P as Deref>::Target as Trait>::m` with P bound to Box<T> / Rc<T> / Arc<T> / &T at an enclosing call site: the projection is T
            from .builtins import subst_type as _st0
            def _proj(m_):
                inner_ = _st0(ctx, m_.group(1).strip()) if ctx.tysubst else m_.group(1).strip()
                mm_ = re.match(r'^(?:[\w]+::)*(?:Box|Rc|Arc)<(.*)>$', inner_) or re.match(r"^&(?:'\w+ )?(?:mut )?(.*)$", inner_)
                return mm_.group(1).strip() if mm_ else m_.group(0)
            func = re.sub(r'<([^<>]*(?:<[^<>]*>)?[^<>]*) as (?:[\w]+::)*Deref>::Target', _proj, func)
        g = strip_generics(func)
        tc = norm_trait_call(g)
        # 1. environment of the subjects (driver-supplied models)
        if '::' in g and g.split('::')[-2] == 'env' and not tc:
            h = s.env.get(g.split('::')[-1])
            if h is None: raise Unsupported('environment function without a model: ' + g)
            return h(ctx, args)
        if tc and tc[0] == 'Gate' and tc[2] == 'poll':
            h = s.env.get('Gate::poll')
            if h is None: raise Unsupported('Gate::poll without a model')
            return h(ctx, args)
        # type parameters bound at a monomorphic call site further up (e.g. GlobalCache::<u64>::insert -> R := u64)
        if tc and ctx.tysubst and re.match(r'^[A-Z][0-9]?$', tc[3].strip()):
            from .builtins import subst_type as _st
            conc = _st(ctx, tc[3].strip())
            if conc != tc[3].strip():
                func = '<' + conc + func[func.index(' as '):]
                g = strip_generics(func); tc = norm_trait_call(g)
        # 2. repository code with MIR for exactly this receiver type wins over builtin models
        f = None
        if tc:
            c = s.p.methods.get((tc[0], tc[2]), [])
            if len(c) >= 1 and tc[0] not in B.STD_TYPES: f = s.p.resolve(func)
        elif not g.startswith(B.EXTERNAL_PREFIXES):
            f = s.p.resolve(func)
        if f is None:
            b = yield from B.builtin(s, ctx, func, g, tc, args, caller, ln)
            if b is not NotImplemented: return b
            f = s.p.resolve(func)
        if f is None: raise Unsupported('call to unmodelled function ' + func[:200])
        pushed = False
        if f.args:
            # bind the callee's type parameters to the concrete types named at this call site
            # (inherent method `T::<u64>::m`, trait method `<Result<u64, u8> as Tr>::m`, blanket impl / default method on `Self`)
            site_ty = None
            if tc: site_ty = tc[3].strip()
            else:
                mm = re.search(r'((?:\w+::)*[A-Z]\w*::<.*?>)::\w+$', func)
                if mm: site_ty = mm.group(1).replace('::<', '<')
            if site_ty is not None:
                from .builtins import subst_type
                site_ty = subst_type(ctx, site_ty)
                b = bind_params(f.locals[f.args[0]].ty, site_ty)
                if b:
                    ctx.tysubst.append(b); pushed = True
            elif not tc:
                # free generic function called with one explicit type argument (`helper::<T1>(..)`): the callee's only type
                # parameter is that type (possibly a type parameter of the caller, resolved through the enclosing bindings)
                mm = re.search(r'::\w+::<([^<>]*(?:<[^<>]*>[^<>]*)*)>$', func)
                if mm and not f.name.endswith('>'):
                    from .builtins import subst_type
                    site = [t for t in split_top(mm.group(1)) if not t.strip().startswith("'")]
                    ps = []
                    for a_ in f.args:
                        for t_ in re.findall(r'(?<![\w:])([A-Z][0-9]?)(?![\w:<])', f.locals[a_].ty):
                            if t_ not in ps: ps.append(t_)
                    if len(site) == 1 and len(ps) == 1:
                        conc = subst_type(ctx, site[0].strip())
                        if conc != ps[0] or ctx.tysubst:
                            ctx.tysubst.append({ps[0]: conc}); pushed = True
        try:
            r = yield from s.call_fn(ctx, f, args)
        finally:
            if pushed: ctx.tysubst.pop()
        return r
    def call_closure(s, ctx, clo, args):
        f = s.p.fns.get(clo.fname)
        if f is None: raise Unsupported('closure fn ' + clo.fname)
        selfty = f.locals[f.args[0]].ty
        selfv = Ref(Cell(clo, 'clo')) if selfty.startswith('&') else clo
        r = yield from s.call_fn(ctx, f, [selfv] + list(args))
        return r
    def call_callable(s, ctx, c, args):
        c = deref_all(c)
        if isinstance(c, Closure):
            r = yield from s.call_closure(ctx, c, args); return r
        if isinstance(c, FnItem):
            r = yield from s.call(ctx, c.name, list(args), None); return r
        if isinstance(c, EnvFn):
            return c.fn(ctx, args)
        raise Unsupported(f'callable {c!r}')

    def acquire(s, ctx, lk, mode, mult=1):
        """scheduling point + blocking acquire.  The event records what a native run would do: kind 0 = Mutex::lock,
        1 = RwLock::read, 2 = RwLock::write, and how many native acquisitions it stands for (DashMap: 'all' shards)"""
        yield ('acquire', lk, mode)
        if (mode == 'w' and lk.state != 0) or (mode == 'r' and lk.state < 0):
            raise Deadlock(('self', ctx.tid, lk.name, mode))
        lk.state = -1 if mode == 'w' else lk.state + 1
        lk.owners.append(ctx.tid)
        kind = 0 if lk.kind == 'Mutex' else (1 if mode == 'r' else 2)
        ctx.events.append(('lock', ctx.tid, lk.name, mode, kind, mult))
        return GuardM(lk, mode, ctx.tid)
    def sched_point(s, ctx, what):
        yield ('yield', None, what)

    def force_static(s, ctx, ref):
        """value of a static; its initialiser MIR runs on first use"""
        cell = ref.cell
        if isinstance(cell.v, tuple) and len(cell.v) == 2 and cell.v[0] == 'uninit-static':
            tag, name = cell.v[1]
            sf = s.p.statics.get(name)
            if sf is None:
                # allocation tables name statics inside impl blocks by type ("T::f::S"), items by impl span ("<impl at ..>::f::S")
                parts_ = name.split('::')
                for k_ in range(1, len(parts_)):
                    suf = '::'.join(parts_[k_:])
                    c = [f_ for n_, f_ in s.p.statics.items() if n_.endswith('::' + suf) and f_.tag == tag]
                    if len(c) == 1: sf = c[0]; break
                    if len(c) > 1: break
            if sf is None: raise Unsupported('static ' + name)
            cell.v = ('initialising', name)
            v = yield from s.call_fn(ctx, sf, [])
            s.name_locks(v, name)
            cell.v = v
        return load(ref)
    def name_locks(s, v, name):
        short = name.split('::')[-1]
        if isinstance(v, (LazyM, OnceM)): v.name = short
        if isinstance(v, LockM): v.name = short; v.inner.name = short


def powf_term(ctx, x, w):
    """x.powf(w): exact (rational approximation of the float result) on concrete arguments, otherwise an uninterpreted
    function constrained by the facts the scores rely on (sign, fixpoints, strict monotonicity in x for w > 0)"""
    xs, ws = simp(x), simp(w)
    if is_z3(xs) and z3.is_rational_value(xs) and is_z3(ws) and z3.is_rational_value(ws):
        xf = float(xs.numerator_as_long()) / float(xs.denominator_as_long()); wf = float(ws.numerator_as_long()) / float(ws.denominator_as_long())
        if xf >= 0:
            from fractions import Fraction
            fr = Fraction(xf ** wf).limit_denominator(10 ** 12)
            return z3.RealVal(fr.numerator) / z3.RealVal(fr.denominator)
    PW = z3.Function('powf', z3.RealSort(), z3.RealSort(), z3.RealSort())
    r = PW(x, w)
    key = ('powf', x.get_id() if is_z3(x) else x, w.get_id() if is_z3(w) else w)
    if any(n[0] == 'powf' and n[4] == key for n in ctx.notes): return r
    apps = [n for n in ctx.notes if n[0] == 'powf']
    ctx.add(z3.Implies(x > 0, r > 0)); ctx.add(z3.Implies(x == 0, r == 0)); ctx.add(z3.Implies(x == 1, r == 1)); ctx.add(z3.Implies(w == 1, r == x))
    ctx.add(z3.Implies(z3.And(x >= 1, w < 1), r <= x)); ctx.add(z3.Implies(z3.And(x >= 1, w > 1), r >= x))
    ctx.add(z3.Implies(z3.And(x >= 0, x <= 2 ** 21, w > 0, w <= 4), r <= 2 ** 84))      # (2^21)^4
    for _, x2, w2, r2, _k in apps:
        ctx.add(z3.Implies(z3.And(w == w2, w > 0, x < x2, x >= 0), r < r2)); ctx.add(z3.Implies(z3.And(w == w2, w > 0, x2 < x, x2 >= 0), r2 < r))
    ctx.notes.append(('powf', x, w, r, key))
    return r


def _unescape(t):
    try:
        return bytes(t, 'utf-8').decode('unicode_escape').encode('latin-1').decode('utf-8') if '\\' in t else t
    except Exception:
        return t


# ------------------------------------------------------------------ scheduler / exploration
def grantable(t, threads=()):
    if t.pending is None: return True
    kind, lk, mode = t.pending
    if kind != 'acquire': return True
    if mode == 'w': return lk.state == 0
    if lk.state < 0: return False
    # writer preference (parking_lot and std RwLock): while readers are inside and a writer has arrived at the lock, further
    # readers queue behind that writer.  (The interleaving in which the reader gets in first is the one in which the
    # writer thread has not been advanced to its acquisition yet.)
    if lk.state > 0 and lk.kind != 'Mutex':
        for o in threads:
            if o is not t and not o.done and o.pending is not None and o.pending[0] == 'acquire' and o.pending[1] is lk and o.pending[2] == 'w': return False
    return True


def run_threads(ctx, progs, preempt_bound=2):
    """progs: list of generator factories fn(ctx)->generator.  Explores context switches at scheduling points.
    Returns list of results.  Raises Deadlock when every unfinished thread is blocked."""
    threads = [Thread(i, mk) for i, mk in enumerate(progs)]
    cur = None; preempts = 0
    while True:
        alive = [t for t in threads if not t.done]
        if not alive: return [t.result for t in threads]
        enabled = [t for t in alive if grantable(t, threads)]
        if not enabled:
            # the blocked requests, writers first (the order in which a native run has to issue them to end up in this configuration)
            ctx.blocked = sorted([(t.tid, t.pending[1].name, t.pending[2], 0 if t.pending[1].kind == 'Mutex' else (1 if t.pending[2] == 'r' else 2)) for t in alive], key=lambda b: (b[2] != 'w', b[0]))
            raise Deadlock([(t.tid, t.pending[1].name, t.pending[2], list(t.pending[1].owners)) for t in alive])
        if cur is not None and not cur.done and cur in enabled and preempts >= preempt_bound:
            nxt = cur
        else:
            order = ([cur] if cur in enabled else []) + [t for t in enabled if t is not cur]
            nxt = order[ctx.choose_free(len(order))]
            if cur is not None and not cur.done and cur in enabled and nxt is not cur: preempts += 1
        cur = nxt; ctx.tid = cur.tid; ctx.sched_trace.append(cur.tid)
        try:
            if cur.gen is None:
                cur.gen = cur.mk(ctx); ev = next(cur.gen)
            else:
                ev = cur.gen.send(None)
            cur.pending = ev
        except StopIteration as e:
            cur.done = True; cur.result = e.value; cur.pending = None


def run_single(ctx, gen, tid=0):
    """drive one generator to completion on thread `tid`; a blocked acquisition is a self-deadlock"""
    old = ctx.tid; ctx.tid = tid
    try:
        ev = next(gen)
        while True:
            kind, lk, mode = ev
            if kind == 'acquire' and ((mode == 'w' and lk.state != 0) or (mode == 'r' and lk.state < 0)):
                raise Deadlock(('self', tid, lk.name, mode))
            ev = gen.send(None)
    except StopIteration as e:
        return e.value
    finally:
        ctx.tid = old


class Outcome:
    __slots__ = ('status', 'res', 'ctx')
    def __init__(s, status, res, ctx): s.status = status; s.res = res; s.ctx = ctx


def explore(run, max_paths=20000, seed=0, timeout_ms=20000, deadline=None):
    """run(ctx) -> result.  DFS over choice logs by re-execution.  Returns (outcomes, stats)."""
    work = [[]]; out = []; st = dict(paths=0, infeasible=0, checks=0, solver_s=0.0, blocks=0)
    while work:
        if deadline is not None and time.time() > deadline: raise Unsupported('time budget exhausted during path exploration')
        forced = work.pop()
        ctx = Ctx(forced, seed=seed, timeout_ms=timeout_ms)
        try: res = run(ctx); status = 'ok'
        except Infeasible: status = 'infeasible'; res = None
        except Panic as p: status = 'panic'; res = p
        except Deadlock as d: status = 'deadlock'; res = d
        work.extend(ctx.new_alts)
        st['checks'] += ctx.nchecks; st['solver_s'] += ctx.tsolve; st['blocks'] += ctx.blocks
        if status == 'infeasible': st['infeasible'] += 1
        else:
            out.append(Outcome(status, res, ctx)); st['paths'] += 1
        if len(out) > max_paths: raise Unsupported('path budget exhausted')
    return out, st
