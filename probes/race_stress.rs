use cachelito::cache;
use std::sync::atomic::{AtomicBool, AtomicU64, Ordering::SeqCst};
use std::sync::Arc;
use std::time::{Duration, Instant};

#[cache(limit = 2, policy = "lru", name = "r_lru", tags = ["tg"])]
fn r_lru(a: u32) -> u32 { a }

fn main() {
    let mode = std::env::args().nth(1).unwrap_or_default();
    r_lru(0);
    let progress = Arc::new(AtomicU64::new(0));
    let stop = Arc::new(AtomicBool::new(false));
    let t0 = Instant::now();
    if mode == "deadlock" {
        let p1 = progress.clone(); let s1 = stop.clone();
        let _a = std::thread::spawn(move || { let mut i = 0u32; while !s1.load(SeqCst) { r_lru(i % 7); i += 1; p1.fetch_add(1, SeqCst); } });
        let p2 = progress.clone(); let s2 = stop.clone();
        let _b = std::thread::spawn(move || { while !s2.load(SeqCst) { cachelito::invalidate_with("r_lru", |k| k.len() > 5); p2.fetch_add(1, SeqCst); } });
        let mut last = 0; let mut stuck = 0;
        loop {
            std::thread::sleep(Duration::from_millis(100));
            let p = progress.load(SeqCst);
            if p == last { stuck += 1; } else { stuck = 0; }
            last = p;
            if stuck >= 10 { println!("DEADLOCK reproduced after {:?}, {} ops", t0.elapsed(), p); std::process::exit(3); }
            if t0.elapsed() > Duration::from_secs(20) { println!("no deadlock in 20s, {} ops", p); stop.store(true, SeqCst); std::process::exit(0); }
        }
    } else {
        // untracked entry: clear (by tag) racing inserts; afterwards check via never-matching predicate listing
        let mut found = None;
        'outer: for round in 0..200000u32 {
            let h = std::thread::spawn(move || { r_lru(round * 2 + 1); });
            cachelito::invalidate_by_tag("tg");
            h.join().unwrap();
            // quiescent: list keys in map through invalidate_with predicate (never matching)
            let keys = std::sync::Mutex::new(Vec::new());
            cachelito::invalidate_with("r_lru", |k| { keys.lock().unwrap().push(k.to_string()); false });
            let n0 = keys.lock().unwrap().len();
            // probe: insert 2 fresh keys; if an untracked key exists, map will exceed limit 2
            r_lru(1_000_000 + round * 2); r_lru(1_000_001 + round * 2);
            let keys2 = std::sync::Mutex::new(Vec::new());
            cachelito::invalidate_with("r_lru", |k| { keys2.lock().unwrap().push(k.to_string()); false });
            let n = keys2.lock().unwrap().len();
            if n > 2 { found = Some((round, n0, n)); break 'outer; }
            cachelito::invalidate_by_tag("tg");
            if t0.elapsed() > Duration::from_secs(60) { break; }
        }
        match found { Some((r, n0, n)) => println!("UNTRACKED entry reproduced at round {r}: {n0} keys at quiescence, {n} > limit 2 after probe, {:?}", t0.elapsed()), None => println!("not reproduced in {:?}", t0.elapsed()) }
    }
}
