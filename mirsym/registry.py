"""Which verification conditions decide which property, per tier (DESIGN.md sections 4 and 5)."""
from .models import POLICIES

FLAVOURS = ['G', 'T', 'A']
FW_SET = [None, 0.1, 0.3, 1.0, 1.5, 3.0]


def _n_range(policy, tier, op):
    if tier == 'quick':
        hi = 2 if (policy in ('TLRU',) and op != 'get') else 3
        if op == 'insert_with_memory' and policy in ('ARC', 'TLRU', 'LFU', 'Random'): hi = 2
    else:
        hi = 3 if (policy == 'TLRU' and op != 'get') else 4
        if op == 'insert_with_memory' and policy in ('ARC', 'LFU', 'Random'): hi = 3
        if op == 'insert_with_memory' and policy == 'TLRU': hi = 2
    return range(0, hi + 1)


def step_items(props, tier, flavours=FLAVOURS, policies=POLICIES, ops=('get', 'insert', 'insert_with_memory'), need=None):
    """the shape product of STEP VCs.  need: optional predicate on (flavour, policy, op, L, T, M, fw)"""
    out = []
    for fl in flavours:
        for pol in policies:
            for op in ops:
                if op == 'get': corners = [(1, 1, 0), (0, 0, 0), (0, 1, 1), (1, 0, 1)]
                elif op == 'insert': corners = [(1, 0, 0), (0, 0, 0), (1, 1, 0)]
                else: corners = [(1, 0, 1), (0, 0, 1), (1, 1, 1)]
                if tier == 'thorough':
                    corners = sorted(set(corners + [(l, t, m) for l in (0, 1) for t in (0, 1) for m in ((0, 1) if op != 'insert_with_memory' else (1,))]))
                    if op == 'insert': corners = [c for c in corners if c[2] == 0]
                fws = [None]
                if pol == 'TLRU': fws = [None, 1.5] if tier == 'quick' else FW_SET
                for (L, T, M) in corners:
                    for fw in fws:
                        if fw is not None and op == 'get': continue
                        if need and not need(fl, pol, op, L, T, M, fw): continue
                        for n in _n_range(pol, tier, op):
                            if L == 0 and M == 0 and n > 2 and tier == 'quick': continue
                            out.append(dict(kind='step', flavour=fl, policy=pol, limit=bool(L), ttl=bool(T), mem=bool(M), fw=fw, n=n, op=op, props=list(props)))
    return out


def items_for(prop, tier):
    p = prop
    if p == 'C01': return step_items(['C01'], tier)
    if p == 'C03': return step_items(['C03'], tier, ops=('get', 'insert'), need=lambda fl, pol, op, L, T, M, fw: not L and not T and not M)
    if p == 'C04': return step_items(['C04'], tier, need=lambda fl, pol, op, L, T, M, fw: L or op == 'get')
    if p == 'C05': return step_items(['C05'], tier, ops=('insert_with_memory',))
    if p == 'C06': return step_items(['C06'], tier, ops=('get', 'insert'), need=lambda fl, pol, op, L, T, M, fw: T or op == 'insert')
    if p == 'C07': return step_items(['C07'], tier, policies=['FIFO', 'LRU'])
    if p == 'C08': return step_items(['C08'], tier, policies=['LFU', 'ARC', 'TLRU'])
    if p == 'C15': return step_items(['C15'], tier, flavours=['G', 'A'], ops=('get',))
    if p == 'C16': return step_items(['C16'], tier)
    return []
