//! Corpus of functions decorated with `#[cache]` / `#[cache_async]` whose compiler MIR is
//! executed symbolically by /verif/mirsym (wrapper-level verification conditions) and which
//! the replay crate calls natively.  `gen.rs` is produced by `gen_subjects.py`.
#![allow(unused, clippy::all)]
pub mod env;
pub mod idioms;
use cachelito::cache;
use cachelito_async::cache_async;
include!("gen.rs");
