#!/bin/sh
# run_all_quick.sh [tier]: every check on the current /repo tree, one line per property
T=${1:-quick}
cd /verif
for i in 01 02 03 04 05 06 07 08 09 10 11 12 13 14 15 16 17 18 19 20; do ./check C$i --tier $T > /tmp/q_C$i.log 2>&1; echo "C$i rc=$? $(tail -1 /tmp/q_C$i.log | cut -c1-250)"; done
