"""C19, first clause ("every valid attribute list compiles") when the subjects corpus stops compiling on the current tree.

Without MIR nothing can be encoded, so this is the one place where the verdict is rustc's and not the solver's (DESIGN.md
section 4, C19): the failing attribute lists are isolated one by one.  For each candidate a scratch copy of the corpus is
built in which *every other* `#[cache..]` / `#[cache_async..]` attribute has been deleted (the functions stay, undecorated),
so a failure is attributable to that one attribute list; a control copy with all attributes deleted must compile.  Every
list of the corpus compiled at the pinned commit and follows the documented attribute grammar."""
import os, re, shutil, subprocess, json
from .front import VERIF, BUILD, _env, crate_dir

ATTR = re.compile(r'#\[cache(?:_async)?(?:\((?:[^\[\]]|\[[^\[\]]*\])*\))?\]\s*')
FN = re.compile(r'\bfn\s+([A-Za-z_][A-Za-z0-9_]*)')
LOC = re.compile(r'-->\s+(?:[^\s:]*/)?src/gen\.rs:(\d+):\d+')


def _candidates(stderr, lines):
    """attribute lines the compiler's error locations point at (the line itself, or the nearest attribute above it within the same blank-line-delimited block)"""
    out = []
    for m in LOC.finditer(stderr):
        ln = int(m.group(1)) - 1
        if not (0 <= ln < len(lines)): continue
        j = ln
        while j >= 0 and lines[j].strip():
            if ATTR.search(lines[j]):
                if j not in out: out.append(j)
                break
            j -= 1
    return out


def _name_at(lines, j):
    for k in range(j, min(j + 3, len(lines))):
        m = FN.search(ATTR.sub('', lines[k]))
        if m: return m.group(1)
    return 'line%d' % (j + 1)


def _build(tag, text):
    d = os.path.join(BUILD, 'c19c', tag)
    shutil.rmtree(d, ignore_errors=True); os.makedirs(os.path.join(d, 'src'))
    sub = crate_dir('subjects')
    for f in ('Cargo.toml', 'Cargo.lock'):
        if os.path.exists(os.path.join(sub, f)): shutil.copy(os.path.join(sub, f), os.path.join(d, f))
    for f in ('lib.rs', 'env.rs'): shutil.copy(os.path.join(sub, 'src', f), os.path.join(d, 'src', f))
    open(os.path.join(d, 'src', 'gen.rs'), 'w').write(text)
    p = subprocess.run(['cargo', 'check', '--offline', '--lib', '--target-dir', os.path.join(BUILD, 'tgt-c19c')], cwd=d, env=_env(), capture_output=True, text=True)
    return p.returncode, p.stderr, d


def diagnose(stderr, out_dir, limit=6):
    """returns (violations, note): violations = [(subject name, attribute text, log path)] confirmed by isolated builds"""
    gen = os.path.join(VERIF, 'subjects', 'src', 'gen.rs')
    lines = open(gen).read().split('\n')
    cands = _candidates(stderr, lines)
    if not cands: return [], 'the corpus of decorated functions does not compile and no error location points at an attribute list'
    stripped = [ATTR.sub('', l) for l in lines]
    rc, err, _ = _build('control', '\n'.join(stripped))
    if rc != 0: return [], 'the corpus does not compile even with every cache attribute deleted (not attributable to the macros): ' + err[-600:]
    os.makedirs(out_dir, exist_ok=True)
    viol = []
    for j in cands[:limit]:
        text = list(stripped); text[j] = lines[j]
        name = _name_at(lines, j)
        rc, err, d = _build('cand', '\n'.join(text))
        if rc != 0:
            attr = ATTR.search(lines[j]).group(0).strip()
            path = os.path.join(out_dir, 'compile_' + name + '.json')
            json.dump(dict(property='C19', clause='every valid attribute list compiles', subject=name, attribute=attr,
                           how='corpus with every other cache attribute deleted: `cargo check --offline` fails; with this one deleted too it compiles',
                           rustc=err[-3000:]), open(path, 'w'), indent=1)
            viol.append((name, attr, path))
    shutil.rmtree(os.path.join(BUILD, 'c19c'), ignore_errors=True)
    more = len(cands) - limit
    return viol, (f'{more} further attribute list(s) with errors were not isolated' if more > 0 else '')
