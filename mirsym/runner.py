"""Work-item execution, witness replay, known-findings handling, evidence."""
import os, sys, json, time, hashlib, re
from .models import Cfg
from .front import VERIF

# a development pipeline on another checkout (VERIF_BUILD set, see front.crate_dir) keeps its witnesses and evidence under its own build directory
OUT = os.path.join(os.environ['VERIF_BUILD'], 'out') if os.environ.get('VERIF_BUILD') else os.path.join(VERIF, 'out')
EVID = os.path.join(os.environ['VERIF_BUILD'], 'evidence') if os.environ.get('VERIF_BUILD') else os.path.join(VERIF, 'evidence')
KNOWN = os.path.join(VERIF, 'known_findings.json')
TIMEOUT_MS = {'quick': 20000, 'thorough': 120000}
# vacuity guard: path classes that a run of each property must reach (a harness that no longer reaches the code under
# test would otherwise pass everything); a missing class makes the run INCONCLUSIVE
REQUIRED = {
 'C01': ['^get/hit', '^get/absent', '^insert/overwrite', '^insert/new', '^wcall/hit', '^wcall/miss'],
 'C02': ['^key/2parts', '^key/3parts', '^wcall/miss'],
 'C03': ['^get/hit', '^wcall/hit/', '^wcall/miss/', '^quiescent/'],
 'C04': ['^insert/new/evict', '^insert/new$', '^insert/overwrite', '^get/expired'],
 'C05': ['^insert_mem/new/removed[12]', '^insert_mem/overwrite', '^est/Vec', '^est/String', '^wcall/miss'],
 'C06': ['^get/expired', '^get/hit', '^insert/overwrite'],
 'C07': ['^insert/new/evict', '^get/hit', '^insert_mem/new/removed1'],
 'C08': ['^insert/new/evict', '^get/hit', '^insert_mem/new/removed1'],
 'C09': ['^wcall/miss//1exec/0ins', '^wcall/miss//1exec/1ins', '^insert_result/err', '^insert/new'],
 'C10': ['pred/1exec/0ins', 'pred/1exec/1ins', '^wcall/hit'],
 'C11': ['^wcall/hit/stale[a-z]*/0exec', '^wcall/hit/stale[a-z]*/1exec', '^wcall/miss'],
 'C12': ['^group/tag/[1-9]', '^group/cache/1', '^group/dep/1', '^group/event/[1-9]', '^group/tag/0'],
 'C13': ['^with/1targets', '^with/0targets', '^all_with/', '^group/.*/0match'],
 'C14': ['^wcall/hit', '^wcall/miss', '^partition/shared/2', '^partition/isolated/2'],
 'C15': ['^get/hit', '^get/expired', '^get/absent', '^stats/registry', '^quiescent/'],
 'C16': ['^insert/new/evict', '^insert_mem/', '^get/expired', '^wcall/', '^with/'],
 'C17': ['^quiescent/'],
 'C18': ['^quiescent/'],
 'C19': ['^wcall/hit', '^wcall/miss'],
 'C20': ['^suspended/state[0-9]+/.*/resume', '^suspended/state[0-9]+/.*/drop', '^served-without-suspension'],
}


def run_item(P, item):
    kind = item['kind']
    if kind == 'step':
        from . import vc_core
        cfg = Cfg(item['flavour'], item['policy'], limit=item['limit'], ttl=item['ttl'], mem=item['mem'], fw=item['fw'])
        cfg.extreme = item.get('extreme')
        r = vc_core.run_step(P, cfg, item['n'], item['op'], props=set(item['props']), seed=item.get('seed', 0), timeout_ms=TIMEOUT_MS[item.get('tier', 'quick')], nmax=None, hits_max=item.get('hits_max', False), inv_for=item.get('inv_for'))
        fails = list(r.failed)
        if 'C16' in item['props']: fails += [p for p in r.panics if True]
        elif item.get('inv_for'):
            # a core operation that panics / blocks from an Inv pre-state leaves the invariant un-established for this property too
            for p_ in list(r.panics) + list(r.deadlocks):
                q_ = dict(p_); q_['orig_prop'] = q_.get('prop'); q_['orig_clause'] = q_.get('clause'); q_['prop'] = item['inv_for']; fails.append(q_)
        else:
            # a panicking / self-deadlocking path has no post-state: every property that needs one is undecided there;
            # it is reported by C16 / C17.  Record it so that the evidence shows it.
            pass
        if 'C17' in item['props'] or 'C16' in item['props']: fails += r.deadlocks
        return dict(paths=r.paths, claims=r.claims, failed=fails, other_panics=len(r.panics), other_deadlocks=len(r.deadlocks), classes=sorted(r.classes),
                    funcs=sorted(r.funcs), builtins=sorted(r.builtins), checks=r.stats['checks'], solver_s=r.stats['solver_s'], blocks=r.stats['blocks'],
                    infeasible=r.stats['infeasible'], spurious_real=getattr(r, 'spurious_real', 0), tag=f"STEP {cfg.tag()} n={item['n']} {item['op']}{' hits=u64::MAX' if item.get('hits_max') else ''}{(' extreme ' + item['extreme']) if item.get('extreme') else ''}")
    mod = __import__('mirsym.vc_' + kind, fromlist=['run'])
    return mod.run(P, item)


# ------------------------------------------------------------------ known findings
def load_known():
    if not os.path.exists(KNOWN): return dict(known=[], fixed=[])
    return json.load(open(KNOWN))


def role_of(f):
    """role key of a failed claim: what fails, independent of the concrete numbers"""
    cfgtag = f.get('cfg', '')
    parts = cfgtag.split('/')
    fl = parts[0] if parts else '?'
    pol = parts[1] if len(parts) > 1 else '?'
    return dict(property=f['prop'], flavour=fl, policy=pol, op=f.get('op'), clause=f['clause'], shape=cfgtag, kind=f.get('kind', 'step'))


def matches(entry, role):
    for k, v in entry.get('match', {}).items():
        rv = role.get(k)
        if isinstance(v, list):
            if rv not in v: return False
        elif isinstance(v, str) and v.startswith('re:'):
            if not re.search(v[3:], str(rv)): return False
        elif rv != v: return False
    return entry.get('property') == role['property']


# ------------------------------------------------------------------ conclusion
def conclude(prop, tier, seed, results, t0, P):
    from . import replay
    known = load_known()
    inconc = [r for r in results if 'inconclusive' in r]
    good = [r for r in results if 'inconclusive' not in r]
    groups = {}
    for r in good:
        for f in r['failed']:
            role = role_of(f)
            key = (role['property'], role['flavour'], role['op'], role['clause'], role['policy'], role['kind'])
            groups.setdefault(key, []).append((role, f))
    import shutil
    shutil.rmtree(os.path.join(OUT, prop), ignore_errors=True)
    os.makedirs(os.path.join(OUT, prop), exist_ok=True)
    violations = []; known_hits = []; unconfirmed = []
    budget = 14 if tier == 'quick' else 40          # native replays per run (each may wait on a watchdog)
    skipped = []
    for key, lst in sorted(groups.items(), key=lambda kv: str(kv[0])):
        role = lst[0][0]
        ent = [e for e in known.get('known', []) if matches(e, role)]
        reproduced = None; tried = 0
        if budget <= 0 and violations:
            skipped.append(role); continue
        budget -= 1
        for role_, f in lst[:4]:
            w = f.get('witness')
            if w is None: continue
            tried += 1
            try:
                okk, detail, lines = replay.replay(f, w)
            except Exception as e:
                okk, detail, lines = False, 'replay failed: ' + type(e).__name__ + ': ' + str(e)[:300], []
            if okk:
                reproduced = (f, detail, lines); break
            last = (f, detail, lines)
        if reproduced:
            f, detail, lines = reproduced
            h = hashlib.sha256(json.dumps([key, f['witness']], sort_keys=True, default=str).encode()).hexdigest()[:12]
            path = os.path.join(OUT, prop, h + '.json')
            json.dump(dict(property=prop, role=role, clause=f['clause'], message=f.get('msg'), witness=f['witness'], native=lines, detail=detail, count=len(lst)), open(path, 'w'), indent=1, default=str)
            if ent:
                known_hits.append((role, ent[0], path))
            else:
                violations.append((role, path, f))
        else:
            unconfirmed.append((role, lst[0][1], last[1] if tried else 'no witness could be extracted'))
    for role, ent, path in known_hits:
        print(f"KNOWN-FINDING: property={prop} {ent.get('id', '')} {role['flavour']}/{role['policy']}/{role['op']}: {role['clause']} (replay={path})")
    for role, path, f in violations:
        print(f"VIOLATION property={prop} replay={path}")
        print(f"  {role['shape']} {role['op']}: {role['clause']}" + (f" -- {f.get('msg')}" if f.get('msg') else ''))
    if skipped:
        print(f"NOTE property={prop}: {len(skipped)} further failing claim group(s) were not replayed (replay budget of this run used up), e.g. {skipped[0]['shape']} {skipped[0]['op']}: {skipped[0]['clause']}")
    for role, f, why in unconfirmed:
        print(f"UNCONFIRMED property={prop} {role['shape']} {role['op']}: {role['clause']} -- solver witness did not reproduce natively ({why})")
    for r in inconc[:10]:
        print(f"INCONCLUSIVE property={prop} item={_short(r['item'])}: {r['inconclusive'][:600]}")
    # vacuity guard
    reached = set()
    for r in good: reached |= set(r.get('classes', []))
    for pat in REQUIRED.get(prop, []):
        if not any(re.search(pat, c) for c in reached):
            print(f"INCONCLUSIVE property={prop}: vacuity guard - no explored path belongs to class /{pat}/ (the harness no longer reaches that behaviour)")
            inconc = list(inconc) + [dict(item=dict(kind='vacuity'), inconclusive='path class never reached: ' + pat)]
    # encoder validation on this run: concrete histories, native vs mirsym (DESIGN.md section 6.1)
    global _VALIDATED
    try:
        from . import validate
        okc, mism = validate.run(P, 12 if tier == 'quick' else 48, seed)
        _VALIDATED = okc
        if mism:
            print(f"INCONCLUSIVE property={prop}: the encoder disagrees with the native implementation on {len(mism)} concrete trace(s), e.g. {mism[0][0]}")
            inconc = list(inconc) + [dict(item=dict(kind='validate'), inconclusive='encoder/native mismatch')]
    except Exception as e:
        print(f"INCONCLUSIVE property={prop}: encoder validation could not run: {type(e).__name__}: {str(e)[:300]}")
        inconc = list(inconc) + [dict(item=dict(kind='validate'), inconclusive='validation failed to run: ' + str(e)[:200])]
    write_evidence(prop, tier, seed, good, time.time() - t0, violations=len(violations), inconclusive=[_short(r['item']) + ': ' + r['inconclusive'][:200] for r in inconc],
                   known=[dict(role=k[0], id=k[1].get('id')) for k in known_hits], unconfirmed=len(unconfirmed), P=P, nitems=len(results))
    npaths = sum(r['paths'] for r in good); nclaims = sum(r['claims'] for r in good)
    print(f"[{prop}/{tier}] {len(results)} VCs, {npaths} symbolic paths, {nclaims} claims discharged by z3, {sum(r['checks'] for r in good)} solver queries, "
          f"{len(violations)} violation group(s), {len(known_hits)} known finding(s), {len(unconfirmed)} unconfirmed, {len(inconc)} inconclusive, {time.time() - t0:.1f}s")
    if violations: return 1
    if inconc or unconfirmed: return 2
    return 0


def _short(item):
    return ' '.join(f'{k}={v}' for k, v in item.items() if k not in ('props', 'seed', 'tier'))


def write_evidence(prop, tier, seed, good, wall, note=None, violations=0, inconclusive=(), known=(), unconfirmed=0, P=None, nitems=0):
    os.makedirs(EVID, exist_ok=True)
    funcs = set(); builtins = set(); classes = set()
    for r in good:
        funcs |= set(r.get('funcs', [])); builtins |= set(r.get('builtins', [])); classes |= set(r.get('classes', []))
    fh = {}
    if P is not None:
        for n in sorted(funcs):
            f = P.fns.get(n)
            if f is not None and f.tag in ('core',) or (f is not None and len(fh) < 400): fh[n[:160]] = P.fn_hash(f)
    samples = []
    for r in sorted(good, key=lambda r: -r['paths'])[:6]:
        samples.append(dict(vc=r.get('tag'), paths=r['paths'], claims=r['claims'], path_classes=r.get('classes'), solver_queries=r['checks'], solver_s=round(r['solver_s'], 3), wall_s=round(r['wall'], 3),
                            verdict='all claims unsat-negated (hold)' if not r['failed'] else f"{len(r['failed'])} claim(s) with a model"))
    npaths = sum(r['paths'] for r in good); nblocks = sum(r['blocks'] for r in good)
    ev = dict(property_id=prop, tier=tier, seed=seed, level='model_checking',
              coverage=dict(states=max(npaths, 0), transitions=max(nblocks, 0), traces_validated_against_impl=_validated_count(),
                            samples=samples or [dict(note=note or 'no VC ran')], obligations=sum(r['claims'] for r in good), discharged=sum(r['claims'] - len([f for f in r['failed'] if f.get('clause') not in ('no panic', 'no self-deadlock')]) for r in good),
                            vcs=nitems, vcs_completed=len(good), solver_queries=sum(r['checks'] for r in good), solver_time_s=round(sum(r['solver_s'] for r in good), 2),
                            infeasible_paths_pruned=sum(r.get('infeasible', 0) for r in good), path_classes_reached=sorted(classes),
                            functions_encoded=fh, builtin_models_used=sorted(builtins)[:200], tree_hash=getattr(P, 'tree_hash', None),
                            bounds=_bounds(tier), exhaustive=False, known_findings=list(known), unconfirmed_witnesses=unconfirmed, inconclusive=list(inconclusive)[:20]),
              assumptions=ASSUMPTIONS, wall_s=round(wall, 2), violations=violations)
    if ev['coverage']['states'] < 1: ev['coverage']['states'] = 0
    json.dump(ev, open(os.path.join(EVID, prop + '.json'), 'w'), indent=1, default=str)


_VALIDATED = 0


def _validated_count():
    return _VALIDATED


def _bounds(tier):
    return dict(pre_state_entries='0..3 (TLRU inserts, memory inserts of LFU/ARC/Random/TLRU: 0..2)' if tier == 'quick' else '0..4 (TLRU inserts 0..3, memory inserts 0..3, TLRU memory inserts 0..2)',
                limit='symbolic, 1..max(n,1) with n <= limit', ttl='symbolic 1..2^32 s', max_memory='symbolic 0..2^40', value_sizes='uninterpreted, 0..2^40',
                hits='0..2^20', solver_timeout_ms=TIMEOUT_MS[tier],
                outside='pre-states with more entries; limit = 0; sizes >= 2^40; hit counters > 2^20; non-monotone clocks; f64 rounding (scores are decided in exact real arithmetic); HashMap iteration orders other than one arbitrary order per state')


ASSUMPTIONS = [
    'rustc MIR dump (-Zunpretty=mir, nightly) of the current tree is the semantics of the source',
    'builtin models of std/parking_lot/once_cell/dashmap/fastrand (mirsym/builtins.py): HashMap/HashSet/DashMap as association lists with pairwise-distinct keys, VecDeque/Vec as lists, locks as state machines, DashMap as ONE shard lock (worst case), Instant/SystemTime as monotone symbolic clocks, fastrand as a symbolic value in range',
    'f64 arithmetic modelled as exact real arithmetic; powf as an uninterpreted increasing function shared with the oracle',
    'value type R abstract: Clone is the identity, MemoryEstimator::estimate_memory is an uninterpreted size(v) in 0..2^40',
    'pre-states satisfy the representation invariant Inv (DESIGN.md section 3), which every step VC re-establishes',
    'z3 (z3-solver 5.x Python API) as the deciding solver',
]


def replay_file(path):
    from . import replay
    d = json.load(open(path))
    f = dict(prop=d['property'], clause=d['clause'], kind=d['role'].get('kind', 'step'))
    okk, detail, lines = replay.replay(f, d['witness'])
    print(('REPRODUCED ' if okk else 'NOT reproduced ') + detail)
    for l in lines: print('  ' + l)
    return 1 if okk else 0
