#!/bin/sh
# chk_mutant.sh <patch.diff> <checks...>: apply a change to /repo, run the given checks (quick), print their verdict lines, undo the change
P=$1; shift
cd /repo && git apply $P || exit 2
cd /verif
for c in "$@"; do ./check "$c" --tier quick > /tmp/try_$c.log 2>&1; rc=$?; grep -E "^VIOLATION|^UNCONFIRMED|^INCONCLUSIVE|^NOTE|^  " /tmp/try_$c.log | cut -c1-400 | head -8; tail -1 /tmp/try_$c.log | cut -c1-200; echo "-- exit $rc ($c)"; done
git -C /repo checkout -- .
git -C /repo status --short | head -3
