import sys, time, z3
from mirsym2 import *
P = Program(); P.load('/tmp/mirprobe/core_full.mir', '/tmp/mirprobe/core_fv.mir', 'core'); P.load('/tmp/subj/subj_f.mir', '/tmp/subj/subj_fv.mir', 'subj')
I = Interp(P)
def run(ctx):
    I.reset()
    a, b, c = z3.BitVec('a', 32), z3.BitVec('b', 32), z3.BitVec('c', 32)
    ctx.add(z3.Distinct(a, b, c))
    ex = lambda: len([e for e in ctx.events if e[0] == 'exec'])
    log = []
    for tid, (x, y) in [(0, (a, a)), (0, (a, a)), (1, (a, a)), (0, (b, b)), (1, (a, a))]:
        ctx.tid = tid; n0 = ex()
        g = I.call_fn(ctx, P.fns['t_lfu2'], [x, y])
        try:
            next(g)
            while True: g.send(None)
        except StopIteration: pass
        log.append((tid, ex() - n0))
    return log
out, nchecks, _ = explore(run)
for st, r, ctx in out: print(st, r)
