"""Further builtin models of std: the idioms a refactoring of the library is likely to use (Option / Result combinators, arithmetic
through references, iterator adaptors and consumers, slice / Vec / VecDeque / HashMap conveniences, ranges, integer helpers).
Each model is validated against the native behaviour by the conformance corpus `subjects/src/idioms.rs` (tools/idioms_check.py).
`ext()` is consulted by builtins._builtin before its own table; it answers NotImplemented for everything it does not know."""
import re
import z3
from .engine import (Agg, Cell, Ref, SlotCell, Str, MapM, SeqM, IterM, Closure, FnItem, EnvFn, Unsupported, Panic, INT_RANGE, unit, some, none, ok, err, tup,
                     load, store, deref, deref_all, clone_val, is_conc, is_z3, simp, term_eq, b_not, outer_ty, strip_generics)

ARITH = {'Add': 'add', 'Sub': 'sub', 'Mul': 'mul', 'Div': 'div', 'Rem': 'rem', 'BitAnd': 'bitand', 'BitOr': 'bitor', 'BitXor': 'bitxor', 'Shl': 'shl', 'Shr': 'shr'}


def _ity(t):
    t = re.sub(r"^(&('\w+ )?(mut )?)+", '', t.strip())
    return t if t in INT_RANGE else None


def _arith(s, ctx, op, a, b, ity):
    a = deref_all(a); b = deref_all(b)
    lo, hi = INT_RANGE[ity]
    if op in ('Div', 'Rem'):
        if not ctx.branch(b != 0): raise Panic('attempt to divide by zero' if op == 'Div' else 'attempt to calculate the remainder with a divisor of zero', 'arith')
        return s.binop(ctx, op, a, b, ity)
    if op in ('Add', 'Sub', 'Mul'):
        r = a + b if op == 'Add' else (a - b if op == 'Sub' else a * b)
        if is_conc(r):
            if not (lo <= r <= hi): raise Panic({'Add': 'attempt to add with overflow', 'Sub': 'attempt to subtract with overflow', 'Mul': 'attempt to multiply with overflow'}[op], 'arith')
            return r
        over = z3.Or(r > hi, r < lo)
        if ctx.feasible(over) and ctx.branch(over): raise Panic({'Add': 'attempt to add with overflow', 'Sub': 'attempt to subtract with overflow', 'Mul': 'attempt to multiply with overflow'}[op], 'arith')
        return r
    return s.binop(ctx, op, a, b, ity)


def _cmp(ctx, a, b):
    """Ordering of two integers (Less = -1, Equal = 0, Greater = 1), forking when symbolic"""
    a = deref_all(a); b = deref_all(b)
    if isinstance(a, Agg) and isinstance(b, Agg):
        if a.ty == 'Reverse': return -_cmp(ctx, a.fields[0], b.fields[0])
        if a.ty == 'Option' or a.ty == 'Result' or a.variant != b.variant:
            if a.variant != b.variant: return -1 if a.variant < b.variant else 1
        for x, y in zip(a.fields, b.fields):
            c = _cmp(ctx, x, y)
            if c != 0: return c
        return 0
    if isinstance(a, Str) and isinstance(b, Str):
        ra, rb = render_concrete(a), render_concrete(b)
        if ra is None or rb is None: raise Unsupported('ordering of symbolic strings')
        return -1 if ra < rb else (0 if ra == rb else 1)
    if isinstance(a, bool): a = int(a)
    if isinstance(b, bool): b = int(b)
    if is_conc(a) and is_conc(b): return -1 if a < b else (0 if a == b else 1)
    return [-1, 0, 1][ctx.choose([a < b, a == b, a > b])]


def _wrap(v):
    if False: yield None
    return v


def _ordering(c): return Agg('Ordering', c, [])


def _sorted(s, ctx, items, cmpf):
    """stable insertion sort with a comparison callback returning -1/0/1 (generator)"""
    out = []
    for x in items:
        i = len(out)
        while i > 0:
            c = yield from cmpf(out[i - 1], x)
            if c <= 0: break
            i -= 1
        out.insert(i, x)
    return out


def render_concrete(st):
    """python text of an abstract string whose parts are all concrete, else None"""
    t = st.t
    if isinstance(t, str): return t
    if isinstance(t, tuple) and t[0] == 'join':
        ps = [render_concrete(p) for p in t[2]]
        return None if any(p is None for p in ps) else t[1].join(ps)
    if isinstance(t, tuple) and t[0] == 'fmt':
        from .vc_keys import decode_template
        kind, tmpl, val = t[1], t[2], deref_all(t[3])
        try: pieces = decode_template(tmpl[1] if isinstance(tmpl, tuple) else tmpl)
        except Exception: return None
        if isinstance(val, bool): r = 'true' if val else 'false'
        elif is_conc(val): r = str(int(val))
        elif is_z3(val):
            v = simp(val)
            if z3.is_int_value(v): r = str(v.as_long())
            else: return None
        elif isinstance(val, Str):
            r = render_concrete(val)
            if r is None: return None
            if kind == 'debug':
                if any(c in r for c in '"\\\n\t\r\0\''): return None
                r = '"' + r + '"'
        else: return None
        return ''.join(p[1] if p[0] == 'lit' else r for p in pieces)
    if isinstance(t, tuple) and t[0] == 'fmtn':
        from .vc_keys import decode_template
        try: pieces = decode_template(t[1][1] if isinstance(t[1], tuple) else t[1])
        except Exception: return None
        vals = []
        for kind, val, ty in t[2]:
            r = render_concrete(Str(('fmt', kind, '\\xc0\\x00', val, ty)))
            if r is None: return None
            vals.append(r)
        out = ''; i = 0
        for p_ in pieces:
            if p_[0] == 'lit': out += p_[1]
            else:
                if i >= len(vals): return None
                out += vals[i]; i += 1
        return out
    if isinstance(t, tuple) and t[0] == 'concat':
        ps = [render_concrete(p) for p in t[1]]
        return None if any(p is None for p in ps) else ''.join(ps)
    return None


def _range_items(v):
    """items of a Range / RangeInclusive aggregate with concrete bounds"""
    if not (isinstance(v, Agg) and v.ty in ('Range', 'RangeInclusive', 'RangeTo', 'RangeFrom')): return None
    if v.ty == 'Range': lo, hi = simp(v.fields[0]), simp(v.fields[1])
    elif v.ty == 'RangeInclusive': lo, hi = simp(v.fields[0]), simp(v.fields[1]) + 1
    else: return None
    if is_z3(lo) and z3.is_int_value(lo): lo = lo.as_long()
    if is_z3(hi):
        hi = simp(hi)
        if z3.is_int_value(hi): hi = hi.as_long()
    if not (is_conc(lo) and is_conc(hi)): raise Unsupported('iteration over a range with symbolic bounds')
    if hi - lo > 4096: raise Unsupported('iteration over a range of more than 4096 values')
    return list(range(lo, hi))


def ext(s, ctx, func, g, tc, A, caller, ln, last):
    if False: yield None
    from . import builtins as B
    E = g.endswith
    # ------------------------------------------------------------ arithmetic / comparison traits through references
    if tc and tc[1] in ARITH and tc[2] == ARITH[tc[1]] and _ity(tc[3] if len(tc) > 3 else tc[0]):
        return _arith(s, ctx, tc[1], A[0], A[1], _ity(tc[3]))
    if tc and tc[1].endswith('Assign') and tc[1][:-6] in ARITH and tc[2] == ARITH[tc[1][:-6]] + '_assign' and _ity(tc[3]):
        r = A[0]; store(r, _arith(s, ctx, tc[1][:-6], load(r), A[1], _ity(tc[3]))); return unit()
    if tc and tc[1] in ('PartialOrd', 'Ord') and tc[2] in ('cmp', 'partial_cmp') and (_ity(tc[3]) or tc[0] in ('Reverse', 'tuple', 'Option', 'String', 'str', 'bool')):
        c = _ordering(_cmp(ctx, A[0], A[1])); return c if tc[2] == 'cmp' else some(c)
    if tc and tc[1] in ('PartialOrd',) and tc[2] in ('lt', 'le', 'gt', 'ge') and (_ity(tc[3]) or tc[0] in ('Reverse', 'tuple', 'Option')):
        c = _cmp(ctx, A[0], A[1]); return {'lt': c < 0, 'le': c <= 0, 'gt': c > 0, 'ge': c >= 0}[tc[2]]
    if tc and tc[1] == 'Ord' and tc[2] in ('min', 'max') and tc[0] in ('Reverse', 'tuple', 'Option'):
        c = _cmp(ctx, A[0], A[1]); return (A[0] if c <= 0 else A[1]) if tc[2] == 'min' else (A[1] if c <= 0 else A[0])
    if tc and tc[1] == 'Ord' and tc[2] == 'clamp' and _ity(tc[3]):
        v, lo, hi = A
        if not ctx.branch(lo <= hi): raise Panic('assertion failed: min <= max', 'assert')
        if ctx.branch(v < lo): return lo
        return hi if ctx.branch(v > hi) else v
    if re.search(r'Ordering::(is_lt|is_le|is_gt|is_ge|is_eq|is_ne|reverse|then)$', g):
        c = deref_all(A[0]).variant
        if last == 'reverse': return _ordering(-c)
        if last == 'then': return A[0] if c != 0 else A[1]
        return {'is_lt': c < 0, 'is_le': c <= 0, 'is_gt': c > 0, 'is_ge': c >= 0, 'is_eq': c == 0, 'is_ne': c != 0}[last]
    m2 = re.search(r'<impl (i8|i16|i32|i64|isize)>::(abs|signum|unsigned_abs)$', g)
    if m2:
        a = A[0]; neg = ctx.branch(a < 0)
        if m2.group(2) == 'signum': return -1 if neg else (0 if ctx.branch(a == 0) else 1)
        if neg and m2.group(2) == 'abs' and not ctx.branch(a != INT_RANGE[m2.group(1)][0]): raise Panic('attempt to negate with overflow', 'arith')
        return -a if neg else a
    m2 = re.search(r'<impl (u8|u16|u32|u64|usize|i8|i16|i32|i64|isize)>::(div_euclid|rem_euclid|is_power_of_two|div_ceil)$', g)
    if m2 and m2.group(1)[0] == 'u':
        a = A[0]
        if m2.group(2) == 'is_power_of_two':
            if not is_conc(simp(a)): raise Unsupported('is_power_of_two of a symbolic value')
            a = simp(a); return a > 0 and (a & (a - 1)) == 0
        b = A[1]
        if not ctx.branch(b != 0): raise Panic('attempt to divide by zero', 'arith')
        if m2.group(2) == 'div_ceil': return s.binop(ctx, 'Div', a + b - 1, b, m2.group(1))
        return s.binop(ctx, 'Div' if m2.group(2) == 'div_euclid' else 'Rem', a, b, m2.group(1))
    if re.search(r'<impl bool>::(then|then_some)$', g):
        c = A[0]
        if not ctx.branch(c): return none()
        if last == 'then_some': return some(A[1])
        v = yield from s.call_callable(ctx, A[1], []); return some(v)
    if re.search(r'cmp::(min|max)$', g) and len(A) == 2 and not tc:
        c = _cmp(ctx, A[0], A[1]); return (A[0] if c <= 0 else A[1]) if last == 'min' else (A[1] if c <= 0 else A[0])
    m2 = re.search(r'<impl (u8|u16|u32|u64|usize|i8|i16|i32|i64|isize)>::(checked_div|checked_rem|checked_pow|saturating_pow|wrapping_mul|checked_neg|is_multiple_of)$', g)
    if m2 and m2.group(2) in ('checked_div', 'checked_rem'):
        if not ctx.branch(A[1] != 0): return none()
        return some(s.binop(ctx, 'Div' if m2.group(2) == 'checked_div' else 'Rem', A[0], A[1], m2.group(1)))
    if tc and tc[1] in ('TryFrom', 'TryInto') and tc[2] in ('try_from', 'try_into'):
        src = deref_all(A[0])
        mm = re.search(r'as std::convert::Try(?:From|Into)<([\w:]+)>', func)
        tgt = _ity(tc[3]) if tc[1] == 'TryFrom' else (_ity(mm.group(1)) if mm else None)
        if tgt and (is_conc(src) or is_z3(src)) and not isinstance(src, bool):
            lo, hi = INT_RANGE[tgt]
            return ok(src) if ctx.branch(z3.And(src >= lo, src <= hi) if is_z3(src) else (lo <= src <= hi)) else err(Agg('TryFromIntError', 0, []))
    if tc and tc[1] in ('From', 'Into') and tc[2] in ('from', 'into') and _ity(tc[3]) and (is_conc(deref_all(A[0])) or is_z3(deref_all(A[0]))):
        v = deref_all(A[0]); return int(v) if isinstance(v, bool) else v
    if tc and tc[0] in ('f64', 'f32') and tc[1] == 'PartialOrd' and tc[2] == 'partial_cmp' or re.search(r'<impl f(64|32)>::total_cmp$', g):
        from .engine import FSpec, to_real
        a, b = deref_all(A[0]), deref_all(A[1])
        if isinstance(a, FSpec) or isinstance(b, FSpec):
            if last == 'partial_cmp' and (getattr(a, 'kind', '') == 'nan' or getattr(b, 'kind', '') == 'nan'): return none()
            raise Unsupported('ordering of non-finite floats')
        c = [-1, 0, 1][ctx.choose([to_real(a) < to_real(b), to_real(a) == to_real(b), to_real(a) > to_real(b)])]
        return some(_ordering(c)) if last == 'partial_cmp' else _ordering(c)
    if re.search(r'<impl str>::(starts_with|ends_with|contains|find|trim|trim_start|trim_end|strip_prefix|strip_suffix|eq_ignore_ascii_case|to_owned|chars|bytes|split|is_char_boundary)$', g) or re.search(r'String::(starts_with|ends_with|contains)$', g):
        a = render_concrete(deref_all(A[0])) if isinstance(deref_all(A[0]), Str) else None
        pv = deref_all(A[1]) if len(A) > 1 else None
        if isinstance(pv, Str): pt = render_concrete(pv)
        elif is_conc(pv) and pv is not None and not isinstance(pv, bool): pt = chr(pv)
        elif is_z3(pv) and z3.is_int_value(simp(pv)): pt = chr(simp(pv).as_long())
        else: pt = None
        if a is None or (len(A) > 1 and pt is None): raise Unsupported(last + ' on a string that is not concrete')
        if last == 'starts_with': return a.startswith(pt)
        if last == 'ends_with': return a.endswith(pt)
        if last == 'contains': return pt in a
        if last == 'find': i = a.find(pt); return some(len(a[:i].encode('utf-8'))) if i >= 0 else none()
        if last in ('trim', 'trim_start', 'trim_end'): return Ref(Cell(Str({'trim': a.strip(), 'trim_start': a.lstrip(), 'trim_end': a.rstrip()}[last]), 'trimmed'))
        if last == 'strip_prefix': return some(Ref(Cell(Str(a[len(pt):]), 'rest'))) if a.startswith(pt) else none()
        if last == 'strip_suffix': return some(Ref(Cell(Str(a[:len(a) - len(pt)]), 'rest'))) if a.endswith(pt) else none()
        if last == 'eq_ignore_ascii_case': return a.lower() == pt.lower()
        if last == 'chars': return IterM([ord(c) for c in a])
        if last == 'bytes': return IterM(list(a.encode('utf-8')))
        if last == 'split': return IterM([Ref(Cell(Str(x), 'piece')) for x in a.split(pt)])
        if last == 'to_owned': return Str(a)
        raise Unsupported('string method ' + last)
    if not tc and re.search(r'(Option::(<.*>::)?Some|Result::(<.*>::)?(Ok|Err))$', func) and len(A) == 1:
        # a variant constructor used as a function (`.map(Some)`, `.map_err(Err)`)
        return some(A[0]) if last == 'Some' else (ok(A[0]) if last == 'Ok' else err(A[0]))
    if tc and tc[1] == 'Default' and tc[2] == 'default' and tc[0] in ('Mutex', 'RwLock', 'RefCell', 'Cell', 'Arc', 'Rc', 'Box'):
        from .mirparse import split_top
        from .engine import LockM, RefCellM
        inner_t = None
        mm = re.match(r'^[\w:]+<(.*)>$', tc[3].strip())
        if mm: inner_t = split_top(mm.group(1))[-1].strip()
        if inner_t:
            iv = yield from s.call(ctx, '<' + inner_t + ' as std::default::Default>::default', [], caller, ln)
            if tc[0] in ('Mutex', 'RwLock'): return LockM(iv, 'lock', tc[0])
            if tc[0] == 'RefCell': return RefCellM(iv, 'refcell')
            if tc[0] == 'Cell': return Agg('Cell', 0, [iv])
            return Agg(tc[0], 0, [Ref(Cell(iv, 'heap'))])
    if tc and tc[1] == 'Default' and tc[2] == 'default':
        t = tc[0]
        if _ity(tc[3]): return 0
        if t == 'bool': return False
        if t in ('f64', 'f32'): return z3.RealVal(0)
        if t == 'Option': return none()
        if t == 'String': return Str('')
        if t in ('Vec', 'VecDeque'): return SeqM(kind=t)
        if t in ('HashMap', 'HashSet'): return MapM(kind=t)
        if t == 'tuple' and tc[3].strip() == '()': return unit()
    m2 = re.search(r'<impl (u8|u16|u32|u64|usize)>::(count_ones|count_zeros|leading_zeros|trailing_zeros|next_power_of_two|ilog2|swap_bytes|reverse_bits|rotate_left|rotate_right)$', g)
    if m2:
        v = simp(A[0]) if is_z3(A[0]) else A[0]
        if is_z3(v) and z3.is_int_value(v): v = v.as_long()
        if not is_conc(v): raise Unsupported(m2.group(2) + ' of a symbolic value')
        bits = {'u8': 8, 'u16': 16, 'u32': 32}.get(m2.group(1), 64); k = m2.group(2)
        if k == 'count_ones': return bin(v).count('1')
        if k == 'count_zeros': return bits - bin(v).count('1')
        if k == 'leading_zeros': return bits - v.bit_length()
        if k == 'trailing_zeros': return bits if v == 0 else (v & -v).bit_length() - 1
        if k == 'ilog2':
            if v == 0: raise Panic('argument of integer logarithm must be positive', 'arith')
            return v.bit_length() - 1
        if k == 'next_power_of_two':
            r = 1 if v <= 1 else 1 << (v - 1).bit_length()
            if r >= 1 << bits: raise Panic('attempt to add with overflow (next_power_of_two)', 'arith')
            return r
        raise Unsupported(k)
    if re.search(r'Duration::(subsec_millis|subsec_micros|subsec_nanos|as_micros)$', g):
        t = deref_all(A[0]).t
        if last == 'as_micros': return B._div_const(ctx, t, 1000)
        sub = t - B._div_const(ctx, t, B.NS) * B.NS
        return sub if last == 'subsec_nanos' else B._div_const(ctx, sub, 1000000 if last == 'subsec_millis' else 1000)
    m2 = re.search(r'<impl char>::(is_ascii_digit|is_ascii_alphabetic|is_ascii_alphanumeric|is_alphabetic|is_numeric|is_whitespace|is_ascii_uppercase|is_ascii_lowercase|to_ascii_uppercase|to_ascii_lowercase|is_ascii|len_utf8)$', g)
    if m2:
        v = deref_all(A[0]); v = simp(v) if is_z3(v) else v
        if is_z3(v) and z3.is_int_value(v): v = v.as_long()
        if not is_conc(v): raise Unsupported('char method on a symbolic character')
        ch = chr(v); k = m2.group(1)
        return {'is_ascii_digit': ch.isdigit() and ch.isascii(), 'is_ascii_alphabetic': ch.isalpha() and ch.isascii(), 'is_ascii_alphanumeric': ch.isalnum() and ch.isascii(), 'is_alphabetic': ch.isalpha(),
                'is_numeric': ch.isnumeric(), 'is_whitespace': ch.isspace(), 'is_ascii_uppercase': ch.isupper() and ch.isascii(), 'is_ascii_lowercase': ch.islower() and ch.isascii(),
                'to_ascii_uppercase': ord(ch.upper()) if ch.isascii() else v, 'to_ascii_lowercase': ord(ch.lower()) if ch.isascii() else v, 'is_ascii': ch.isascii(), 'len_utf8': len(ch.encode('utf-8'))}[k]
    if re.search(r'<impl str>::(to_ascii_uppercase|to_ascii_lowercase|to_uppercase|to_lowercase|to_string|len|is_empty)$', g) and isinstance(deref_all(A[0]), Str) and not isinstance(deref_all(A[0]).t, str):
        a = render_concrete(deref_all(A[0]))
        if a is not None:
            if last in ('len',): return len(a.encode('utf-8'))
            if last == 'is_empty': return a == ''
            return Str(a.upper() if 'upper' in last else (a.lower() if 'lower' in last else a))
    if tc and tc[1] == 'ToString' and tc[2] == 'to_string':
        v = deref_all(A[0])
        if isinstance(v, Str): return v
        if isinstance(v, bool) or is_conc(v) or is_z3(v): return Str(('fmt', 'display', '\\xc0\\x00', v, tc[3]))
        raise Unsupported('to_string of ' + type(v).__name__)
    if tc and tc[0] == 'String' and tc[1] == 'Write' and tc[2] in ('write_fmt', 'write_str', 'write_char'):
        # `write!(s, ..)` into a String: the rendered text is appended
        if tc[2] == 'write_fmt': add = yield from s.call(ctx, 'alloc::fmt::format', [A[1]], caller, ln)
        elif tc[2] == 'write_str': add = deref_all(A[1])
        else:
            c_ = simp(A[1]) if is_z3(A[1]) else A[1]
            if not is_conc(c_): raise Unsupported('write_char of a symbolic character')
            add = Str(chr(c_))
        yield from s.call(ctx, 'alloc::string::String::push_str', [A[0], add], caller, ln)
        return ok(unit())
    if tc and tc[0] == 'String' and tc[1] == 'Add' and tc[2] == 'add':
        return Str(('concat', [deref_all(A[0]), deref_all(A[1])]))
    # ------------------------------------------------------------ comparison traits through an unresolved type parameter (`S: PartialOrd`): dispatch on the values
    if tc and tc[1] in ('PartialOrd', 'PartialEq', 'Ord') and tc[2] in ('lt', 'le', 'gt', 'ge', 'eq', 'ne') and re.match(r'^[A-Z][A-Za-z]?\d?$', tc[3].strip()):
        a, b = deref_all(A[0]), deref_all(A[1])
        from .engine import FSpec, is_real
        op = {'lt': 'Lt', 'le': 'Le', 'gt': 'Gt', 'ge': 'Ge', 'eq': 'Eq', 'ne': 'Ne'}[tc[2]]
        if isinstance(a, (Agg, Str, SeqM)) or isinstance(b, (Agg, Str, SeqM)):
            if op in ('Eq', 'Ne'):
                r_ = term_eq(a, b); return r_ if op == 'Eq' else b_not(r_)
            c = _cmp(ctx, a, b); return {'Lt': c < 0, 'Le': c <= 0, 'Gt': c > 0, 'Ge': c >= 0}[op]
        return s.binop(ctx, op, a, b, 'bool')
    # ------------------------------------------------------------ Deref through an unresolved type parameter: dispatch on the value
    if tc and tc[1] in ('Deref', 'DerefMut') and tc[2] in ('deref', 'deref_mut') and re.match(r'^[A-Z][A-Za-z]?\d?$', tc[3].strip()):
        v = deref_all(A[0])
        if isinstance(v, Agg) and v.ty in ('Box', 'Rc', 'Arc') and v.fields: return v.fields[0] if isinstance(v.fields[0], Ref) else Ref(SlotCell(v.fields, 0))
        if isinstance(v, (SeqM, Str)): return A[0]
        from .engine import GuardM, BorrowM
        if isinstance(v, GuardM): return Ref(v.lock.inner)
        if isinstance(v, BorrowM): return Ref(v.rc.inner)
    # ------------------------------------------------------------ calls through `dyn Trait` of a trait defined in the analysed crates
    if tc and tc[3].strip().startswith('dyn ') and A:
        recv = deref_all(A[0])
        if isinstance(recv, Agg) and recv.ty == 'Box' and recv.fields: recv = deref_all(recv.fields[0])
        tyn = recv.ty if isinstance(recv, Agg) else (strip_generics(recv.name).split('::')[-1] if isinstance(recv, FnItem) else None)          # a unit struct arrives as a bare path constant
        if tyn:
            c = [f for f in s.p.methods.get((tyn, tc[2]), [])]
            if len(c) == 1: r = yield from s.call_fn(ctx, c[0], list(A)); return r
            dflt = [f for n_, f in s.p.fns.items() if n_.endswith('::' + tc[1] + '::' + tc[2])]
            if len(dflt) == 1: r = yield from s.call_fn(ctx, dflt[0], list(A)); return r
    # ------------------------------------------------------------ Option
    if E('Option::map_or_else') or E('Result::map_or_else'):
        o = A[0]; good = 1 if 'Option' in g else 0
        if o.variant == good: r = yield from s.call_callable(ctx, A[2], [o.fields[0]]); return r
        r = yield from s.call_callable(ctx, A[1], [] if 'Option' in g else [o.fields[0]]); return r
    if E('Option::ok_or'): return ok(A[0].fields[0]) if A[0].variant == 1 else err(A[1])
    if E('Option::ok_or_else'):
        if A[0].variant == 1: return ok(A[0].fields[0])
        e = yield from s.call_callable(ctx, A[1], []); return err(e)
    if E('Option::zip'): return some(tup(A[0].fields[0], A[1].fields[0])) if A[0].variant == 1 and A[1].variant == 1 else none()
    if E('Option::unzip'):
        if A[0].variant == 0: return tup(none(), none())
        t = A[0].fields[0]; return tup(some(t.fields[0]), some(t.fields[1]))
    if E('Option::replace'):
        r = A[0]; o = load(r); store(r, some(A[1])); return o
    if E('Option::or'): return A[0] if A[0].variant == 1 else A[1]
    if E('Option::and'): return A[1] if A[0].variant == 1 else none()
    if E('Option::or_else'):
        if A[0].variant == 1: return A[0]
        r = yield from s.call_callable(ctx, A[1], []); return r
    if E('Option::xor'):
        a, b = A[0], A[1]
        return a if a.variant == 1 and b.variant == 0 else (b if b.variant == 1 and a.variant == 0 else none())
    if E('Option::flatten'): return A[0].fields[0] if A[0].variant == 1 else none()
    if E('Option::inspect') or E('Result::inspect'):
        o = A[0]; good = 1 if 'Option' in g else 0
        if o.variant == good: yield from s.call_callable(ctx, A[1], [Ref(Cell(o.fields[0], 'insp'))])
        return o
    if E('Option::is_none_or'):
        if A[0].variant == 0: return True
        r = yield from s.call_callable(ctx, A[1], [A[0].fields[0]]); return r
    if E('Option::take_if'):
        r = A[0]; o = load(r)
        if o.variant == 0: return none()
        c = yield from s.call_callable(ctx, A[1], [Ref(r.cell, r.path + (0,))])
        if ctx.branch(c): store(r, none()); return o
        return none()
    if E('Option::iter') or E('Option::iter_mut') or E('Result::iter'):
        r = A[0]; o = deref_all(r); good = 1 if 'Option' in g else 0
        return IterM([Ref(r.cell, r.path + (0,)) if isinstance(r, Ref) else o.fields[0]] if o.variant == good else [])
    if E('Option::unwrap_unchecked'): return A[0].fields[0]
    if E('Option::expect') and False: pass
    # ------------------------------------------------------------ Result
    if E('Result::unwrap_or_else'):
        if A[0].variant == 0: return A[0].fields[0]
        r = yield from s.call_callable(ctx, A[1], [A[0].fields[0]]); return r
    if E('Result::err'): return some(A[0].fields[0]) if A[0].variant == 1 else none()
    if E('Result::is_ok_and') or E('Result::is_err_and'):
        good = 0 if last == 'is_ok_and' else 1
        if A[0].variant != good: return False
        r = yield from s.call_callable(ctx, A[1], [A[0].fields[0]]); return r
    if E('Result::or'): return A[0] if A[0].variant == 0 else A[1]
    if E('Result::and'): return A[1] if A[0].variant == 0 else A[0]
    if E('Result::or_else'):
        if A[0].variant == 0: return A[0]
        r = yield from s.call_callable(ctx, A[1], [A[0].fields[0]]); return r
    if E('Result::unwrap_or_default'):
        if A[0].variant == 0: return A[0].fields[0]
        from .mirparse import split_top
        mm = re.search(r'Result::<(.*)>::unwrap_or_default$', func); t = outer_ty(split_top(mm.group(1))[0].strip()) if mm else '?'
        if t in INT_RANGE: return 0
        if t == 'String': return Str('')
        if t in ('Vec', 'VecDeque'): return SeqM(kind=t)
        raise Unsupported('unwrap_or_default of ' + t)
    if E('Result::unwrap_err') or E('Result::expect_err'):
        if A[0].variant != 1: raise Panic('called `Result::unwrap_err()` on an `Ok` value', 'unwrap')
        return A[0].fields[0]
    if E('Result::as_mut'):
        r = A[0]; o = deref_all(r); return Agg('Result', o.variant, [Ref(r.cell, r.path + (0,))])
    if E('Result::copied') or E('Result::cloned'):
        o = A[0]; return ok(clone_val(deref(o.fields[0]))) if o.variant == 0 else o
    # ------------------------------------------------------------ ranges
    if tc and tc[1] in ('IntoIterator', 'Iterator') and isinstance(deref_all(A[0]), Agg) and deref_all(A[0]).ty == 'RangeFrom' and tc[2] in ('zip', 'take'):
        st_ = simp(deref_all(A[0]).fields[0]); st_ = st_.as_long() if is_z3(st_) and z3.is_int_value(st_) else st_
        if not is_conc(st_): raise Unsupported('open range that starts at a symbolic value')
        if tc[2] == 'take':
            n_ = simp(A[1])
            if not is_conc(n_): raise Unsupported('take with a symbolic count')
            return IterM(list(range(st_, st_ + n_)))
        ov = deref_all(A[1])
        if isinstance(ov, IterM): other = yield from B._iter_items(s, ctx, ov)
        else:
            oi = yield from s.call(ctx, '<X as std::iter::IntoIterator>::into_iter', [A[1]], caller, ln); other = yield from B._iter_items(s, ctx, oi)
        return IterM([tup(st_ + i, x) for i, x in enumerate(other)])
    if tc and tc[1] in ('IntoIterator', 'Iterator', 'DoubleEndedIterator', 'ExactSizeIterator') and isinstance(deref_all(A[0]), Agg) and deref_all(A[0]).ty in ('Range', 'RangeInclusive'):
        items = _range_items(deref_all(A[0]))
        it = IterM(items)
        if tc[2] == 'into_iter': return it
        if isinstance(A[0], Ref): store(A[0], it)          # the range local becomes the iterator it is used as
        r = yield from s.call(ctx, func, [it if not isinstance(A[0], Ref) else A[0]] + list(A[1:]), caller, ln); return r
    if re.search(r'Range(Inclusive)?::<.*>::(contains|is_empty)$', func) or re.search(r'Range(Inclusive)?::(contains|is_empty)$', g):
        v = deref_all(A[0]); lo, hi = v.fields[0], v.fields[1]
        if last == 'is_empty': return simp(lo >= hi) if v.ty == 'Range' else simp(lo > hi)
        x = deref_all(A[1]); return simp(z3.And(lo <= x, x < hi)) if v.ty == 'Range' else simp(z3.And(lo <= x, x <= hi))
    if E('RangeInclusive::new'): return Agg('RangeInclusive', 0, [A[0], A[1]])
    # ------------------------------------------------------------ iterator sources
    if re.search(r'iter::(sources::\w+::)?(repeat|once|empty|repeat_n)$', g):
        if last == 'once': return IterM([A[0]])
        if last == 'empty': return IterM([])
        if last == 'repeat_n':
            n = simp(A[1]);
            if not is_conc(n): raise Unsupported('repeat_n with a symbolic count')
            return IterM([clone_val(A[0]) for _ in range(n)])
        it = IterM([]); it.repeat = A[0]; return it
    # ------------------------------------------------------------ iterator adaptors / consumers
    if re.search(r'Peekable::(peek|peek_mut|next_if)$', g) and isinstance(deref_all(A[0]), IterM):
        tc = ('Peekable', 'Iterator', last, 'Peekable')
    if tc and tc[1] in ('Iterator', 'DoubleEndedIterator', 'ExactSizeIterator') and isinstance(deref_all(A[0]), IterM):
        it = deref_all(A[0]); m = tc[2]
        if getattr(it, 'repeat', None) is not None and m != 'take': raise Unsupported('unbounded iter::repeat consumed by ' + m)
        if m == 'take' and getattr(it, 'repeat', None) is not None:
            n = simp(A[1])
            if not is_conc(n): raise Unsupported('take with a symbolic count')
            return IterM([clone_val(it.repeat) for _ in range(n)])
        if m == 'scan':
            base = yield from B._iter_items(s, ctx, it); st_ = Cell(A[1], 'scan state'); out = []
            for x in base:
                o = yield from s.call_callable(ctx, A[2], [Ref(st_), x])
                if o.variant == 0: break
                out.append(o.fields[0])
            return IterM(out)
        if m in ('take_while', 'skip_while', 'inspect', 'map_while'):
            it.adapters.append((m, A[1])); it.state = getattr(it, 'state', {}); return it
        if m in ('take', 'skip', 'step_by', 'zip', 'chain', 'rev', 'flat_map', 'flatten', 'peekable', 'fuse', 'cycle') and (it.adapters or getattr(it, 'genfn', None) is not None or m not in ('rev',)):
            if m == 'fuse': return it
            if m == 'peekable': it.peeked = None; return it
            if m == 'cycle': raise Unsupported('Iterator::cycle')
            base = yield from B._iter_items(s, ctx, it)
            if m in ('take', 'skip', 'step_by'):
                n = simp(A[1])
                if not is_conc(n): raise Unsupported(m + ' with a symbolic count')
                return IterM(base[:n] if m == 'take' else (base[n:] if m == 'skip' else base[::n]))
            if m == 'rev': return IterM(list(reversed(base)))
            if m in ('zip', 'chain'):
                o = A[1]
                if m == 'zip' and isinstance(deref_all(o), Agg) and deref_all(o).ty == 'RangeFrom':
                    st_ = simp(deref_all(o).fields[0]); st_ = st_.as_long() if is_z3(st_) and z3.is_int_value(st_) else st_
                    if not is_conc(st_): raise Unsupported('zip with an open range that starts at a symbolic value')
                    other = list(range(st_, st_ + len(base)))
                elif isinstance(deref_all(o), IterM): other = yield from B._iter_items(s, ctx, deref_all(o))
                else:
                    oi = yield from s.call(ctx, '<X as std::iter::IntoIterator>::into_iter', [o], caller, ln)
                    other = yield from B._iter_items(s, ctx, oi)
                return IterM([tup(x, y) for x, y in zip(base, other)] if m == 'zip' else base + other)
            # flat_map / flatten
            out = []
            for x in base:
                inner = x
                if m == 'flat_map': inner = yield from s.call_callable(ctx, A[1], [x])
                iv = deref_all(inner)
                if isinstance(iv, IterM): out += (yield from B._iter_items(s, ctx, iv))
                elif isinstance(iv, Agg) and iv.ty == 'Option': out += ([Ref(inner.cell, inner.path + (0,))] if isinstance(inner, Ref) else [iv.fields[0]]) if iv.variant == 1 else []
                elif isinstance(iv, Agg) and iv.ty == 'Result': out += ([iv.fields[0]] if iv.variant == 0 else [])
                elif isinstance(iv, SeqM): out += ([Ref(SlotCell(iv.items, i)) for i in range(len(iv.items))] if isinstance(inner, Ref) else list(iv.items))
                elif isinstance(iv, Agg) and iv.ty == 'array': out += list(iv.fields)
                else: raise Unsupported('flatten over ' + type(iv).__name__)
            return IterM(out)
        if m == 'peek' or m == 'peek_mut' or m == 'next_if':
            if getattr(it, 'peeked', None) is None:
                nx = yield from B._iter_next(s, ctx, it); it.peeked = nx
            if m == 'next_if':
                if it.peeked.variant == 0: return none()
                c = yield from s.call_callable(ctx, A[1], [Ref(Cell(it.peeked.fields[0], 'pk'))])
                if ctx.branch(c): nx = it.peeked; it.peeked = None; return nx
                return none()
            cell = Cell(it.peeked, 'peeked')
            return some(Ref(cell, (0,))) if it.peeked.variant == 1 else none()
        if getattr(it, 'peeked', None) is not None and m in ('next', 'sum', 'count', 'collect', 'fold', 'last', 'for_each', 'min', 'max', 'find', 'any', 'all', 'position', 'nth', 'find_map'):
            pk = it.peeked; it.peeked = None
            if m == 'next': return pk
            if pk.variant == 1:
                # put the peeked element back in front of the remaining ones (its adaptors have already run)
                rest = yield from B._iter_items(s, ctx, it)
                it2 = IterM([pk.fields[0]] + rest); store(A[0], it2) if isinstance(A[0], Ref) else None
                r = yield from s.call(ctx, func, [A[0] if isinstance(A[0], Ref) else it2] + list(A[1:]), caller, ln); return r
        if m == 'find_map':
            while True:
                nx = yield from B._iter_next(s, ctx, it)
                if nx.variant == 0: return none()
                r = yield from s.call_callable(ctx, A[1], [nx.fields[0]])
                if r.variant == 1: return r
        if m == 'nth':
            n = simp(A[1])
            if not is_conc(n): raise Unsupported('nth with a symbolic index')
            r = none()
            for _ in range(n + 1):
                r = yield from B._iter_next(s, ctx, it)
                if r.variant == 0: return r
            return r
        if m in ('min', 'max', 'min_by', 'max_by', 'product', 'rposition', 'unzip', 'partition', 'try_fold', 'try_for_each', 'reduce', 'is_sorted', 'eq', 'cmp', 'sum') and (m != 'sum'):
            items = yield from B._iter_items(s, ctx, it)
            if it.guard is not None: s.drop_val(ctx, it.guard); it.guard = None
            if m in ('min', 'max', 'min_by', 'max_by'):
                best = None
                for x in items:
                    if best is None: best = x; continue
                    if m in ('min', 'max'): c = _cmp(ctx, best, x)
                    else:
                        o = yield from s.call_callable(ctx, A[1], [Ref(Cell(best, 'a')), Ref(Cell(x, 'b'))]); c = o.variant
                    # std: min / min_by keep the first of equal minima, max / max_by the last of equal maxima
                    if (m.startswith('min') and c > 0) or (m.startswith('max') and c <= 0): best = x
                return some(best) if best is not None else none()
            if m in ('eq', 'cmp'):
                o = deref_all(A[1])
                other = (yield from B._iter_items(s, ctx, o)) if isinstance(o, IterM) else (list(o.items) if isinstance(o, SeqM) else list(o.fields))
                if m == 'eq':
                    if len(items) != len(other): return False
                    return simp(z3.And(*[z3.BoolVal(c) if isinstance(c, bool) else c for c in [term_eq(x, y) for x, y in zip(items, other)]])) if items else True
                for x, y in zip(items, other):
                    c = _cmp(ctx, x, y)
                    if c != 0: return _ordering(c)
                return _ordering(-1 if len(items) < len(other) else (0 if len(items) == len(other) else 1))
            if m == 'product':
                acc = 1
                for x in items: acc = _arith(s, ctx, 'Mul', acc, x, 'u64')
                return acc
            if m == 'rposition':
                for i in range(len(items) - 1, -1, -1):
                    r = yield from s.call_callable(ctx, A[1], [items[i]])
                    if ctx.branch(r): return some(i)
                return none()
            if m == 'unzip':
                return tup(SeqM([deref_all(x).fields[0] for x in items], 'Vec'), SeqM([deref_all(x).fields[1] for x in items], 'Vec'))
            if m == 'partition':
                a_, b_ = [], []
                for x in items:
                    r = yield from s.call_callable(ctx, A[1], [Ref(Cell(x, 'p'))])
                    (a_ if ctx.branch(r) else b_).append(x)
                return tup(SeqM(a_, 'Vec'), SeqM(b_, 'Vec'))
            if m == 'reduce':
                if not items: return none()
                acc = items[0]
                for x in items[1:]: acc = yield from s.call_callable(ctx, A[1], [acc, x])
                return some(acc)
            if m in ('try_fold', 'try_for_each'):
                acc = A[1] if m == 'try_fold' else unit(); f = A[2] if m == 'try_fold' else A[1]
                for x in items:
                    r = yield from s.call_callable(ctx, f, [acc, x] if m == 'try_fold' else [x])
                    if (r.ty == 'Option' and r.variant == 0) or (r.ty == 'Result' and r.variant == 1): return r
                    acc = r.fields[0]
                mm = re.search(r'(Option|Result)<', func.split('try_')[-1]); kind = mm.group(1) if mm else 'Option'
                return some(acc) if kind == 'Option' else ok(acc)
            raise Unsupported('iterator consumer ' + m)
        if m == 'collect':
            mm = re.search(r'collect::<(.*)>$', func); target = mm.group(1).strip() if mm else 'Vec'
            ot = outer_ty(target)
            if ot in ('Option', 'Result') or ot == 'String' or ot in ('HashMap', 'HashSet', 'BTreeMap', 'BTreeSet'):
                items = yield from B._iter_items(s, ctx, it)
                if it.guard is not None: s.drop_val(ctx, it.guard); it.guard = None
                if ot in ('Option', 'Result'):
                    out = []
                    for x in items:
                        x = deref_all(x)
                        if (ot == 'Option' and x.variant == 0) or (ot == 'Result' and x.variant == 1): return x if ot == 'Result' else none()
                        out.append(x.fields[0])
                    inner = outer_ty(re.sub(r'^\w+(::\w+)*<', '', target))
                    coll = SeqM(out, 'VecDeque' if inner == 'VecDeque' else 'Vec')
                    return some(coll) if ot == 'Option' else ok(coll)
                if ot == 'String':
                    return Str(('concat', [deref_all(x) if isinstance(deref_all(x), Str) else Str(('fmt', 'display', '\\xc0\\x00', deref_all(x), 'char')) for x in items]))
                if ot in ('HashMap', 'BTreeMap'):
                    mp = MapM([], 'HashMap')
                    for x in items:
                        x = deref_all(x); k, v = x.fields[0], x.fields[1]
                        i = B._find(ctx, mp, B._key(k))
                        if i == len(mp.items): mp.items.append([k, v])
                        else: mp.items[i][1] = v
                    return mp
                st = MapM([], 'HashSet')
                for x in items:
                    if B._find(ctx, st, B._key(x)) == len(st.items): st.items.append([x, unit()])
                return st
    if tc and tc[1] in ('Iterator', 'IntoIterator') and tc[2] in ('map', 'filter', 'enumerate', 'rev', 'sum', 'count', 'collect', 'for_each', 'fold', 'any', 'all', 'find', 'position', 'next', 'zip', 'chain', 'take', 'skip', 'min', 'max', 'last', 'step_by', 'filter_map', 'flat_map', 'find_map') and isinstance(deref_all(A[0]), Agg) and deref_all(A[0]).ty == 'array':
        arr = deref_all(A[0]); it = IterM(list(arr.fields))
        r = yield from s.call(ctx, func, [it] + list(A[1:]), caller, ln); return r
    # ------------------------------------------------------------ slices / Vec
    if re.search(r'<impl \[T\]>::(sort|sort_unstable|sort_by|sort_unstable_by|sort_by_key|sort_unstable_by_key|sort_by_cached_key)$', g) or re.search(r'VecDeque::(sort\w*)$', g):
        d = deref_all(A[0])
        if last in ('sort', 'sort_unstable'):
            def cmpf(x, y):
                if False: yield None
                return _cmp(ctx, x, y)
        elif 'key' in last:
            keys = {}
            for x in d.items: keys[id(x)] = yield from s.call_callable(ctx, A[1], [Ref(Cell(x, 'k'))])
            def cmpf(x, y):
                if False: yield None
                return _cmp(ctx, keys[id(x)], keys[id(y)])
        else:
            def cmpf(x, y):
                o = yield from s.call_callable(ctx, A[1], [Ref(Cell(x, 'a')), Ref(Cell(y, 'b'))]); return o.variant
        d.items[:] = yield from _sorted(s, ctx, list(d.items), cmpf)
        return unit()
    if E('<impl [T]>::last_mut') or E('<impl [T]>::first_mut') or E('VecDeque::front_mut') or E('VecDeque::back_mut') or E('<impl [T]>::get_mut') or E('VecDeque::get_mut'):
        d = deref_all(A[0])
        if last == 'get_mut':
            i = B._conc_index(ctx, A[1], len(d.items)); return some(Ref(SlotCell(d.items, i))) if i is not None else none()
        if not d.items: return none()
        return some(Ref(SlotCell(d.items, len(d.items) - 1 if last in ('last_mut', 'back_mut') else 0)))
    if E('Vec::extend_from_slice'):
        d = deref_all(A[0]); src = deref_all(A[1]); d.items.extend(clone_val(x) for x in (src.items if isinstance(src, SeqM) else src.fields)); return unit()
    if E('Vec::resize') or E('VecDeque::resize'):
        d = deref_all(A[0]); n = simp(A[1])
        if not is_conc(n): raise Unsupported('resize to a symbolic length')
        if n <= len(d.items): del d.items[n:]
        else: d.items.extend(clone_val(A[2]) for _ in range(n - len(d.items)))
        return unit()
    if re.search(r'<impl \[T\]>::(binary_search|binary_search_by|binary_search_by_key)$', g):
        d = deref_all(A[0]); n = len(d.items); lo_, hi_ = 0, n
        # std's loop: size halves, `base` moves right while the probe is not Greater; then one final comparison
        size = n; base = 0
        def probe(i):
            x = d.items[i]
            if last == 'binary_search': return _cmp(ctx, x, A[1])
            if last == 'binary_search_by_key':
                k = yield from s.call_callable(ctx, A[2], [Ref(SlotCell(d.items, i))]); return _cmp(ctx, k, A[1])
            o = yield from s.call_callable(ctx, A[1], [Ref(SlotCell(d.items, i))]); return o.variant
        if n == 0: return err(0)
        while size > 1:
            half = size // 2; mid = base + half
            c = yield from probe(mid)
            base = base if c > 0 else mid
            size -= half
        c = yield from probe(base)
        if c == 0: return ok(base)
        return err(base + (1 if c < 0 else 0))
    if E('<impl [T]>::reverse'): deref_all(A[0]).items.reverse(); return unit()
    if E('<impl [T]>::swap') or E('VecDeque::swap'):
        d = deref_all(A[0]); i = B._conc_index(ctx, A[1], len(d.items)); j = B._conc_index(ctx, A[2], len(d.items))
        if i is None or j is None: raise Panic('index out of bounds (swap)', 'index')
        d.items[i], d.items[j] = d.items[j], d.items[i]; return unit()
    if E('<impl [T]>::split_first') or E('<impl [T]>::split_last'):
        d = deref_all(A[0])
        if not d.items: return none()
        if last == 'split_first': return some(tup(Ref(SlotCell(d.items, 0)), Ref(Cell(SeqM(d.items[1:], 'Vec'), 'tail'))))
        return some(tup(Ref(SlotCell(d.items, len(d.items) - 1)), Ref(Cell(SeqM(d.items[:-1], 'Vec'), 'init'))))
    if E('<impl [T]>::windows') or E('<impl [T]>::chunks') or E('<impl [T]>::chunks_exact'):
        d = deref_all(A[0]); n = simp(A[1])
        if not is_conc(n): raise Unsupported(last + ' with a symbolic size')
        if n == 0: raise Panic(last + ' size must be non-zero', 'assert')
        if last == 'windows': parts = [d.items[i:i + n] for i in range(0, len(d.items) - n + 1)]
        else: parts = [d.items[i:i + n] for i in range(0, len(d.items), n) if last == 'chunks' or i + n <= len(d.items)]
        return IterM([Ref(Cell(SeqM(p, 'Vec'), 'win')) for p in parts])
    if E('Vec::split_off') or E('VecDeque::split_off'):
        d = deref_all(A[0]); i = B._conc_index(ctx, A[1], len(d.items) + 1)
        if i is None: raise Panic('`at` split index out of bounds', 'index')
        tail = d.items[i:]; del d.items[i:]; return SeqM(tail, d.kind)
    if E('Vec::dedup_by_key') or E('Vec::dedup_by'):
        d = deref_all(A[0]); out = []
        for i in range(len(d.items)):
            if out:
                if last == 'dedup_by_key':
                    k1 = yield from s.call_callable(ctx, A[1], [Ref(Cell(out[-1], 'a'))]); k2 = yield from s.call_callable(ctx, A[1], [Ref(SlotCell(d.items, i))])
                    same = term_eq(k1, k2)
                else: same = yield from s.call_callable(ctx, A[1], [Ref(SlotCell(d.items, i)), Ref(Cell(out[-1], 'prev'))])
                if ctx.branch(same): continue
            out.append(d.items[i])
        d.items[:] = out; return unit()
    if E('Vec::dedup'):
        d = deref_all(A[0]); out = []
        for x in d.items:
            if out and ctx.branch(term_eq(out[-1], x)): continue
            out.append(x)
        d.items[:] = out; return unit()
    if E('<impl [T]>::iter') and isinstance(deref_all(A[0]), Agg) and deref_all(A[0]).ty == 'array':
        arr = deref_all(A[0]); return IterM([Ref(SlotCell(arr.fields, i)) for i in range(len(arr.fields))])
    if E('<impl [T]>::map') and isinstance(deref_all(A[0]), Agg) and deref_all(A[0]).ty == 'array':
        out = []
        for x in deref_all(A[0]).fields: out.append((yield from s.call_callable(ctx, A[1], [x])))
        return Agg('array', 0, out)
    if E('<impl [T]>::to_vec') or E('<impl [T]>::into_vec'):
        d = deref_all(A[0]); return SeqM([clone_val(x) for x in (d.items if isinstance(d, SeqM) else d.fields)], 'Vec')
    if E('<impl [T]>::starts_with') or E('<impl [T]>::ends_with'):
        d = deref_all(A[0]).items; p = deref_all(A[1]); p = p.items if isinstance(p, SeqM) else p.fields
        if len(p) > len(d): return False
        seg = d[:len(p)] if last == 'starts_with' else d[len(d) - len(p):]
        return simp(z3.And(*[term_eq(x, y) if not isinstance(term_eq(x, y), bool) else z3.BoolVal(term_eq(x, y)) for x, y in zip(seg, p)])) if p else True
    # ------------------------------------------------------------ VecDeque
    if E('VecDeque::rotate_left') or E('VecDeque::rotate_right') or E('<impl [T]>::rotate_left') or E('<impl [T]>::rotate_right'):
        d = deref_all(A[0]); n = B._conc_index(ctx, A[1], len(d.items) + 1)
        if n is None: raise Panic('assertion failed: n <= self.len()', 'assert')
        if last == 'rotate_right': n = len(d.items) - n
        d.items[:] = d.items[n:] + d.items[:n]; return unit()
    if (tc and tc[0] in ('HashMap', 'HashSet') and tc[1] == 'Extend' and tc[2] == 'extend') or E('HashMap::extend') or E('HashSet::extend'):
        mp = deref_all(A[0]); sv = deref_all(A[1])
        if isinstance(sv, MapM): pairs = [(it_[0], it_[1]) for it_ in sv.items]
        else:
            if isinstance(sv, IterM): items = yield from B._iter_items(s, ctx, sv)
            elif isinstance(sv, SeqM): items = list(sv.items)
            elif isinstance(sv, Agg) and sv.ty == 'array': items = list(sv.fields)
            else: return NotImplemented
            pairs = [((deref_all(x).fields[0], deref_all(x).fields[1]) if mp.kind != 'HashSet' else (x, unit())) for x in items]
        for k_, v_ in pairs:
            i_ = B._find(ctx, mp, B._key(k_))
            if i_ == len(mp.items): mp.items.append([k_, v_])
            elif mp.kind != 'HashSet': mp.items[i_][1] = v_
        return unit()
    if re.search(r'HashMap::(into_keys|into_values|drain)$', g):
        mp = deref_all(A[0]) if isinstance(A[0], Ref) else A[0]
        if last == 'into_keys': return IterM([it_[0] for it_ in mp.items])
        if last == 'into_values': return IterM([it_[1] for it_ in mp.items])
        items = [tup(it_[0], it_[1]) for it_ in mp.items]; mp.items.clear(); return IterM(items)
    if tc and tc[0] == 'Cow' and tc[2] in ('deref', 'as_ref', 'borrow', 'clone', 'to_string', 'into_owned', 'to_mut', 'eq', 'ne') or re.search(r'Cow::(<.*>::)?(into_owned|to_mut|is_borrowed|is_owned)$', func):
        c_ = deref_all(A[0])
        if isinstance(c_, Agg) and c_.ty == 'Cow':
            inner = deref_all(c_.fields[0])
            if last in ('eq', 'ne'):
                o_ = deref_all(A[1]); o_ = deref_all(o_.fields[0]) if isinstance(o_, Agg) and o_.ty == 'Cow' else o_
                r_ = term_eq(inner, o_); return r_ if last == 'eq' else b_not(r_)
            if last == 'clone': return Agg('Cow', c_.variant, [c_.fields[0]])
            if last == 'is_borrowed': return c_.variant == 0
            if last == 'is_owned': return c_.variant == 1
            if last == 'to_mut':
                if c_.variant == 0: c_.variant = 1; c_.fields[0] = clone_val(inner)
                return Ref(SlotCell(c_.fields, 0))
            return inner if last in ('into_owned', 'to_string') else (Ref(Cell(inner, 'cow')) if not isinstance(inner, Str) else inner)
    if tc and tc[0] in ('VecDeque', 'Vec') and tc[1] == 'Extend' and tc[2] == 'extend':
        d = deref_all(A[0]); src = A[1]; sv = deref_all(src)
        if isinstance(sv, IterM): items = yield from B._iter_items(s, ctx, sv)
        elif isinstance(sv, SeqM): items = list(sv.items)
        elif isinstance(sv, Agg) and sv.ty == 'array': items = list(sv.fields)
        elif isinstance(sv, Agg) and sv.ty == 'Option': items = list(sv.fields) if sv.variant == 1 else []
        else: return NotImplemented
        d.items.extend(deref(x) if isinstance(x, Ref) and re.search(r'Extend<&', func) else x for x in items); return unit()
    if E('VecDeque::swap_remove_front'):
        d = deref_all(A[0]); i = B._conc_index(ctx, A[1], len(d.items))
        if i is None: return none()
        d.items[0], d.items[i] = d.items[i], d.items[0]; return some(d.items.pop(0))
    if E('VecDeque::range') or E('VecDeque::range_mut'):
        d = deref_all(A[0]); r = deref_all(A[1]); idx = _range_items(r)
        if idx is None: raise Unsupported('VecDeque::range with ' + getattr(r, 'ty', '?'))
        if idx and idx[-1] >= len(d.items): raise Panic('range end index out of range', 'index')
        return IterM([Ref(SlotCell(d.items, i)) for i in idx])
    # ------------------------------------------------------------ HashMap entry API
    if re.search(r'Entry::(and_modify|or_insert_with_key|key)$', g):
        e = A[0] if not isinstance(A[0], Ref) else deref_all(A[0])
        if not (isinstance(e, Agg) and e.ty == 'Entry'): return NotImplemented
        m_ = deref_all(e.fields[0]); k_ = e.fields[1]
        if last == 'key': return Ref(Cell(k_, 'entry key'))
        i_ = B._find(ctx, m_, deref_all(k_))
        if last == 'and_modify':
            if i_ < len(m_.items): yield from s.call_callable(ctx, A[1], [Ref(SlotCell(m_.items[i_], 1))])
            return e
        if i_ < len(m_.items): return Ref(SlotCell(m_.items[i_], 1))
        v = yield from s.call_callable(ctx, A[1], [Ref(Cell(k_, 'entry key'))])
        m_.items.append([k_, v]); return Ref(SlotCell(m_.items[-1], 1))
    return NotImplemented
