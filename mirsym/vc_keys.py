"""Key injectivity (C02).  The key *term* is read off the wrapper's MIR by executing the real key-building code
(`to_cache_key` / `format!("{:?}")` / `join`) on opaque argument placeholders up to the first cache call; then
 (a) structural VC: the receiver and every parameter occur exactly once, in order, each rendered with Debug and an
     option-free `{:?}` template;
 (b) injectivity VC in z3's theory of strings: each rendered part ranges over the rendering language of its type
     (std's Debug renderings: the trusted model, validated natively), the key is the concatenation the MIR prescribes
     (template literals + separator), and z3 is asked for two different tuples of renderings with equal keys.
A `sat` answer is parsed back into argument values and replayed natively (second call must not be served from the cache)."""
import time, re, json
import z3
from .engine import (Interp, Ctx, Agg, Cell, Ref, Str, Opaque, explore, run_single, Unsupported, Panic, Deadlock, Infeasible, deref_all, is_z3, is_conc)
from . import wrap


from .engine import ArgVal


def decode_template(esc):
    """rustc's fmt::Arguments template byte string -> [('lit', text) | ('arg',)] ; raises Unsupported for formatting options"""
    raw = bytes(esc, 'utf-8').decode('unicode_escape').encode('latin-1') if isinstance(esc, str) else bytes(esc)
    out = []; i = 0
    while i < len(raw):
        n = raw[i]; i += 1
        if n == 0: break
        if n < 0x80: out.append(('lit', raw[i:i + n].decode('utf-8'))); i += n
        elif n == 0x80:
            ln = raw[i] | (raw[i + 1] << 8); i += 2; out.append(('lit', raw[i:i + ln].decode('utf-8'))); i += ln
        elif n == 0xC0: out.append(('arg',))
        else: raise Unsupported('format placeholder with options (0x%02x) in a key template' % n)
    return out


def key_terms(P, subj):
    """[(key Str term, [ArgVal ...] in signature order incl. receiver)] - one per explored shape of the arguments
    (an Option-typed argument that the key-building code looks into contributes a None path and a Some path)"""
    rec = subj.rec
    def run_path(ctx):
        I = Interp(P); E = wrap.Env(I)
        params = []; args = []
        if rec['recv']:
            a = ArgVal('self', rec.get('recv_ty', 'Svc')); params.append(a); args.append(Ref(Cell(a, 'self')) if rec['recv'].startswith('&') else a)
        for n, t in rec['args']:
            a = ArgVal(n, t); params.append(a); args.append(a)
        got = wrap.dry_run(I, ctx, subj, args)
        if got is None: raise Unsupported('the wrapper made no cache lookup')
        fname, cargs = got
        return deref_all(cargs[1]), params
    outs, st = explore(run_path, max_paths=64)
    res = []
    for o in outs:
        if o.status != 'ok': raise Unsupported('key construction ' + o.status + ': ' + str(o.res)[:120])
        res.append(o.res)
    return res


def key_term(P, subj):
    return key_terms(P, subj)[0]


def expand_value(kind, val, ty):
    """Debug rendering of a value assembled from argument placeholders (a destructured parameter re-assembled as a tuple)"""
    if isinstance(val, Agg) and val.ty == 'tuple':
        parts = [('lit', '(')]
        for i, x in enumerate(val.fields):
            if i: parts.append(('lit', ', '))
            parts += expand_value('debug', deref_all(x), getattr(deref_all(x), 'ty', '?'))
        parts.append(('lit', ',)' if len(val.fields) == 1 else ')'))
        return parts
    return [('arg', kind, val, ty)]


def flatten(key):
    """key term -> list of ('lit', text) | ('arg', kind, ArgVal, type)"""
    t = key.t
    if isinstance(t, str): return [('lit', t)] if t else []
    if t[0] == 'join':
        out = []
        for i, part in enumerate(t[2]):
            if i: out.append(('lit', t[1]))
            out += flatten(part)
        return out
    if t[0] == 'fmt':
        kind, tmpl, val, ty = t[1], t[2], t[3], t[4]
        pieces = decode_template(tmpl[1] if isinstance(tmpl, tuple) else tmpl)
        out = []
        for p in pieces:
            if p[0] == 'lit': out.append(p)
            elif isinstance(val, Str) and kind == 'display': out += flatten(val)          # Display of a string that was itself assembled from parts
            elif isinstance(val, Str): raise Unsupported('Debug rendering of an assembled string inside a key')
            else: out += expand_value(kind, val, ty)
        return out
    if t[0] == 'concat':
        out = []
        for part in t[1]: out += flatten(part)
        return out
    if t[0] == 'fmtn':
        # one format! call with several arguments: literal pieces and arguments in template order
        pieces = decode_template(t[1][1] if isinstance(t[1], tuple) else t[1]); args = list(t[2]); out = []; i = 0
        for p in pieces:
            if p[0] == 'lit': out.append(p)
            else:
                if i >= len(args): raise Unsupported('format template with more placeholders than arguments')
                kind, val, ty = args[i]; i += 1
                if isinstance(val, Str) and kind == 'display': out += flatten(val)
                elif isinstance(val, Str): raise Unsupported('Debug rendering of an assembled string inside a key')
                else: out += expand_value(kind, val, ty)
        return out
    raise Unsupported('key term ' + repr(t)[:80])


# ------------------------------------------------------------------ rendering languages (std Debug)
def R(s): return z3.Re(z3.StringVal(s))
def cat(*xs): return xs[0] if len(xs) == 1 else z3.Concat(*xs)
def alt(*xs): return xs[0] if len(xs) == 1 else z3.Union(*xs)
DIGIT = z3.Range('0', '9'); NZ = z3.Range('1', '9')
UINT = alt(R('0'), cat(NZ, z3.Star(DIGIT)))
SINT = alt(UINT, cat(R('-'), NZ, z3.Star(DIGIT)))
HEX = alt(z3.Range('0', '9'), z3.Range('a', 'f'))
UESC = cat(R('\\u{'), z3.Plus(HEX), R('}'))
ANY = z3.AllChar(z3.ReSort(z3.StringSort()))
def not_chars(cs):
    # printable ASCII other than the given characters (the alphabet of the bounded query; other code points behave like letters)
    rs = []
    lo = 0x20
    for c in sorted(set(cs)) + [chr(0x7f)]:
        if ord(c) > lo: rs.append(z3.Range(chr(lo), chr(ord(c) - 1)))
        lo = ord(c) + 1
    return alt(*rs)
STR_BODY = z3.Star(alt(not_chars('"\\'), R('\\"'), R('\\\\'), R('\\n'), R('\\t'), R('\\r'), R('\\0'), R("\\'") if False else R('\\n'), UESC))
CHAR_BODY = alt(not_chars("'\\"), R("\\'"), R('\\\\'), R('\\n'), R('\\t'), R('\\r'), R('\\0'), UESC)


def part_ty(p):
    """type whose rendering language a key part ranges over: the type the formatting call site names, unless that is a bare type
    parameter of generic key code (`T`, `&T`, `?`), in which case the placeholder's own (monomorphic) type"""
    t = re.sub(r"^(&('\w+ )?(mut )?)+", '', str(p[3]).strip())
    if t == '?' or t.startswith('dyn ') or t.startswith('impl ') or re.match(r'^[A-Z][A-Za-z]?\d?$', t) and t not in ('Pt',): return getattr(p[2], 'ty', p[3])
    return p[3]


def lang(ty, kind='debug'):
    ty = ty.strip()
    ty = re.sub(r"^&('\w+ )?", '', ty).strip() if not ty.startswith('&[') and not ty.startswith("&'static [") else ty
    if kind == 'display' and ty in ('String', 'str', 'std::string::String'): return z3.Star(not_chars(''))     # Display of a string: anything
    if ty in ('u8', 'u16', 'u32', 'u64', 'usize', 'u128'): return UINT
    if ty in ('i8', 'i16', 'i32', 'i64', 'isize', 'i128'): return SINT
    if ty == 'bool': return alt(R('true'), R('false'))
    if ty == 'char': return cat(R("'"), CHAR_BODY, R("'")) if kind == 'debug' else not_chars('')
    if ty in ('String', 'str', 'std::string::String'): return cat(R('"'), STR_BODY, R('"'))
    m = re.match(r'^(?:std::option::)?Option<(.*)>$', ty)
    if m: return alt(R('None'), cat(R('Some('), lang(m.group(1), 'debug'), R(')')))
    m = re.match(r"^(?:std::vec::)?Vec<(.*)>$", ty) or re.match(r"^&(?:'static )?\[(.*)\]$", ty)
    if m:
        e = lang(m.group(1), 'debug'); return alt(R('[]'), cat(R('['), e, z3.Star(cat(R(', '), e)), R(']')))
    if ty.startswith('(') and ty.endswith(')'):
        from .mirparse import split_top
        parts = [lang(t, 'debug') for t in split_top(ty[1:-1])]
        seq = [R('(')]
        for i, p in enumerate(parts):
            if i: seq.append(R(', '))
            seq.append(p)
        seq.append(R(',)') if len(parts) == 1 else R(')'))
        return cat(*seq)
    if ty == 'Pt': return cat(R('Pt { x: '), UINT, R(', y: '), UINT, R(' }'))
    if ty == 'Svc': return cat(R('Svc { id: '), UINT, R(' }'))
    if ty == 'Maybe': return alt(R('None'), R('Just'))
    if ty == 'Node': return alt(R('Node1'), R('Node11'), R('Node110'))        # Debug of a unit-like enum: the variant name
    raise Unsupported('no rendering language for type ' + ty)


def run(P, item):
    name = item['subject']; props = set(item['props']); maxlen = item.get('maxlen', 8)
    subj = wrap.Subject(P, name); rec = subj.rec
    t0 = time.time(); failed = []; claims = 0; classes = set(); nq = 0; ts = 0.0
    paths_ = key_terms(P, subj); shapes_ = []
    for key, params0 in paths_:
        flat = flatten(key)
        params = [l for a in params0 for l in a.leaves()]          # what the arguments consist of on this path (tuple components, Some(inner), ...)
        shapes_.append((flat, params))
        argparts = [p for p in flat if p[0] == 'arg']
        # ---- (a) structure
        claims += 1
        order_ok = len(argparts) == len(params) and all(p[2] is a for p, a in zip(argparts, params))
        if not order_ok:
            failed.append(dict(prop='C02', clause='the receiver and every parameter take part in the key exactly once, in signature order', kind='keys', cfg=f"KEY/{name}", op='structure',
                               witness=dict(subject=name, structure=[(p[0], getattr(p[2], 'name', None) if p[0] == 'arg' else p[1]) for p in flat], params=[a.name for a in params], collide=None)))
        classes.add('key/%dparts' % len(argparts))
        floats = [a for a in params if a.ty in ('f64', 'f32')]
        if floats:
            classes.add('key/float-argument (rendering not encodable: outside the claim)')
        elif order_ok and params:
            # ---- (b) injectivity over renderings
            s = z3.Solver(); s.set('timeout', 60000 if item.get('tier') != 'thorough' else 300000)
            xs = [z3.String(f'x{i}') for i in range(len(argparts))]; ys = [z3.String(f'y{i}') for i in range(len(argparts))]
            def build(vs):
                parts = []; i = 0
                for p in flat:
                    if p[0] == 'lit': parts.append(z3.StringVal(p[1]))
                    else: parts.append(vs[i]); i += 1
                return z3.Concat(*parts) if len(parts) > 1 else parts[0]
            try:
                for i, p in enumerate(argparts):
                    L = lang(part_ty(p), p[1])
                    for v in (xs[i], ys[i]):
                        s.add(z3.InRe(v, L)); s.add(z3.Length(v) <= maxlen)
                decided = False
                if len(argparts) >= 3:
                    # compositional form: left-to-right unique decodability.  For every argument position i that is followed by
                    # more key material, no two different renderings x != y of that position admit x ++ post_i ++ w == y ++ post_i ++ w'
                    # (post_i = the literal text up to the next argument, w / w' arbitrary).  If all these hold, equal keys force equal
                    # first components, and by induction equal tuples.  A sat answer here falls back to the full query.
                    idx = [k for k, p in enumerate(flat) if p[0] == 'arg']
                    all_unsat = True
                    for pos, k in enumerate(idx[:-1]):
                        post = ''.join(p[1] for p in flat[k + 1:idx[pos + 1]])
                        q = z3.Solver(); q.set('timeout', 60000)
                        x, y, w1, w2 = z3.String('x'), z3.String('y'), z3.String('w1'), z3.String('w2')
                        L = lang(part_ty(argparts[pos]), argparts[pos][1])
                        q.add(z3.InRe(x, L), z3.InRe(y, L), z3.Length(x) <= maxlen, z3.Length(y) <= maxlen, z3.Length(w1) <= maxlen, z3.Length(w2) <= maxlen, x != y)
                        q.add(z3.Concat(x, z3.StringVal(post), w1) == z3.Concat(y, z3.StringVal(post), w2))
                        t1 = time.time(); r = q.check(); ts += time.time() - t1; nq += 1
                        if r != z3.unsat: all_unsat = False; break
                    if all_unsat: decided = True; claims += 1
                if not decided:
                    s.add(build(xs) == build(ys)); s.add(z3.Or([a != b for a, b in zip(xs, ys)]))
                    t1 = time.time(); r = s.check(); ts += time.time() - t1; nq += 1; claims += 1
                    if r == z3.unknown: raise Unsupported('z3 could not decide the string query for ' + name + ': ' + s.reason_unknown())
                    if r == z3.sat:
                        m = s.model()
                        a = [m.eval(v, model_completion=True).as_string() for v in xs]; b = [m.eval(v, model_completion=True).as_string() for v in ys]
                        failed.append(dict(prop='C02', clause='two different argument tuples never produce the same key (argument boundaries are unambiguous)', kind='keys', cfg=f"KEY/{name}", op='injectivity',
                                           witness=dict(subject=name, collide=[a, b], types=[p[3] for p in argparts], kinds=[p[1] for p in argparts], leaves=[getattr(p[2], 'name', '?') for p in argparts], key=m.eval(build(xs)).as_string())))
            except Unsupported as e:
                if 'rendering language' in str(e): classes.add('key/unmodelled-type')
                raise

    # ---- (c) two different shapes of the arguments (None vs Some(..)) never produce the same key
    if len(shapes_) > 1:
        for i_ in range(len(shapes_)):
            for j_ in range(i_ + 1, len(shapes_)):
                (fa, pa), (fb, pb) = shapes_[i_], shapes_[j_]
                try:
                    q = z3.Solver(); q.set('timeout', 60000)
                    def mk(flat_, tag):
                        vs = []; parts = []
                        for p_ in flat_:
                            if p_[0] == 'lit': parts.append(z3.StringVal(p_[1]))
                            else:
                                v = z3.String(f'{tag}{len(vs)}'); vs.append(v); parts.append(v)
                                q.add(z3.InRe(v, lang(part_ty(p_), p_[1]))); q.add(z3.Length(v) <= maxlen)
                        return (z3.Concat(*parts) if len(parts) > 1 else (parts[0] if parts else z3.StringVal(''))), vs
                    ka, va = mk(fa, 'u'); kb, vb = mk(fb, 'v')
                    q.add(ka == kb)
                    t1 = time.time(); r = q.check(); ts += time.time() - t1; nq += 1; claims += 1
                    if r == z3.unknown: raise Unsupported('z3 could not decide the cross-shape string query for ' + name)
                    if r == z3.sat:
                        m = q.model()
                        toks = None
                        try:
                            def side(flat_, vs_, params0_):
                                vals = {id(p_[2]): (p_[1], m.eval(v_, model_completion=True).as_string()) for p_, v_ in zip([p_ for p_ in flat_ if p_[0] == 'arg'], vs_)}
                                return [arg_token(a_, vals) for a_ in params0_ if a_.name != 'self']
                            if not rec['recv']: toks = [side(fa, va, paths_[i_][1]), side(fb, vb, paths_[j_][1])]
                        except Exception: toks = None
                        failed.append(dict(prop='C02', clause='argument tuples of different shape (None / Some, ...) never produce the same key', kind='keys', cfg=f"KEY/{name}", op='injectivity',
                                           witness=dict(subject=name, collide=None, tokens=toks, structure=[m.eval(ka).as_string(), [x.name for x in pa], [x.name for x in pb]], params=[a.name for a in paths_[0][1]])))
                except Unsupported as e:
                    if 'rendering language' not in str(e): raise
    return dict(paths=len(paths_), claims=claims, failed=failed, classes=sorted(classes), funcs=[subj.fname], builtins=[], checks=nq, solver_s=ts, blocks=0, infeasible=0,
                tag=f"KEY {name} {[a.ty for a in params]} len<={maxlen} term={[(p[1] if p[0] == 'lit' else getattr(p[2], 'name', '?')) for p in flat]}")


# ------------------------------------------------------------------ native replay
def parse_render(ty, s, kind='debug'):
    """inverse of the Debug rendering for the replayable types -> token understood by the native dispatcher"""
    ty = re.sub(r"^&('\w+ )?", '', ty.strip())
    if ty in ('u8', 'u16', 'u32', 'u64', 'usize', 'i8', 'i16', 'i32', 'i64', 'isize'): return s
    if ty == 'bool': return s
    if ty in ('String', 'str', 'std::string::String'):
        if kind == 'display': return 's:' + ''.join('%%%02x' % b for b in s.encode('utf-8'))
        body = s[1:-1]
        out = ''; i = 0
        while i < len(body):
            if body[i] == '\\':
                c = body[i + 1]
                if c == 'u':
                    j = body.index('}', i); out += chr(int(body[i + 3:j], 16)); i = j + 1; continue
                out += {'n': '\n', 't': '\t', 'r': '\r', '0': '\0', '"': '"', '\\': '\\', "'": "'"}[c]; i += 2
            else: out += body[i]; i += 1
        return 's:' + ''.join('%%%02x' % b for b in out.encode('utf-8'))
    if ty == 'Maybe' and s in ('None', 'Just'): return s
    m = re.match(r'^(?:std::option::)?Option<(.*)>$', ty)
    if m:
        if s == 'None': return 'o:N'
        if s.startswith('Some(') and s.endswith(')'): return 'o:S:' + parse_render(m.group(1), s[5:-1], 'debug')
    if re.match(r"^(?:std::vec::)?Vec<\w+>$", ty) or re.match(r"^\[\w+\]$", ty):
        comps = [c.strip() for c in s[1:-1].split(',')] if s != '[]' else []
        if all(re.match(r'^-?\d+$', c) for c in comps): return 'v:' + ','.join(comps)
    if ty.startswith('(') and ty.endswith(')'):
        comps = [c.strip() for c in s[1:-1].rstrip(',').split(',')]
        if all(re.match(r'^-?\d+$', c) for c in comps): return 't:' + ','.join(comps)
    raise Unsupported('no native argument encoding for ' + ty)


def arg_token(a, vals):
    """native token of one argument placeholder, given the renderings of the leaves it was unfolded into (vals: id(leaf) -> rendering)"""
    if a.shape == 'none': return 'o:N'
    if a.shape == 'some': return 'o:S:' + arg_token(a._fields[0], vals)
    if a.shape == 'vec':
        comps = [vals.get(id(c), (None, None))[1] if c.shape is None else None for c in a._fields]
        if not all(c is not None and re.match(r'^-?\d+$', c) for c in comps): raise Unsupported('elements of ' + a.name + ' cannot be passed natively')
        return 'v:' + ','.join(comps)
    if a.shape == 'tuple':
        comps = [vals.get(id(c), (None, '0'))[1] for c in a._fields] if all(c.shape is None for c in a._fields) else None
        if comps is None or not all(re.match(r'^-?\d+$', c) for c in comps): raise Unsupported('components of ' + a.name + ' cannot be passed natively')
        return 't:' + ','.join(comps)
    r = vals.get(id(a))
    if r is None:          # the argument takes no part in the key: any value will do
        t = a._bare()
        if t in ('u8', 'u16', 'u32', 'u64', 'usize', 'i8', 'i16', 'i32', 'i64', 'isize'): return '0'
        raise Unsupported('no default native value for ' + a.name)
    kind, text = r
    return parse_render(a.ty, text, kind)


def replay(f, w):
    from . import replay as R_
    if w.get('tokens'):
        a, b = w['tokens']
        L = ['scenario subj', f"callk 0 {w['subject']} " + ' '.join(a), f"callk 0 {w['subject']} " + ' '.join(b), 'end']
        outs, err = R_.run_scenarios('\n'.join(L) + '\n', timeout=60)
        lines = outs[0] if outs else []; ex = [int(l[6:]) for l in lines if l.startswith('execs ')]
        if len(ex) >= 2 and ex[1] == ex[0]: return True, f"natively the second call with arguments {b} was served from the entry of {a} (no execution)", lines
        if len(ex) >= 2: return False, 'natively both calls executed the body', lines
    if not w.get('collide'): return True, 'structural fact read from the compiler MIR of the real build: ' + json.dumps(w.get('structure')), []
    subs = wrap.subjects(); rec = subs[w['subject']]
    try:
        kinds = w.get('kinds', ['debug'] * 9)[-len(rec['args']):]
        if w.get('leaves') and any('.' in l for l in w['leaves']):
            # structured arguments: the renderings belong to components; a tuple argument is passed natively as t:<c0>,<c1>,...
            def tokens(side):
                vals = dict(zip(w['leaves'], side)); kd = dict(zip(w['leaves'], w.get('kinds', [])))
                out = []
                for n_, t_ in rec['args']:
                    if n_ in vals: out.append(parse_render(t_, vals[n_], kd.get(n_, 'debug')))
                    else:
                        comps = [vals[l] for l in w['leaves'] if l.startswith(n_ + '.')]
                        if not comps or not all(re.match(r'^-?\d+$', c) for c in comps): raise Unsupported('components of ' + n_ + ' cannot be passed natively')
                        out.append('t:' + ','.join(comps))
                return out
            a = tokens(w['collide'][0]); b = tokens(w['collide'][1])
        else:
            a = [parse_render(t, s, k) for t, s, k in zip([x[1] for x in rec['args']], w['collide'][0][-len(rec['args']):], kinds)]
            b = [parse_render(t, s, k) for t, s, k in zip([x[1] for x in rec['args']], w['collide'][1][-len(rec['args']):], kinds)]
        if rec.get('recv_ty') in ('Node', 'u32'):
            a = [w['collide'][0][0]] + a; b = [w['collide'][1][0]] + b
        elif rec['recv']: return False, 'receiver values of this subject cannot be passed natively', []
    except (Unsupported, Exception) as e:
        return False, 'witness cannot be turned into native arguments: ' + str(e), []
    L = ['scenario subj', f"callk 0 {w['subject']} " + ' '.join(a), f"callk 0 {w['subject']} " + ' '.join(b), 'end']
    outs, err = R_.run_scenarios('\n'.join(L) + '\n', timeout=60)
    if not outs: return False, 'no output', []
    lines = outs[0]; ex = [int(l[6:]) for l in lines if l.startswith('execs ')]
    if len(ex) >= 2 and ex[1] == ex[0]: return True, f"natively the second call with different arguments {w['collide'][1]} was served from the entry of {w['collide'][0]} (no execution)", lines
    return False, 'natively both calls executed the body', lines
