import sys, time, z3
from mirsym2 import *
P = Program(); P.load('/tmp/mirprobe/core_full.mir', '/tmp/mirprobe/core_fv.mir', 'core')
I = Interp(P)
INS = [f for n, f in P.fns.items() if n.endswith('::insert') and 'ThreadLocalCache<R>' in f.locals[1].ty][0]
POL = {'FIFO': 0, 'LRU': 1, 'LFU': 2, 'ARC': 3, 'Random': 4, 'TLRU': 5}
def step(n, policy):
    def run(ctx):
        keys = [z3.Int(f'key{i}') for i in range(n)]
        if n > 1: ctx.add(z3.Distinct(keys))
        now0 = z3.Int('now0'); ctx.add(now0 >= 0); ctx.now_vars.append(now0)
        ents = []
        for i in range(n):
            b = z3.Int(f'birth{i}'); ctx.add(z3.And(b >= 0, b <= now0)); h = z3.BitVec(f'hits{i}', 64)
            ctx.add(h == 0 if policy in ('FIFO', 'LRU', 'Random') else z3.ULT(h, z3.BitVecVal(2**20, 64)))
            ents.append([Str(keys[i]), Agg('CacheEntry', 0, [z3.BitVec(f'val{i}', 64), Instant(b), h])])
        limit = z3.BitVec('limit', 64); ctx.add(z3.And(z3.UGE(limit, 1), z3.ULE(limit, 4), z3.UGE(limit, n)))
        ck = TlsKey('CACHE', RefCellM(MapM(ents), 'cache-refcell')); ok = TlsKey('ORDER', RefCellM(SeqM([Str(k) for k in keys]), 'order-refcell'))
        cache = Agg('ThreadLocalCache', 0, [Ref(Cell(ck, 'ck')), Ref(Cell(ok, 'ok')), some(limit), none(), Agg('EvictionPolicy', POL[policy], []), none(), none(),
                                             Agg('CacheStats', 0, [Agg('Atomic', 0, [z3.BitVecVal(0, 64)]), Agg('Atomic', 0, [z3.BitVecVal(0, 64)])])])
        run_single(ctx, I.call_fn(ctx, INS, [Ref(Cell(cache, 'cache')), Str(z3.Int('argkey')), z3.BitVec('argval', 64)]))
        return len(ck.per_thread[0].v.inner.v.items)
    t = time.time(); out, nchecks, _ = explore(run)
    from collections import Counter
    c = Counter(s_ for s_, _, _ in out)
    msg = ''
    for s_, r, ctx in out:
        if s_ == 'panic':
            m = ctx.solver.model() if ctx.solver.check() == z3.sat else None
            msg = f"  PANIC: {r}; witness limit={m[z3.BitVec('limit',64)] if m else '?'}"; break
    print(f'T insert {policy:6s} n={n}: {dict(c)} checks={nchecks} wall={time.time()-t:.2f}s{msg}')
for pol in ['FIFO', 'LRU', 'Random', 'LFU', 'ARC', 'TLRU']:
    for n in (0, 1, 2):
        try: step(n, pol)
        except Unsupported as e: print('UNSUPPORTED', pol, n, e); break
