//! Conformance corpus for the interpreter's models of std (mirsym/builtins.py): small functions that exercise one
//! idiom each on two integers.  `tools/idioms_check.py` runs every function natively (through the replay binary) and
//! through mirsym on the same concrete inputs and compares the results; an `Unsupported` or a mismatch is a gap of the
//! interpreter that a refactoring of the library could hit.  Nothing here is decorated; no check depends on it.
#![allow(clippy::all, unused_mut, unused_variables)]
use std::collections::{HashMap, HashSet, VecDeque};

fn seq(a: u64, b: u64) -> Vec<u64> {
    vec![a % 7, b % 5, (a + b) % 11, a % 3, 9, b % 2, 4]
}
fn dq(a: u64, b: u64) -> VecDeque<u64> {
    seq(a, b).into_iter().collect()
}
fn opt(a: u64) -> Option<u64> {
    if a % 3 == 0 {
        None
    } else {
        Some(a % 10)
    }
}
fn res(a: u64) -> Result<u64, u64> {
    if a % 4 == 0 {
        Err(a % 9)
    } else {
        Ok(a % 6)
    }
}
fn q_opt(a: u64, b: u64) -> Option<u64> {
    let x = opt(a)?;
    let y = opt(b)?;
    Some(x * 10 + y)
}
fn q_res(a: u64, b: u64) -> Result<u64, u64> {
    let x = res(a)?;
    let y = res(b)?;
    Ok(x * 10 + y)
}

// ---- Option
pub fn i01(a: u64, b: u64) -> u64 { opt(a).map(|x| x + b % 4).unwrap_or(77) }
pub fn i02(a: u64, b: u64) -> u64 { opt(a).and_then(|x| opt(x + b)).unwrap_or_else(|| b % 13) }
pub fn i03(a: u64, b: u64) -> u64 { opt(a).filter(|x| x % 2 == 0).map_or(5, |x| x * 3) }
pub fn i04(a: u64, b: u64) -> u64 { opt(a).map_or_else(|| b % 8, |x| x + 1) }
pub fn i05(a: u64, b: u64) -> u64 { (opt(a).is_some_and(|x| x > 4) as u64) * 2 + (opt(b).is_none() as u64) }
pub fn i06(a: u64, b: u64) -> u64 { match opt(a).ok_or(b % 5) { Ok(x) => x, Err(e) => 100 + e } }
pub fn i07(a: u64, b: u64) -> u64 { opt(a).zip(opt(b)).map(|(x, y)| x * 16 + y).unwrap_or(999) }
pub fn i08(a: u64, b: u64) -> u64 { let mut o = opt(a); let t = o.take(); t.unwrap_or(3) + o.is_some() as u64 }
pub fn i09(a: u64, b: u64) -> u64 { let mut o = opt(a); let old = o.replace(b % 9); old.unwrap_or(50) + o.unwrap_or(0) }
pub fn i10(a: u64, b: u64) -> u64 { let mut o = opt(a); *o.get_or_insert_with(|| b % 6) + 1 }
pub fn i11(a: u64, b: u64) -> u64 { opt(a).or(opt(b)).unwrap_or(41) + opt(a).or_else(|| opt(b + 1)).unwrap_or(2) }
pub fn i12(a: u64, b: u64) -> u64 { opt(a).xor(opt(b)).unwrap_or(33) }
pub fn i13(a: u64, b: u64) -> u64 { q_opt(a, b).unwrap_or(1000) }
pub fn i14(a: u64, b: u64) -> u64 { let Some(x) = opt(a) else { return b % 17 }; x + 200 }
pub fn i15(a: u64, b: u64) -> u64 { let o = opt(a); let r = o.as_ref().map(|x| *x + 1); r.unwrap_or(0) + o.unwrap_or(9) }
pub fn i16(a: u64, b: u64) -> u64 { let mut o = opt(a); if let Some(x) = o.as_mut() { *x += b % 3; } o.unwrap_or(6) }
pub fn i17(a: u64, b: u64) -> u64 { opt(a).iter().chain(opt(b).iter()).sum::<u64>() }
pub fn i18(a: u64, b: u64) -> u64 { (a % 2 == 0).then(|| b % 7).unwrap_or(70) + (b % 2 == 1).then_some(3).unwrap_or(0) }
pub fn i19(a: u64, b: u64) -> u64 { matches!(opt(a), Some(x) if x > 3) as u64 + 2 * matches!(res(b), Err(_)) as u64 }
// ---- Result
pub fn i20(a: u64, b: u64) -> u64 { res(a).map(|x| x + 1).map_err(|e| e + 100).unwrap_or_else(|e| e) }
pub fn i21(a: u64, b: u64) -> u64 { res(a).ok().unwrap_or(8) + res(b).err().unwrap_or(1) }
pub fn i22(a: u64, b: u64) -> u64 { res(a).and_then(|x| res(x + b)).unwrap_or(55) }
pub fn i23(a: u64, b: u64) -> u64 { match q_res(a, b) { Ok(v) => v, Err(e) => 500 + e } }
pub fn i24(a: u64, b: u64) -> u64 { res(a).is_ok_and(|x| x > 2) as u64 + 2 * res(b).is_err() as u64 + res(a).unwrap_or_default() }
pub fn i25(a: u64, b: u64) -> u64 { res(a).map_or(9, |x| x * 2) + res(b).as_ref().map_or_else(|e| **&e + 1, |x| *x) }
// ---- iterators over Vec
pub fn i30(a: u64, b: u64) -> u64 { seq(a, b).iter().map(|x| x * 2).filter(|x| x % 3 != 0).sum() }
pub fn i31(a: u64, b: u64) -> u64 { seq(a, b).iter().enumerate().map(|(i, x)| i as u64 * x).sum() }
pub fn i32_(a: u64, b: u64) -> u64 { seq(a, b).iter().position(|x| *x == 4).map_or(99, |p| p as u64) }
pub fn i33(a: u64, b: u64) -> u64 { seq(a, b).iter().rev().position(|x| *x > 3).map_or(99, |p| p as u64) }
pub fn i34(a: u64, b: u64) -> u64 { seq(a, b).iter().copied().find(|x| x % 2 == 1).unwrap_or(88) }
pub fn i35(a: u64, b: u64) -> u64 { seq(a, b).iter().find_map(|x| if *x > 5 { Some(x * 7) } else { None }).unwrap_or(1) }
pub fn i36(a: u64, b: u64) -> u64 { seq(a, b).iter().any(|x| *x == 0) as u64 + 2 * seq(a, b).iter().all(|x| *x < 11) as u64 }
pub fn i37(a: u64, b: u64) -> u64 { seq(a, b).iter().fold(1u64, |acc, x| (acc * 3 + x) % 1009) }
pub fn i38(a: u64, b: u64) -> u64 { seq(a, b).iter().copied().min().unwrap_or(0) * 100 + seq(a, b).iter().copied().max().unwrap_or(0) }
pub fn i39(a: u64, b: u64) -> u64 { *seq(a, b).iter().min_by_key(|x| (**x as i64 - 5).abs()).unwrap() }
pub fn i40(a: u64, b: u64) -> u64 { *seq(a, b).iter().max_by_key(|x| **x % 4).unwrap() }
pub fn i41(a: u64, b: u64) -> u64 { *seq(a, b).iter().min_by(|x, y| (**x % 5).cmp(&(**y % 5))).unwrap() }
pub fn i42(a: u64, b: u64) -> u64 { seq(a, b).iter().take(3).sum::<u64>() * 100 + seq(a, b).iter().skip(4).sum::<u64>() }
pub fn i43(a: u64, b: u64) -> u64 { seq(a, b).iter().take_while(|x| **x < 6).count() as u64 * 10 + seq(a, b).iter().skip_while(|x| **x < 6).count() as u64 }
pub fn i44(a: u64, b: u64) -> u64 { seq(a, b).iter().zip(seq(b, a).iter()).map(|(x, y)| x * y).sum() }
pub fn i45(a: u64, b: u64) -> u64 { seq(a, b).iter().chain([a % 4, b % 4].iter()).last().copied().unwrap_or(0) + seq(a, b).iter().count() as u64 }
pub fn i46(a: u64, b: u64) -> u64 { seq(a, b).into_iter().filter_map(|x| if x % 2 == 0 { Some(x + 1) } else { None }).collect::<Vec<_>>().len() as u64 }
pub fn i47(a: u64, b: u64) -> u64 { seq(a, b).iter().nth(2).copied().unwrap_or(0) + seq(a, b).iter().step_by(3).sum::<u64>() }
pub fn i48(a: u64, b: u64) -> u64 { (0..(a % 5 + 1)).map(|i| i * b % 7).sum::<u64>() + (1..=3u64).rev().fold(0, |acc, i| acc * 10 + i) }
pub fn i49(a: u64, b: u64) -> u64 { let mut n = 0; for (i, x) in seq(a, b).iter().enumerate() { if i % 2 == 0 { continue; } if *x == 9 { break; } n += x; } n }
pub fn i50(a: u64, b: u64) -> u64 { let v = seq(a, b); let mut it = v.iter().peekable(); let mut n = 0; while let Some(x) = it.next() { if let Some(nx) = it.peek() { n += x * **nx; } } n }
pub fn i51(a: u64, b: u64) -> u64 { seq(a, b).iter().flat_map(|x| std::iter::repeat(*x).take((*x % 3) as usize)).sum() }
pub fn i52(a: u64, b: u64) -> u64 { let mut c = 0; seq(a, b).iter().inspect(|_| c += 1).filter(|x| **x > 2).count() as u64 * 10 + c }
pub fn i53(a: u64, b: u64) -> u64 { seq(a, b).iter().map(|x| *x as usize).max_by(|x, y| x.cmp(y)).unwrap_or(0) as u64 }
pub fn i54(a: u64, b: u64) -> u64 { let mut left = a % 5; std::iter::from_fn(|| if left > 0 { left -= 1; Some(left) } else { None }).map(|x| x + b % 2).sum() }
pub fn i55(a: u64, b: u64) -> u64 { seq(a, b).windows(2).filter(|w| w[0] < w[1]).count() as u64 + seq(a, b).chunks(3).map(|c| c.len() as u64).sum::<u64>() * 10 }
// ---- Vec
pub fn i60(a: u64, b: u64) -> u64 { let mut v = seq(a, b); v.retain(|x| x % 2 == 0); v.len() as u64 * 100 + v.iter().sum::<u64>() }
pub fn i61(a: u64, b: u64) -> u64 { let mut v = seq(a, b); let x = v.remove((a % 7) as usize); v.insert((b % 6) as usize, 42); x * 1000 + v[3] * 10 + v.len() as u64 }
pub fn i62(a: u64, b: u64) -> u64 { let mut v = seq(a, b); let x = v.swap_remove((a % 7) as usize); x * 100 + v[(b % 6) as usize] }
pub fn i63(a: u64, b: u64) -> u64 { let mut v = seq(a, b); v.sort(); v.dedup(); v.len() as u64 * 100 + v[0] * 10 + v[v.len() - 1] }
pub fn i64_(a: u64, b: u64) -> u64 { let mut v = seq(a, b); v.sort_by_key(|x| std::cmp::Reverse(*x)); v[0] * 10 + v[6] }
pub fn i65(a: u64, b: u64) -> u64 { let mut v = seq(a, b); v.reverse(); v.truncate(4); v.extend([1, 2]); v.iter().fold(0, |acc, x| (acc * 7 + x) % 10007) }
pub fn i66(a: u64, b: u64) -> u64 { let mut v = seq(a, b); let d: Vec<u64> = v.drain(1..3).collect(); d.iter().sum::<u64>() * 100 + v.len() as u64 }
pub fn i67(a: u64, b: u64) -> u64 { let v = seq(a, b); v.first().copied().unwrap_or(0) + v.last().copied().unwrap_or(0) * 10 + v.get(20).copied().unwrap_or(7) * 100 + v.contains(&9) as u64 * 1000 }
pub fn i68(a: u64, b: u64) -> u64 { let mut v = seq(a, b); for x in v.iter_mut() { *x += 1; } let t = v.split_off(4); t.len() as u64 * 100 + v.iter().sum::<u64>() }
pub fn i69(a: u64, b: u64) -> u64 { let mut v = seq(a, b); let p = v.pop().unwrap_or(0); v.push(p + 1); v.swap(0, 6); v.is_empty() as u64 + v[0] * 10 + std::mem::take(&mut v).len() as u64 * 100 + v.len() as u64 }
pub fn i70(a: u64, b: u64) -> u64 { let v = seq(a, b); let (h, t) = v.split_first().unwrap(); h * 100 + t.len() as u64 + v[1..3].iter().sum::<u64>() * 1000 }
// ---- VecDeque
pub fn i75(a: u64, b: u64) -> u64 { let mut q = dq(a, b); let f = q.pop_front().unwrap_or(0); q.push_back(f + 1); q.push_front(b % 3); q.front().copied().unwrap() * 100 + q.back().copied().unwrap() * 10 + q.len() as u64 }
pub fn i76(a: u64, b: u64) -> u64 { let mut q = dq(a, b); let r = q.remove((a % 9) as usize); r.unwrap_or(77) * 100 + q.len() as u64 }
pub fn i77(a: u64, b: u64) -> u64 { let mut q = dq(a, b); q.retain(|x| *x != 9 && *x != 4); q.iter().fold(0, |acc, x| acc * 11 + x) }
pub fn i78(a: u64, b: u64) -> u64 { let mut q = dq(a, b); if let Some(p) = q.iter().position(|x| *x == 9) { let k = q.remove(p).unwrap(); q.push_back(k); } q.iter().fold(0, |acc, x| (acc * 13 + x) % 100003) }
pub fn i79(a: u64, b: u64) -> u64 { let mut q = dq(a, b); q.rotate_left((a % 7) as usize); q.swap(0, 1); q.insert(2, 50); q.get(2).copied().unwrap() + q[0] * 100 + q.contains(&4) as u64 * 1000 }
pub fn i80(a: u64, b: u64) -> u64 { let mut q = dq(a, b); q.truncate(5); let d: Vec<u64> = q.drain(..2).collect(); q.extend(d.iter().map(|x| x + 1)); q.make_contiguous(); q.iter().rev().fold(0, |acc, x| (acc * 7 + x) % 100003) }
pub fn i81(a: u64, b: u64) -> u64 { let mut q = dq(a, b); let mut n = 0; while let Some(x) = q.pop_front() { if x == 9 { break; } n += x; } n * 10 + q.len() as u64 + { q.clear(); q.is_empty() as u64 * 1000 } }
pub fn i82(a: u64, b: u64) -> u64 { let mut q = dq(a, b); let k = q.swap_remove_back((b % 7) as usize).unwrap_or(0); let j = q.pop_back().unwrap_or(0); k * 100 + j * 10 + q.iter().filter(|x| **x > 2).count() as u64 }
// ---- HashMap / HashSet
pub fn i85(a: u64, b: u64) -> u64 { let mut m: HashMap<u64, u64> = HashMap::new(); for (i, x) in seq(a, b).into_iter().enumerate() { *m.entry(x).or_insert(0) += i as u64; } m.values().sum::<u64>() * 10 + m.len() as u64 }
pub fn i86(a: u64, b: u64) -> u64 { let mut m: HashMap<u64, u64> = seq(a, b).into_iter().map(|x| (x, x * 2)).collect(); let r = m.remove(&9).unwrap_or(1); m.insert(100, r); m.contains_key(&4) as u64 + m.get(&100).copied().unwrap_or(0) * 10 + m.len() as u64 * 1000 }
pub fn i87(a: u64, b: u64) -> u64 { let mut m: HashMap<u64, u64> = HashMap::new(); for x in seq(a, b) { m.entry(x).and_modify(|v| *v += 1).or_insert_with(|| 1); } m.retain(|k, v| *v > 1 || k % 2 == 0); m.iter().map(|(k, v)| k * v).sum() }
pub fn i88(a: u64, b: u64) -> u64 { let mut m: HashMap<u64, Vec<u64>> = HashMap::new(); for x in seq(a, b) { m.entry(x % 3).or_default().push(x); } m.values_mut().for_each(|v| v.push(1)); m.values().map(|v| v.len() as u64).sum::<u64>() + m.keys().sum::<u64>() * 100 }
pub fn i89(a: u64, b: u64) -> u64 { let mut m: HashMap<u64, u64> = HashMap::new(); m.insert(a % 4, 1); let old = m.insert(a % 4, 2); if let Some(v) = m.get_mut(&(a % 4)) { *v += b % 3; } old.unwrap_or(0) * 100 + m[&(a % 4)] + m.remove_entry(&(a % 4)).map_or(0, |(k, _)| k * 1000) + m.is_empty() as u64 * 7 }
pub fn i90(a: u64, b: u64) -> u64 { let s: HashSet<u64> = seq(a, b).into_iter().collect(); let mut t = HashSet::new(); let fresh = t.insert(a % 7); let again = t.insert(a % 7); s.len() as u64 * 100 + s.contains(&9) as u64 * 10 + fresh as u64 + again as u64 * 2 + t.remove(&(a % 7)) as u64 * 1000 }
pub fn i91(a: u64, b: u64) -> u64 { let m: HashMap<u64, u64> = seq(a, b).into_iter().map(|x| (x, x + 1)).collect(); let mut ks: Vec<u64> = m.keys().copied().collect(); ks.sort(); let best = m.iter().min_by_key(|(k, v)| (**v % 3, **k)).map(|(k, _)| *k).unwrap_or(0); ks[0] * 100 + best }
// ---- integers, mem, tuples, closures, control flow
pub fn i95(a: u64, b: u64) -> u64 { a.saturating_sub(b) % 1000 + a.checked_sub(b).is_some() as u64 * 1000 + (a % 100).abs_diff(b % 100) * 10000 }
pub fn i96(a: u64, b: u64) -> u64 { (a % 10).pow(2) + (a % 50).clamp(10, 20) * 100 + (a % 9).min(b % 9) * 10000 + (a % 9).max(b % 9) * 100000 }
pub fn i97(a: u64, b: u64) -> u64 { (a as u8).wrapping_add(b as u8) as u64 + ((a % 256) as u8).checked_add((b % 256) as u8).map_or(999, |x| x as u64) * 1000 }
pub fn i98(a: u64, b: u64) -> u64 { let mut x = a % 9; let mut y = b % 9; std::mem::swap(&mut x, &mut y); let z = std::mem::replace(&mut x, 5); x * 100 + y * 10 + z }
pub fn i99(a: u64, b: u64) -> u64 { let mut total = 0; let mut add = |k: u64| { total += k; total }; add(a % 5); add(b % 5); total * 2 }
pub fn i100(a: u64, b: u64) -> u64 { let t = (a % 4, b % 4); match t { (0, _) => 1, (_, 0) => 2, (x, y) if x == y => 3, (x, y) => x * 10 + y } }
pub fn i101(a: u64, b: u64) -> u64 { let mut n = 0; 'outer: for i in 0..(a % 4 + 2) { for j in 0..(b % 4 + 2) { if i * j > 4 { break 'outer; } n += i + j; } } n }
pub fn i102(a: u64, b: u64) -> u64 { let arr = [a % 3, b % 3, 7]; let [x, y, z] = arr; let s: u64 = arr.iter().sum(); arr.len() as u64 * 1000 + x * 100 + y * 10 + z + s * 10000 + arr.map(|v| v + 1)[2] * 100000 }
pub fn i103(a: u64, b: u64) -> u64 { let f = if a % 2 == 0 { |x: u64| x + 1 } else { |x: u64| x * 2 }; f(b % 10) }
pub fn i104(a: u64, b: u64) -> u64 { let v = seq(a, b); let s: &[u64] = &v; match s { [] => 0, [x] => *x, [x, .., y] => x * 10 + y } }
pub fn i105(a: u64, b: u64) -> u64 { #[derive(Clone, Copy, PartialEq)] enum K { A, B(u64), C { v: u64 } } let k = match a % 3 { 0 => K::A, 1 => K::B(b % 5), _ => K::C { v: b % 7 } }; let m = match k { K::A => 1, K::B(x) if x > 2 => 20 + x, K::B(x) => x, K::C { v } => 300 + v }; m + (k == K::A) as u64 * 1000 }
pub fn i106(a: u64, b: u64) -> u64 { struct Acc { n: u64, items: Vec<u64> } impl Acc { fn add(&mut self, x: u64) -> &mut Self { self.n += x; self.items.push(x); self } } let mut acc = Acc { n: 0, items: vec![] }; acc.add(a % 5).add(b % 5); acc.n * 10 + acc.items.len() as u64 }
pub fn i107(a: u64, b: u64) -> u64 { let s = format!("{}-{}", a % 10, b % 10); let t = (a % 10).to_string() + "-" + &(b % 10).to_string(); (s == t) as u64 * 10 + s.len() as u64 + s.is_empty() as u64 * 100 }
pub fn i108(a: u64, b: u64) -> u64 { let names: Vec<String> = seq(a, b).iter().map(|x| format!("k{}", x)).collect(); let want = format!("k{}", 9); names.iter().position(|n| *n == want).map_or(50, |p| p as u64) + names.iter().filter(|n| n.as_str() == "k4").count() as u64 * 100 }
pub fn i109(a: u64, b: u64) -> u64 { let o: Option<Option<u64>> = if a % 2 == 0 { Some(opt(b)) } else { None }; o.flatten().unwrap_or(12) + opt(a).map(|x| res(x)).and_then(|r| r.ok()).unwrap_or(3) * 100 }
pub fn i110(a: u64, b: u64) -> u64 { let v: Vec<Option<u64>> = vec![opt(a), opt(b), opt(a + b)]; v.iter().flatten().sum::<u64>() + v.iter().filter(|x| x.is_none()).count() as u64 * 100 + v.into_iter().collect::<Option<Vec<u64>>>().map_or(7000, |w| w.len() as u64 * 1000) }

macro_rules! table { ($($n:literal => $f:ident),* $(,)?) => {
    pub fn run(n: u32, a: u64, b: u64) -> Option<u64> { match n { $($n => Some($f(a, b)),)* _ => run2(n, a, b) } }
    pub const ALL: &[(u32, &str)] = &[$(($n, stringify!($f))),*];
} }
table! { 1 => i01, 2 => i02, 3 => i03, 4 => i04, 5 => i05, 6 => i06, 7 => i07, 8 => i08, 9 => i09, 10 => i10, 11 => i11, 12 => i12, 13 => i13, 14 => i14, 15 => i15, 16 => i16, 17 => i17, 18 => i18, 19 => i19,
    20 => i20, 21 => i21, 22 => i22, 23 => i23, 24 => i24, 25 => i25,
    30 => i30, 31 => i31, 32 => i32_, 33 => i33, 34 => i34, 35 => i35, 36 => i36, 37 => i37, 38 => i38, 39 => i39, 40 => i40, 41 => i41, 42 => i42, 43 => i43, 44 => i44, 45 => i45, 46 => i46, 47 => i47, 48 => i48, 49 => i49,
    50 => i50, 51 => i51, 52 => i52, 53 => i53, 54 => i54, 55 => i55,
    60 => i60, 61 => i61, 62 => i62, 63 => i63, 64 => i64_, 65 => i65, 66 => i66, 67 => i67, 68 => i68, 69 => i69, 70 => i70,
    75 => i75, 76 => i76, 77 => i77, 78 => i78, 79 => i79, 80 => i80, 81 => i81, 82 => i82,
    85 => i85, 86 => i86, 87 => i87, 88 => i88, 89 => i89, 90 => i90, 91 => i91,
    95 => i95, 96 => i96, 97 => i97, 98 => i98, 99 => i99, 100 => i100, 101 => i101, 102 => i102, 103 => i103, 104 => i104, 105 => i105, 106 => i106, 107 => i107, 108 => i108, 109 => i109, 110 => i110 }

// ======================================================================== second batch
use std::cell::RefCell;
use std::rc::Rc;
use std::sync::{Arc, Mutex, RwLock};

fn names(a: u64, b: u64) -> VecDeque<String> {
    seq(a, b).iter().map(|x| format!("n{}", x)).collect()
}
fn fl(a: u64) -> f64 { (a % 16) as f64 * 0.5 }

// ---- strings as keys
pub fn j01(a: u64, b: u64) -> u64 { let q = names(a, b); let k = format!("n{}", a % 7); q.iter().position(|x| x == &k).map_or(70, |p| p as u64) + q.contains(&"n9".to_string()) as u64 * 100 }
pub fn j02(a: u64, b: u64) -> u64 { let mut q = names(a, b); let k = String::from("n9"); q.retain(|x| x != &k); let dead = format!("n{}", b % 5); q.retain(|x| *x != dead); q.len() as u64 }
pub fn j03(a: u64, b: u64) -> u64 { let mut m: HashMap<String, u64> = HashMap::new(); for (i, n) in names(a, b).into_iter().enumerate() { m.insert(n, i as u64); } let k = format!("n{}", b % 2); m.get(&k).copied().unwrap_or(50) + m.get("n9").copied().unwrap_or(60) * 100 + m.contains_key(k.as_str()) as u64 * 10000 + m.len() as u64 * 100000 }
pub fn j04(a: u64, b: u64) -> u64 { let mut m: HashMap<String, (u64, u64)> = HashMap::new(); for n in names(a, b) { let e = m.entry(n.clone()).or_insert((0, 0)); e.0 += 1; e.1 += n.len() as u64; } let best = m.iter().filter(|(_, v)| v.0 > 1).count() as u64; best * 1000 + m.values().map(|v| v.1).sum::<u64>() }
pub fn j05(a: u64, b: u64) -> u64 { let mut s = String::new(); s.push_str("ab"); s.push('|'); s.push_str(&(a % 10).to_string()); let t = format!("ab|{}", a % 10); (s == t) as u64 + s.len() as u64 * 10 + s.starts_with("ab|") as u64 * 1000 + t.ends_with('3') as u64 * 10000 + s.contains('|') as u64 * 100000 }
pub fn j06(a: u64, b: u64) -> u64 { let parts: Vec<String> = vec![(a % 10).to_string(), (b % 10).to_string(), "x".to_string()]; let j = parts.join("|"); let k = [parts[0].as_str(), parts[1].as_str(), "x"].join("|"); (j == k) as u64 + j.len() as u64 * 10 + (parts.concat().len() as u64) * 1000 }
pub fn j07(a: u64, b: u64) -> u64 { let q = names(a, b); let mut seen: HashSet<&str> = HashSet::new(); let mut dup = 0; for n in q.iter() { if !seen.insert(n.as_str()) { dup += 1; } } dup * 100 + seen.len() as u64 }
pub fn j08(a: u64, b: u64) -> u64 { let q = names(a, b); let front = q.front().cloned().unwrap_or_default(); let back = q.back().map(|s| s.as_str()).unwrap_or(""); (front == back) as u64 + (front.len() + back.len()) as u64 * 10 }
// ---- index loops, conversions
pub fn j10(a: u64, b: u64) -> u64 { let v = seq(a, b); let mut i = 0usize; let mut n = 0u64; while i < v.len() { if v[i] % 2 == 0 { n += v[i] * i as u64; } i += 2; } n }
pub fn j11(a: u64, b: u64) -> u64 { let v = seq(a, b); let mut best = 0usize; for i in 1..v.len() { if v[i] < v[best] { best = i; } } best as u64 * 100 + v[best] }
pub fn j12(a: u64, b: u64) -> u64 { let v = seq(a, b); let total = v.len(); v.iter().enumerate().map(|(idx, x)| (total - idx) as u64 * x).min().unwrap_or(0) + v.iter().rev().enumerate().map(|(i, x)| i as u64 + x).max().unwrap_or(0) * 1000 }
pub fn j13(a: u64, b: u64) -> u64 { let x = (a % 300) as usize; let y: u32 = (b % 70000) as u32; let z = u64::from(y) + x as u64; let w: u8 = u8::try_from(a % 300).unwrap_or(255); let t: usize = (b % 9).try_into().unwrap(); z + w as u64 * 100000 + t as u64 * 100000000 }
pub fn j14(a: u64, b: u64) -> u64 { std::cmp::min(a % 13, b % 13) + std::cmp::max(a % 13, b % 13) * 100 + (a % 13).cmp(&(b % 13)) as i8 as i64 as u64 % 7 * 10000 }
pub fn j15(a: u64, b: u64) -> u64 { let (q, r) = ((a % 1000) / (b % 7 + 1), (a % 1000) % (b % 7 + 1)); let h = (a % 1000).checked_div(b % 2).unwrap_or(9999); q + r * 1000 + h * 10000 }
pub fn j16(a: u64, b: u64) -> u64 { let mut v: Vec<u64> = Vec::with_capacity(8); v.extend_from_slice(&[a % 3, b % 3]); v.resize(5, 7); if let Some(l) = v.last_mut() { *l = 1; } if let Some(f) = v.first_mut() { *f += 10; } if let Some(x) = v.get_mut(2) { *x = 2; } v.iter().fold(0, |acc, x| acc * 13 + x) }
pub fn j17(a: u64, b: u64) -> u64 { let mut v = seq(a, b); v.sort_unstable_by(|x, y| y.cmp(x)); let p = v.binary_search_by(|x| 9u64.cmp(x)).map_or(99, |i| i as u64); let d: Vec<u64> = v.drain(..).rev().collect(); p * 1000 + d[0] * 10 + d[6] + v.len() as u64 * 100000 }
pub fn j18(a: u64, b: u64) -> u64 { let v = seq(a, b); v.iter().skip(1).step_by(2).sum::<u64>() + v.iter().rev().skip(2).take(3).fold(0, |acc, x| acc * 10 + x) * 100 + v.iter().map(|x| *x as usize).sum::<usize>() as u64 * 100000 }
// ---- floats (values with exact binary representations)
pub fn j20(a: u64, b: u64) -> u64 { let x = fl(a); let y = fl(b); ((x * y + 0.25) * 4.0) as u64 + (x.max(y) * 2.0) as u64 * 1000 + (x.min(y) * 2.0) as u64 * 100000 }
pub fn j21(a: u64, b: u64) -> u64 { let x = fl(a); let y = fl(b) + 1.0; let r = (x / y).min(1.0); let c = (1.0 - r).max(0.0).clamp(0.0, 1.0); (c * 1024.0) as u64 + (x < y) as u64 * 10000 + (x.partial_cmp(&y) == Some(std::cmp::Ordering::Less)) as u64 * 100000 }
pub fn j22(a: u64, b: u64) -> u64 { let v: Vec<f64> = seq(a, b).iter().map(|x| *x as f64 * 0.5).collect(); let mut best = f64::MAX; let mut at = 0; for (i, s) in v.iter().enumerate() { if *s < best { best = *s; at = i; } } let m = v.iter().cloned().fold(f64::MIN, f64::max); at as u64 + (best * 2.0) as u64 * 10 + (m * 2.0) as u64 * 1000 }
pub fn j23(a: u64, b: u64) -> u64 { let v: Vec<(u64, f64)> = seq(a, b).into_iter().map(|x| (x, (x % 4) as f64)).collect(); let w = v.iter().min_by(|p, q| p.1.partial_cmp(&q.1).unwrap()).map(|p| p.0).unwrap_or(0); let z = v.iter().max_by(|p, q| p.1.total_cmp(&q.1)).map(|p| p.0).unwrap_or(0); w * 100 + z }
// ---- shared ownership, interior mutability, dyn
pub fn j30(a: u64, b: u64) -> u64 { let c = Rc::new(RefCell::new(seq(a, b))); let c2 = Rc::clone(&c); c2.borrow_mut().push(5); let n = c.borrow().len() as u64; let s: u64 = c.borrow().iter().sum(); drop(c2); n * 1000 + s }
pub fn j31(a: u64, b: u64) -> u64 { let m = Arc::new(Mutex::new(HashMap::<u64, u64>::new())); { let mut g = m.lock().unwrap(); g.insert(a % 5, b % 5); g.insert(9, 1); } let g = m.lock().unwrap(); g.get(&(a % 5)).copied().unwrap_or(0) + g.len() as u64 * 10 }
pub fn j32(a: u64, b: u64) -> u64 { let l = RwLock::new(dq(a, b)); let n = { let r = l.read().unwrap(); r.len() as u64 }; { let mut w = l.write().unwrap(); w.pop_front(); w.push_back(n); } let r = l.read().unwrap(); r.iter().fold(0, |acc, x| (acc * 7 + x) % 10007) }
pub fn j33(a: u64, b: u64) -> u64 { let fs: Vec<Box<dyn Fn(u64) -> u64>> = vec![Box::new(|x| x + 1), Box::new(move |x| x * (b % 5 + 1))]; fs.iter().fold(a % 9, |acc, f| f(acc)) }
pub fn j34(a: u64, b: u64) -> u64 { fn apply<F: FnMut(u64)>(mut f: F, n: u64) { for i in 0..n { f(i); } } let mut acc = Vec::new(); apply(|i| acc.push(i * (a % 3 + 1)), b % 5 + 1); acc.iter().sum::<u64>() + acc.len() as u64 * 100 }
pub fn j35(a: u64, b: u64) -> u64 { let p = parking_lot::Mutex::new(dq(a, b)); let q = parking_lot::RwLock::new(HashMap::<String, u64>::new()); { let mut o = p.lock(); let mut m = q.write(); while let Some(k) = o.pop_front() { m.insert(format!("k{}", k), k); if m.len() >= 3 { break; } } } let left = p.lock().len() as u64; let has = q.read().contains_key("k9") as u64; let n = q.read().len() as u64; left * 10 + has + n * 100 }
// ---- the library's own shapes: queue + map bookkeeping
pub fn j40(a: u64, b: u64) -> u64 { let mut order = names(a, b); let mut map: HashMap<String, u64> = order.iter().cloned().zip(seq(b, a)).collect(); let mut evicted = 0; while let Some(k) = order.pop_front() { if map.remove(&k).is_some() { evicted += 1; if evicted == 2 { break; } } } evicted * 1000 + order.len() as u64 * 10 + map.len() as u64 }
pub fn j41(a: u64, b: u64) -> u64 { let order = names(a, b); let map: HashMap<String, u64> = order.iter().cloned().zip(seq(b, a)).collect(); let mut min_k: Option<&String> = None; let mut min_f = u64::MAX; for k in order.iter() { if let Some(f) = map.get(k) { if *f < min_f { min_f = *f; min_k = Some(k); } } } min_k.map_or(0, |k| k.len() as u64) * 1000 + min_f }
pub fn j42(a: u64, b: u64) -> u64 { let mut order = names(a, b); let key = format!("n{}", (a + b) % 11); if let Some(pos) = order.iter().position(|k| *k == key) { order.remove(pos); } order.push_back(key.clone()); let dups = order.iter().filter(|k| **k == key).count() as u64; order.len() as u64 * 10 + dups }
pub fn j43(a: u64, b: u64) -> u64 { let mut map: HashMap<String, (u64, u64)> = names(a, b).into_iter().enumerate().map(|(i, n)| (n, (i as u64, (a + i as u64) % 5))).collect(); let doomed: Vec<String> = map.iter().filter(|(_, v)| v.1 == 0).map(|(k, _)| k.clone()).collect(); for k in &doomed { map.remove(k); } let total: u64 = map.values().map(|v| v.0).sum(); doomed.len() as u64 * 1000 + total + map.len() as u64 * 100 }
pub fn j44(a: u64, b: u64) -> u64 { let mut map: HashMap<String, u64> = HashMap::new(); let mut order: VecDeque<String> = VecDeque::new(); let limit = (a % 3 + 1) as usize; for x in seq(a, b) { let k = format!("k{}", x); if map.insert(k.clone(), x).is_none() { order.push_back(k); } else { let p = order.iter().position(|q| *q == k).unwrap(); let q = order.remove(p).unwrap(); order.push_back(q); } while order.len() > limit { if let Some(old) = order.pop_front() { map.remove(&old); } } } map.values().sum::<u64>() * 100 + order.len() as u64 * 10 + (map.len() == order.len()) as u64 }

macro_rules! table2 { ($($n:literal => $f:ident),* $(,)?) => {
    pub fn run2(n: u32, a: u64, b: u64) -> Option<u64> { match n { $($n => Some($f(a, b)),)* _ => run3(n, a, b) } }
} }
table2! { 201 => j01, 202 => j02, 203 => j03, 204 => j04, 205 => j05, 206 => j06, 207 => j07, 208 => j08, 210 => j10, 211 => j11, 212 => j12, 213 => j13, 214 => j14, 215 => j15, 216 => j16, 217 => j17, 218 => j18,
    220 => j20, 221 => j21, 222 => j22, 223 => j23, 230 => j30, 231 => j31, 232 => j32, 233 => j33, 234 => j34, 235 => j35, 240 => j40, 241 => j41, 242 => j42, 243 => j43, 244 => j44 }

// ======================================================================== third batch: state, dispatch, bits, time
use std::cell::Cell as StdCell;
use std::sync::atomic::{AtomicBool, AtomicU64, AtomicUsize, Ordering as AO};
use std::sync::{Once, OnceLock};
use std::time::Duration;

pub fn k01(a: u64, b: u64) -> u64 { let c = AtomicU64::new(a % 50 + 5); let p = c.fetch_add(b % 7, AO::Relaxed); let q = c.fetch_sub(1, AO::SeqCst); let o = c.swap(100, AO::AcqRel); c.store(c.load(AO::Acquire) + 1, AO::Release); let m = c.fetch_max(90, AO::Relaxed); p + q * 100 + o * 10000 + m * 1000000 + c.load(AO::Relaxed) * 100000000 }
pub fn k02(a: u64, b: u64) -> u64 { let f = AtomicBool::new(a % 2 == 0); let was = f.swap(true, AO::SeqCst); let r = f.compare_exchange(true, b % 2 == 0, AO::SeqCst, AO::SeqCst).is_ok(); let r2 = f.compare_exchange(true, false, AO::SeqCst, AO::Relaxed).is_ok(); was as u64 + r as u64 * 10 + r2 as u64 * 100 + f.load(AO::SeqCst) as u64 * 1000 }
pub fn k03(a: u64, b: u64) -> u64 { let n = AtomicUsize::new((a % 9) as usize); let r = n.compare_exchange((a % 9) as usize, 42, AO::SeqCst, AO::SeqCst); let e = n.compare_exchange(0, 1, AO::SeqCst, AO::SeqCst); let u = n.fetch_update(AO::SeqCst, AO::SeqCst, |x| if x > 40 { Some(x + (b % 3) as usize) } else { None }); r.unwrap_or(99) as u64 + e.unwrap_or_else(|x| x + 1) as u64 * 100 + u.is_ok() as u64 * 100000 + n.load(AO::SeqCst) as u64 * 1000000 }
pub fn k04(a: u64, b: u64) -> u64 { let c = StdCell::new(a % 11); let old = c.replace(b % 11); c.set(c.get() + 1); let t = c.take(); old + t * 100 + c.get() * 10000 }
pub fn k05(a: u64, b: u64) -> u64 { let r = RefCell::new(seq(a, b)); { let mut m = r.borrow_mut(); m.push(3); m[0] += 1; } let first = r.borrow()[0]; let blocked = { let _g = r.borrow(); r.try_borrow_mut().is_err() }; let old = r.replace(vec![1, 2]); let t = r.take(); let n = r.borrow().len() as u64; first + blocked as u64 * 100 + old.len() as u64 * 1000 + t.len() as u64 * 100000 + n * 1000000 }
thread_local! { static TL: RefCell<VecDeque<u64>> = RefCell::new(VecDeque::new()); static TC: StdCell<u64> = StdCell::new(5); }
pub fn k06(a: u64, b: u64) -> u64 { TL.with(|q| q.borrow_mut().clear()); TL.with(|q| { let mut q = q.borrow_mut(); q.push_back(a % 7); q.push_back(b % 7); }); let n = TL.with(|q| q.borrow().iter().sum::<u64>()); TL.with_borrow_mut(|q| q.push_front(9)); let f = TL.with_borrow(|q| q.front().copied().unwrap_or(0)); TC.set(a % 4); n + f * 100 + TC.get() * 10000 + TL.with(|q| q.borrow().len() as u64) * 100000 }
static INIT: Once = Once::new();
static SLOT: OnceLock<u64> = OnceLock::new();
static COUNT: AtomicU64 = AtomicU64::new(0);
static TABLE: once_cell::sync::Lazy<parking_lot::RwLock<HashMap<String, u64>>> = once_cell::sync::Lazy::new(|| parking_lot::RwLock::new(HashMap::new()));
pub fn k07(a: u64, b: u64) -> u64 { INIT.call_once(|| { COUNT.fetch_add(1, AO::SeqCst); }); INIT.call_once(|| { COUNT.fetch_add(10, AO::SeqCst); }); let v = *SLOT.get_or_init(|| 77); let w = *SLOT.get_or_init(|| 88); TABLE.write().insert(format!("t{}", a % 3), b % 9); let hit = TABLE.read().get(&format!("t{}", a % 3)).copied().unwrap_or(0); (COUNT.load(AO::SeqCst) >= 1) as u64 + v * 10 + w * 10000 + hit * 10000000 + INIT.is_completed() as u64 * 100000000 }
pub fn k08(a: u64, b: u64) -> u64 { let mut reg: HashMap<String, Arc<dyn Fn(&str) -> bool + Send + Sync>> = HashMap::new(); let want = format!("k{}", a % 5); let w2 = want.clone(); reg.insert("eq".to_string(), Arc::new(move |k: &str| k == w2)); reg.insert("any".to_string(), Arc::new(|_k: &str| true)); let keys: Vec<String> = (0..5).map(|i| format!("k{}", i)).collect(); let f = reg.get("eq").cloned(); let n = keys.iter().filter(|k| f.as_ref().map_or(false, |f| f(k.as_str()))).count() as u64; let all = reg.values().map(|f| keys.iter().filter(|k| f(k)).count() as u64).sum::<u64>(); n + all * 10 + reg.get("none").is_none() as u64 * 1000 }
pub fn k09(a: u64, b: u64) -> u64 { trait Shape { fn area(&self) -> u64; fn name(&self) -> &'static str { "shape" } } struct Sq(u64); struct Re(u64, u64); impl Shape for Sq { fn area(&self) -> u64 { self.0 * self.0 } fn name(&self) -> &'static str { "sq" } } impl Shape for Re { fn area(&self) -> u64 { self.0 * self.1 } } let v: Vec<Box<dyn Shape>> = vec![Box::new(Sq(a % 6)), Box::new(Re(a % 4, b % 4))]; v.iter().map(|s| s.area() + s.name().len() as u64 * 100).sum() }
pub fn k10(a: u64, b: u64) -> u64 { fn total<I: IntoIterator<Item = u64>>(it: I) -> u64 { it.into_iter().sum() } fn pick<T: PartialOrd + Copy>(x: T, y: T) -> T { if x < y { x } else { y } } total(seq(a, b)) + total([a % 3, b % 3]) * 100 + pick(a % 17, b % 17) * 10000 + total(dq(a, b).into_iter().filter(|x| x % 2 == 0)) * 1000000 }
pub fn k11(a: u64, b: u64) -> u64 { #[derive(Default, Clone, PartialEq, Debug)] struct Cfg { limit: Option<u64>, ttl: u64, name: String } let d = Cfg::default(); let c = Cfg { limit: Some(a % 5), ..d.clone() }; let e = Cfg { ttl: b % 3, name: "x".into(), ..c.clone() }; (c == d) as u64 + (e.limit == c.limit) as u64 * 10 + e.name.len() as u64 * 100 + c.limit.unwrap_or(9) * 1000 + (e != c) as u64 * 10000 }
pub fn k12(a: u64, b: u64) -> u64 { let s = if a % 3 == 0 { "fifo" } else if a % 3 == 1 { "lru" } else { "other" }; let p = match s { "fifo" => 0, "lru" => 1, _ => 9 }; let q = match (opt(a), res(b)) { (Some(x), Ok(y)) => x + y, (Some(x), Err(_)) => x * 2, (None, Ok(y)) => 50 + y, (None, Err(e)) => 90 + e }; p + q * 10 }
pub fn k13(a: u64, b: u64) -> u64 { let mut pair = (opt(a), vec![b % 5, 7]); if let (Some(ref mut x), ref mut v) = pair { *x += 1; v.push(*x); } let n = loop { if let Some(l) = pair.1.pop() { if l % 2 == 1 { break l; } } else { break 0; } }; n + pair.0.unwrap_or(40) * 100 + pair.1.len() as u64 * 10000 }
pub fn k14(a: u64, b: u64) -> u64 { let x = a as u128 * b as u128 + 7; let hi = (x >> 64) as u64; let lo = x as u64; let t = (a % 1000) as u8; let i = (a % 50) as i64 - (b % 50) as i64; ((lo ^ hi) % 1000) + t as u64 * 1000 + (i.abs() as u64) * 1000000 + ((i < 0) as u64) * 100000000 + ((a | 1) & 0xF0) + ((b % 16) << 3) * 1000000000 }
pub fn k15(a: u64, b: u64) -> u64 { let x = a % 64 + 1; x.count_ones() as u64 + x.leading_zeros() as u64 * 100 + x.trailing_zeros() as u64 * 10000 + x.next_power_of_two() * 1000000 + (x.wrapping_sub(100) % 7) * 1000000000 + x.is_power_of_two() as u64 * 10000000000 }
pub fn k16(a: u64, b: u64) -> u64 { let d = Duration::from_secs(a % 100) + Duration::from_millis(b % 5000); let e = d.checked_sub(Duration::from_secs(50)).unwrap_or(Duration::ZERO); d.as_secs() + d.subsec_millis() as u64 * 1000 + e.as_secs() * 10000000 + (d > Duration::from_secs(60)) as u64 * 1000000000 + (d.as_millis() as u64 % 7) * 10000000000 + (d.as_secs_f64() * 2.0) as u64 * 100000000000 }
pub fn k17(a: u64, b: u64) -> u64 { let v = seq(a, b); let inc = v.iter().zip(v.iter().skip(1)).filter(|(x, y)| x < y).count() as u64; let r: Vec<u64> = v.iter().copied().rev().collect(); let same = v.iter().eq(r.iter().rev()) as u64; inc + same * 10 + (v == r) as u64 * 100 + (v.iter().rev().nth(1).copied().unwrap_or(0)) * 1000 }
pub fn k18(a: u64, b: u64) -> u64 { let s = format!("k{}|{}", a % 100, b % 10); let n = s.chars().count() as u64; let up = s.to_uppercase(); let parts: Vec<&str> = s.split('|').collect(); let d = s.chars().filter(|c| c.is_ascii_digit()).count() as u64; n + (up == s.to_ascii_uppercase()) as u64 * 100 + parts.len() as u64 * 1000 + d * 10000 + parts[0].len() as u64 * 100000 + s.bytes().next().unwrap_or(0) as u64 * 1000000 }
pub fn k19(a: u64, b: u64) -> u64 { let l = parking_lot::Mutex::new(a % 9); let g = l.try_lock(); let blocked = l.try_lock().is_none(); drop(g); let free = l.try_lock().is_some(); let rw = parking_lot::RwLock::new(b % 9); let r1 = rw.read(); let r2 = rw.try_read().is_some(); let w = rw.try_write().is_none(); let v = *r1; drop(r1); let fin = *l.lock(); blocked as u64 + free as u64 * 10 + r2 as u64 * 100 + w as u64 * 1000 + v * 10000 + fin * 100000 }

macro_rules! table3 { ($($n:literal => $f:ident),* $(,)?) => {
    pub fn run3(n: u32, a: u64, b: u64) -> Option<u64> { match n { $($n => Some($f(a, b)),)* _ => run4(n, a, b) } }
} }
table3! { 301 => k01, 302 => k02, 303 => k03, 304 => k04, 305 => k05, 306 => k06, 307 => k07, 308 => k08, 309 => k09, 310 => k10, 311 => k11, 312 => k12, 313 => k13, 314 => k14, 315 => k15, 316 => k16, 317 => k17, 318 => k18, 319 => k19 }

// ======================================================================== fourth batch: paths used as functions, write!, misc
use std::fmt::Write as FmtWrite;
pub fn l01(a: u64, b: u64) -> u64 { let mut s = String::new(); write!(s, "{}|{:?}", a % 10, b % 10).unwrap(); write!(&mut s, "x").unwrap(); s.push('!'); let t = format!("{}|{}x!", a % 10, b % 10); (s == t) as u64 + s.len() as u64 * 10 }
pub fn l02(a: u64, b: u64) -> u64 { let f: fn() -> Vec<u64> = Vec::new; let mut v = f(); v.push(a % 5); let g: fn(u64, u64) -> u64 = std::cmp::max; v.len() as u64 + g(a % 9, b % 9) * 10 }
pub fn l03(a: u64, b: u64) -> u64 { let o: Option<u32> = if a % 2 == 0 { Some((b % 9) as u32) } else { None }; o.map(u64::from).unwrap_or_default() + opt(a).map(Some).flatten().unwrap_or(7) * 100 }
pub fn l04(a: u64, b: u64) -> u64 { let v: Vec<String> = seq(a, b).iter().map(ToString::to_string).collect(); let r: Vec<&str> = v.iter().map(String::as_str).collect(); let c: Vec<String> = v.iter().map(Clone::clone).collect(); r.len() as u64 + (c == v) as u64 * 10 + r.iter().filter(|x| **x == "9").count() as u64 * 100 }
pub fn l05(a: u64, b: u64) -> u64 { let rs = vec![res(a), res(b), res(a + b)]; let oks: Vec<u64> = rs.iter().cloned().filter_map(Result::ok).collect(); let errs = rs.iter().filter(|r| r.is_err()).count() as u64; let e: Option<Vec<u64>> = None; oks.iter().sum::<u64>() + errs * 100 + e.unwrap_or_else(Vec::new).len() as u64 * 1000 + rs.into_iter().map(Result::unwrap_or_default).sum::<u64>() * 10000 }
pub fn l06(a: u64, b: u64) -> u64 { static TAB: once_cell::sync::Lazy<parking_lot::Mutex<VecDeque<u64>>> = once_cell::sync::Lazy::new(Default::default); let mut g = TAB.lock(); g.clear(); g.push_back(a % 7); g.extend([b % 7, 3]); let n = g.len() as u64; let s: u64 = g.iter().sum(); n + s * 10 }
pub fn l07(a: u64, b: u64) -> u64 { let v = seq(a, b); let (ev, od): (Vec<u64>, Vec<u64>) = v.iter().partition(|x| **x % 2 == 0); let (xs, ys): (Vec<u64>, Vec<usize>) = v.iter().enumerate().map(|(i, x)| (*x, i)).unzip(); ev.len() as u64 + od.len() as u64 * 10 + xs.iter().sum::<u64>() * 100 + ys.iter().sum::<usize>() as u64 * 100000 }
pub fn l08(a: u64, b: u64) -> u64 { let q = names(a, b); let total: usize = q.iter().map(String::len).sum(); let longest = q.iter().map(|s| s.len()).max().unwrap_or(0); let joined = q.iter().map(|s| s.as_str()).collect::<Vec<_>>().join(","); total as u64 + longest as u64 * 100 + joined.len() as u64 * 1000 }
pub fn l09(a: u64, b: u64) -> u64 { let mut m: HashMap<u64, VecDeque<u64>> = HashMap::new(); for x in seq(a, b) { m.entry(x % 3).or_insert_with(VecDeque::new).push_back(x); } let mut ks: Vec<&u64> = m.keys().collect(); ks.sort_unstable(); let first = m.get(ks[0]).and_then(VecDeque::front).copied().unwrap_or(0); let tot: usize = m.values().map(VecDeque::len).sum(); first + tot as u64 * 10 + ks.len() as u64 * 1000 }
pub fn l10(a: u64, b: u64) -> u64 { let v = seq(a, b); let r = v.iter().try_fold(0u64, |acc, x| if *x == 9 { None } else { Some(acc + x) }); let s: Result<u64, u64> = v.iter().try_fold(0u64, |acc, x| if acc > 12 { Err(acc) } else { Ok(acc + x) }); r.unwrap_or(555) + match s { Ok(t) => t, Err(e) => 100 + e } * 1000 }

// ======================================================================== fifth batch
use std::borrow::Cow;
pub fn n01(a: u64, b: u64) -> u64 { seq(a, b).iter().scan(0u64, |acc, x| { *acc += x; if *acc > 25 { None } else { Some(*acc) } }).last().unwrap_or(0) + seq(a, b).iter().rposition(|x| *x > 3).map_or(90, |p| p as u64) * 100 }
pub fn n02(a: u64, b: u64) -> u64 { let v = seq(a, b); match v.as_slice() { [first, rest @ ..] => first * 100 + rest.len() as u64 + rest.iter().rev().skip_while(|x| **x < 5).count() as u64 * 10000, [] => 0 } }
pub fn n03(a: u64, b: u64) -> u64 { let v = seq(a, b); let found = 'outer: loop { for (i, x) in v.iter().enumerate() { for y in v.iter().skip(i + 1) { if x + y == 13 { break 'outer Some((i as u64, *y)); } } } break None; }; found.map_or(7777, |(i, y)| i * 100 + y) }
pub fn n04(a: u64, b: u64) -> u64 { let mut o: Option<String> = if a % 2 == 0 { Some(format!("v{}", b % 10)) } else { None }; let l = o.as_deref().map_or(0, str::len); if let Some(s) = o.as_mut() { s.push('x'); } let m: Option<&mut String> = o.as_mut(); let n = m.map(|s| { s.push('y'); s.len() }).unwrap_or(0); l as u64 + n as u64 * 10 + o.as_deref().unwrap_or("none").len() as u64 * 100 }
pub fn n05(a: u64, b: u64) -> u64 { fn label(x: u64) -> Cow<'static, str> { if x % 2 == 0 { Cow::Borrowed("even") } else { Cow::Owned(format!("odd{}", x)) } } let c = label(a % 10); let d = label(b % 10); c.len() as u64 + d.len() as u64 * 10 + (c == d) as u64 * 100 + c.into_owned().len() as u64 * 1000 }
pub fn n06(a: u64, b: u64) -> u64 { let mut q = dq(a, b); let mid: u64 = q.range(2..5).sum(); q.retain_mut(|x| { *x += 1; *x % 3 != 0 }); q.iter_mut().for_each(|x| *x *= 2); let head: Vec<u64> = q.drain(..q.len().min(2)).collect(); mid + q.len() as u64 * 100 + head.iter().sum::<u64>() * 1000 }
pub fn n07(a: u64, b: u64) -> u64 { let mut v = seq(a, b); v.dedup_by_key(|x| *x % 2); let n = v.len(); v.insert(n, 99); let ce: u64 = v.chunks_exact(2).map(|c| c[0] * c[1]).sum(); let fs: f64 = v.iter().map(|x| *x as f64 * 0.5).sum(); n as u64 + (ce % 1000) * 10 + (fs * 2.0) as u64 * 100000 }
pub fn n08(a: u64, b: u64) -> u64 { let mut m: HashMap<u64, u64> = seq(a, b).into_iter().enumerate().map(|(i, x)| (x, i as u64)).collect(); let top = m.values().copied().max().unwrap_or(0); let mut extra = HashMap::new(); extra.insert(100u64, 1u64); extra.insert(9, 50); m.extend(extra); let ks: u64 = m.clone().into_keys().sum(); let vs: u64 = m.clone().into_values().sum(); let drained: u64 = m.drain().map(|(k, v)| k + v).sum(); top + ks * 10 + vs * 10000 + (drained % 1000) * 10000000 + m.is_empty() as u64 * 10000000000 }
pub fn n09(a: u64, b: u64) -> u64 { struct Stack { items: Vec<u64>, cap: usize } impl Stack { fn push(&mut self, x: u64) -> Option<u64> { self.items.push(x); self.overflow() } fn overflow(&mut self) -> Option<u64> { (self.items.len() > self.cap).then(|| self.items.remove(0)) } fn top(&self) -> Option<&u64> { self.items.last() } } let mut st = Stack { items: vec![], cap: (a % 3 + 1) as usize }; let ev: Vec<u64> = seq(a, b).into_iter().filter_map(|x| st.push(x)).collect(); ev.len() as u64 + ev.iter().sum::<u64>() * 10 + st.top().copied().unwrap_or(0) * 10000 + st.items.len() as u64 * 100000 }
pub fn n10(a: u64, b: u64) -> u64 { trait Policy { fn pick(&self, q: &VecDeque<u64>) -> Option<usize>; } struct Front; struct Smallest; impl Policy for Front { fn pick(&self, q: &VecDeque<u64>) -> Option<usize> { (!q.is_empty()).then_some(0) } } impl Policy for Smallest { fn pick(&self, q: &VecDeque<u64>) -> Option<usize> { q.iter().enumerate().min_by_key(|(_, x)| **x).map(|(i, _)| i) } } fn evict(p: &dyn Policy, q: &mut VecDeque<u64>) -> Option<u64> { p.pick(q).and_then(|i| q.remove(i)) } let mut q = dq(a, b); let p: Box<dyn Policy> = if a % 2 == 0 { Box::new(Front) } else { Box::new(Smallest) }; let x = evict(p.as_ref(), &mut q); let y = evict(&Smallest, &mut q); x.unwrap_or(0) + y.unwrap_or(0) * 100 + q.len() as u64 * 10000 }
pub fn n11(a: u64, b: u64) -> u64 { fn with_entry<R>(m: &mut HashMap<String, u64>, k: &str, f: impl FnOnce(Option<&mut u64>) -> R) -> R { f(m.get_mut(k)) } let mut m: HashMap<String, u64> = HashMap::new(); m.insert("a".into(), a % 9); let r1 = with_entry(&mut m, "a", |e| e.map(|v| { *v += 1; *v }).unwrap_or(0)); let r2 = with_entry(&mut m, "zz", |e| e.is_none()); m.entry("a".to_string()).and_modify(|v| *v *= 2).or_insert(7); m.entry("b".to_string()).and_modify(|v| *v *= 2).or_insert(b % 5); r1 + r2 as u64 * 100 + m["a"] * 1000 + m["b"] * 100000 }
pub fn n12(a: u64, b: u64) -> u64 { let v = seq(a, b); let mut it = v.iter().peekable(); let mut groups = 0; let mut longest = 0; while let Some(x) = it.next() { let mut run = 1; while it.next_if(|y| **y >= *x).is_some() { run += 1; } groups += 1; longest = longest.max(run); } groups * 10 + longest }

// ======================================================================== sixth batch: shapes of larger refactorings
pub fn p01(a: u64, b: u64) -> u64 { struct Lowest<K> { best: Option<(K, u64)> } impl<K: Clone> Lowest<K> { fn new() -> Self { Lowest { best: None } } fn offer(&mut self, k: &K, score: u64) { if self.best.as_ref().map_or(true, |(_, s)| score < *s) { self.best = Some((k.clone(), score)); } } fn into_key(self) -> Option<K> { self.best.map(|(k, _)| k) } } fn lowest_by<K: Clone>(keys: &[K], score_of: impl Fn(usize, &K) -> u64) -> Option<K> { let mut l = Lowest::new(); for (i, k) in keys.iter().enumerate() { l.offer(k, score_of(i, k)); } l.into_key() } let ks = seq(a, b); let total = ks.len(); lowest_by(&ks, |i, k| (total - i) as u64 * (k % 4)).unwrap_or(99) + lowest_by(&ks, |_, k| *k).unwrap_or(0) * 100 }
pub fn p02(a: u64, b: u64) -> u64 { use std::ops::Deref; fn behind<P: Deref>(p: &P, f: impl Fn(&P::Target) -> u64) -> u64 { 8 + f(p.deref()) } let bx = Box::new(seq(a, b)); let rc = Rc::new((a % 7, b % 7)); let ar = Arc::new(format!("s{}", a % 100)); behind(&bx, |v| v.len() as u64) + behind(&rc, |t| t.0 + t.1) * 100 + behind(&ar, |s| s.len() as u64) * 10000 }
pub fn p03(a: u64, b: u64) -> u64 { trait Weigh { fn weigh(&self) -> usize; } impl Weigh for u64 { fn weigh(&self) -> usize { 8 } } impl Weigh for String { fn weigh(&self) -> usize { 24 + self.len() } } impl<T: Weigh> Weigh for Option<T> { fn weigh(&self) -> usize { 1 + self.as_ref().map_or(0, T::weigh) } } impl<T: Weigh> Weigh for Vec<T> { fn weigh(&self) -> usize { 24 + self.iter().map(T::weigh).sum::<usize>() } } let v: Vec<Option<String>> = vec![Some(format!("k{}", a % 10)), None, Some("xy".to_string())]; (v.weigh() + seq(a, b).weigh() * 1000 + opt(b).weigh() * 1000000) as u64 }
pub fn p04(a: u64, b: u64) -> u64 { fn admit<'a>(m: &'a parking_lot::Mutex<VecDeque<u64>>, x: u64) -> parking_lot::MutexGuard<'a, VecDeque<u64>> { let mut g = m.lock(); if let Some(p) = g.iter().position(|y| *y == x) { g.remove(p); } g.push_back(x); g } let m = parking_lot::Mutex::new(dq(a, b)); let n = { let mut g = admit(&m, 9); while g.len() > 4 { if g.pop_front().is_none() { break; } } g.len() as u64 }; let free = m.try_lock().is_some(); let last = m.lock().back().copied().unwrap_or(0); n + free as u64 * 10 + last * 100 }
pub fn p05(a: u64, b: u64) -> u64 { fn lookup(m: &HashMap<u64, (u64, u64)>, k: u64, now: u64) -> Result<u64, Option<u64>> { let e = m.get(&k).ok_or(None)?; if now - e.1 >= 3 { return Err(Some(e.1)); } Ok(e.0) } let m: HashMap<u64, (u64, u64)> = seq(a, b).into_iter().enumerate().map(|(i, x)| (x, (x * 2, i as u64))).collect(); let x = match lookup(&m, a % 7, 5) { Ok(v) => v, Err(None) => 100, Err(Some(t)) => 200 + t }; let y = match lookup(&m, 77, 5) { Ok(_) => 1, Err(None) => 2, Err(Some(_)) => 3 }; x + y * 1000 }
pub fn p06(a: u64, b: u64) -> u64 { #[derive(Clone, Copy, PartialEq)] enum Pol { Fifo, Lru, Lfu, Arc } trait Book { fn counts(&self) -> bool; fn tracks(&self) -> bool; fn of(n: u64) -> Self; } impl Book for Pol { fn counts(&self) -> bool { matches!(self, Pol::Lfu | Pol::Arc) } fn tracks(&self) -> bool { matches!(self, Pol::Lru | Pol::Arc) } fn of(n: u64) -> Self { [Pol::Fifo, Pol::Lru, Pol::Lfu, Pol::Arc][(n % 4) as usize] } } let p = Pol::of(a); let (r, f) = match p { Pol::Fifo => (false, false), Pol::Lru => (true, false), Pol::Lfu => (false, true), Pol::Arc => (true, true) }; (p.counts() == f) as u64 + (p.tracks() == r) as u64 * 10 + (Pol::of(b) == p) as u64 * 100 }
pub fn p07(a: u64, b: u64) -> u64 { let mut order = names(a, b); let doomed: Vec<String> = order.iter().filter(|k| k.ends_with('9') || k.ends_with('4')).cloned().collect(); let mut pending: HashSet<&str> = doomed.iter().map(String::as_str).collect(); order.retain(|k| !pending.remove(k.as_str())); order.len() as u64 * 10 + pending.len() as u64 + order.iter().filter(|k| doomed.contains(k)).count() as u64 * 100 }
pub fn p08(a: u64, b: u64) -> u64 { const TABLE: [(&str, u64); 4] = [("fifo", 0), ("lru", 1), ("lfu", 2), ("arc", 3)]; let name = ["lru", "ARC", "nope", "fifo"][(a % 4) as usize].to_lowercase(); let v = TABLE.iter().find(|(n, _)| *n == name).map_or(1, |(_, v)| *v); let ks = seq(a, b); let w: u64 = ks.iter().zip(1usize..).map(|(k, pos)| k * pos as u64).sum(); let first_big = ks.iter().zip(1u64..).find(|(k, _)| **k > 5).map_or(0, |(_, pos)| pos); v + w * 10 + first_big * 100000 }
pub fn p09(a: u64, b: u64) -> u64 { let v = seq(a, b); let r = v.iter().copied().reduce(|x, y| if y < x { y } else { x }).unwrap_or(0); let fm: u64 = v.iter().flat_map(|x| opt(*x)).sum(); let keep = opt(a).filter(|x| *x > 4).is_none(); let mut i = 0; let mut acc = 0; while i < v.len() { let step = { acc += v[i]; acc < 20 }; if !step { break; } i += 1; } r + fm * 10 + keep as u64 * 10000 + i as u64 * 100000 }
pub fn p10(a: u64, b: u64) -> u64 { #[derive(Debug)] enum Victim { Keyed(String), At(usize), Front } fn pick(q: &VecDeque<String>, mode: u64) -> Option<Victim> { match mode { 0 => (!q.is_empty()).then_some(Victim::Front), 1 => q.iter().position(|k| k.ends_with('9')).map(Victim::At), _ => q.iter().min().cloned().map(Victim::Keyed) } } fn evict(v: Victim, q: &mut VecDeque<String>) -> bool { match v { Victim::Front => q.pop_front().is_some(), Victim::At(i) if i < q.len() => q.remove(i).is_some(), Victim::At(_) => false, Victim::Keyed(k) => { let n = q.len(); q.retain(|x| *x != k); q.len() < n } } } let mut q = names(a, b); let done = pick(&q, a % 3).map_or(false, |v| evict(v, &mut q)); let again = loop { match pick(&q, 1) { Some(v) => { if !evict(v, &mut q) { break false; } } None => break true } }; done as u64 + again as u64 * 10 + q.len() as u64 * 100 }
pub fn p11(a: u64, b: u64) -> u64 { fn lowest<S: PartialOrd + Copy, T>(items: &[T], ceiling: S, score: impl Fn(usize, &T) -> S) -> Option<usize> { let mut best = ceiling; let mut at = None; for (i, x) in items.iter().enumerate() { let s = score(i, x); if s < best { best = s; at = Some(i); } } at } fn same<T: PartialEq>(x: &T, y: &T) -> bool { x == y } fn smaller<T: Ord>(x: T, y: T) -> T { x.min(y) } let v = seq(a, b); let i1 = lowest(&v, u64::MAX, |_, x| *x).unwrap_or(9); let i2 = lowest(&v, f64::MAX, |i, x| *x as f64 * (i + 1) as f64).unwrap_or(9); let i3 = lowest(&v, 0u64, |_, x| *x); i1 as u64 + i2 as u64 * 10 + i3.is_none() as u64 * 100 + same(&v[0], &v[3]) as u64 * 1000 + smaller(a % 9, b % 9) * 10000 + same(&format!("k{}", a % 3), &"k1".to_string()) as u64 * 100000 }

// ======================================================================== seventh batch: async shapes (polled to completion by a local executor)
fn block_on<F: std::future::Future>(f: F) -> F::Output { let mut f = Box::pin(f); let w = std::task::Waker::noop(); let mut cx = std::task::Context::from_waker(&w); loop { if let std::task::Poll::Ready(v) = f.as_mut().poll(&mut cx) { return v; } } }
async fn twice(x: u64) -> u64 { x * 2 }
async fn maybe(x: u64) -> Option<u64> { if x % 3 == 0 { None } else { Some(x + 1) } }
async fn fallible(x: u64) -> Result<u64, u64> { if x % 4 == 0 { Err(x) } else { Ok(x * 3) } }
pub fn q01(a: u64, b: u64) -> u64 { block_on(async { let x = twice(a % 10).await; let y = async { twice(b % 10).await + 1 }.await; x + y * 100 }) }
pub fn q02(a: u64, b: u64) -> u64 { block_on(async move { let key = format!("k{}", a % 5); let inner = async move { (key.len() as u64, maybe(b % 7).await) }; let (n, o) = inner.await; n + o.unwrap_or(50) * 10 }) }
pub fn q03(a: u64, b: u64) -> u64 { block_on(async { let r = std::future::ready(a % 9).await; let mut total = r; for i in 0..(b % 4) { total += twice(i).await; } total }) }
pub fn q04(a: u64, b: u64) -> u64 { async fn run(a: u64, b: u64) -> Result<u64, u64> { let x = fallible(a % 8).await?; let y = fallible(b % 8 + 1).await.unwrap_or(7); Ok(x + y) } match block_on(run(a, b)) { Ok(v) => v, Err(e) => 1000 + e } }
pub fn q05(a: u64, b: u64) -> u64 { let cache: parking_lot::Mutex<HashMap<u64, u64>> = parking_lot::Mutex::new(HashMap::new()); let get = |k: u64| cache.lock().get(&k).copied(); let fut = async { let k = a % 6; if let Some(v) = get(k) { return v; } let v = twice(k).await; cache.lock().insert(k, v); let again = get(k).unwrap_or(0); v + again * 100 }; let r = block_on(fut); let n = cache.lock().len() as u64; r + n * 10000 }
pub fn q06(a: u64, b: u64) -> u64 { let f = |x: u64| async move { twice(x).await + b % 3 }; block_on(async { let p = f(a % 5).await; let q = f(p).await; p + q * 100 }) }
pub fn p12(a: u64, b: u64) -> u64 { trait W { fn w(&self) -> u64; fn dflt(&self) -> u64 { 3 } } impl W for u64 { fn w(&self) -> u64 { *self + 1 } } impl W for String { fn w(&self) -> u64 { self.len() as u64 } fn dflt(&self) -> u64 { 4 } } fn behind<P>(p: &P) -> u64 where P: std::ops::Deref, P::Target: W { std::mem::size_of::<P>() as u64 + (**p).w() * 10 + p.dflt() * 1000 } behind(&Box::new(a % 9)) + behind(&Rc::new(format!("x{}", b % 10))) * 10000 + behind(&Arc::new(7u64)) * 100000000 }

macro_rules! table4 { ($($n:literal => $f:ident),* $(,)?) => {
    pub fn run4(n: u32, a: u64, b: u64) -> Option<u64> { match n { $($n => Some($f(a, b)),)* _ => None } }
} }
table4! { 401 => l01, 402 => l02, 403 => l03, 404 => l04, 405 => l05, 406 => l06, 407 => l07, 408 => l08, 409 => l09, 410 => l10, 501 => n01, 502 => n02, 503 => n03, 504 => n04, 505 => n05, 506 => n06, 507 => n07, 508 => n08, 509 => n09, 510 => n10, 511 => n11, 512 => n12, 601 => p01, 602 => p02, 603 => p03, 604 => p04, 605 => p05, 606 => p06, 607 => p07, 608 => p08, 609 => p09, 610 => p10, 611 => p11, 612 => p12, 701 => q01, 702 => q02, 703 => q03, 704 => q04, 705 => q05, 706 => q06 }
