"""MemoryEstimator VCs (C05, size clause): the real `estimate_memory` impls of String, &str, Vec<T>, Option<T>, Result<T,E>,
tuples, Box<T>, Arc<T>, Rc<T>, &[T] and CacheEntry<R> are executed on symbolic values.  Element types are abstract: their own estimate is
an uninterpreted size(v) >= size_of::<T>() (the trait's contract: an estimate includes the inline size).  Claim: the
estimate equals the inline size of the value plus the heap capacity it owns (recursively), and no arithmetic panics."""
import time, re
import z3
from .engine import (Interp, Ctx, Agg, Cell, Ref, Str, SeqM, explore, run_single, Unsupported, Panic, is_conc, is_z3, simp, b_and)

CASES = ['String', '&str', 'Vec', 'Option_some', 'Option_none', 'Result_ok', 'Result_err', 'tuple2', 'tuple3', 'Box', 'Arc', 'Rc', 'slice', 'CacheEntry']


def find_impl(P, tyname, extra=None):
    c = [f for f in P.methods.get((tyname, 'estimate_memory'), [])]
    if extra: c = [f for f in c if extra in f.locals[f.args[0]].ty]
    if len(c) != 1: raise Unsupported(f'estimate_memory impl for {tyname}: {len(c)} candidates')
    return c[0]


def run(P, item):
    case = item['case']; props = set(item['props']); nel = item.get('n', 2)
    res = dict(paths=0, claims=0, failed=[], classes=set(), funcs=set(), builtins=set())

    def run_path(ctx):
        I = Interp(P)
        SIZE = z3.Function('size', z3.IntSort(), z3.IntSort())
        def elem(name, tparam):
            v = z3.Int(name); szT = I.size_of(ctx, tparam)
            ctx.add(z3.And(SIZE(v) >= szT, SIZE(v) <= 2 ** 40))
            return v, SIZE(v) - szT
        if case == 'String':
            s_ = Str(z3.Int('s')); s_.cap = ctx.fresh_int('cap', 0, 2 ** 40)
            f = find_impl(P, 'String'); r = run_single(ctx, I.call_fn(ctx, f, [Ref(Cell(s_, 's'))]))
            return r, 24 + s_.cap
        if case == '&str':
            s_ = Str(z3.Int('s')); f = find_impl(P, 'str')
            r = run_single(ctx, I.call_fn(ctx, f, [Ref(Cell(Ref(Cell(s_, 's')), 'r'))]))
            from .builtins import _strlen
            return r, 16 + _strlen(ctx, s_)
        if case in ('Vec', 'slice'):
            els = [elem(f'e{i}', 'T') for i in range(nel)]
            v = SeqM([e for e, h in els]); v.cap = ctx.fresh_int('vcap', nel, 2 ** 30)
            szT = I.size_of(ctx, 'T')
            heap = 0
            for e, h in els: heap = heap + h
            if case == 'Vec':
                f = find_impl(P, 'Vec'); r = run_single(ctx, I.call_fn(ctx, f, [Ref(Cell(v, 'v'))]))
                return r, 24 + v.cap * szT + heap
            f = find_impl(P, 'slice'); r = run_single(ctx, I.call_fn(ctx, f, [Ref(Cell(Ref(Cell(v, 'v')), 'r'))]))
            tot = 16
            for e, h in els: tot = tot + SIZE(e)
            return r, tot
        if case.startswith('Option'):
            f = find_impl(P, 'Option'); so = I.size_of(ctx, 'std::option::Option<T>')
            if case == 'Option_none': return run_single(ctx, I.call_fn(ctx, f, [Ref(Cell(Agg('Option', 0, []), 'o'))])), so
            e, h = elem('e', 'T'); return run_single(ctx, I.call_fn(ctx, f, [Ref(Cell(Agg('Option', 1, [e]), 'o'))])), so + h
        if case.startswith('Result'):
            f = find_impl(P, 'Result'); so = I.size_of(ctx, 'std::result::Result<T, E>')
            if case == 'Result_ok':
                e, h = elem('e', 'T'); return run_single(ctx, I.call_fn(ctx, f, [Ref(Cell(Agg('Result', 0, [e]), 'o'))])), so + h
            e, h = elem('e', 'E'); return run_single(ctx, I.call_fn(ctx, f, [Ref(Cell(Agg('Result', 1, [e]), 'o'))])), so + h
        if case in ('tuple2', 'tuple3'):
            k = 2 if case == 'tuple2' else 3
            f = find_impl(P, 'tuple%d' % k); names = ['T1', 'T2', 'T3'][:k]
            els = [elem(f'e{i}', names[i]) for i in range(k)]
            so = I.size_of(ctx, '(' + ', '.join(names) + ')')
            tot = so
            for e, h in els: tot = tot + h
            return run_single(ctx, I.call_fn(ctx, f, [Ref(Cell(Agg('tuple', 0, [e for e, h in els]), 't'))])), tot
        if case in ('Box', 'Arc', 'Rc'):
            f = find_impl(P, case); e = z3.Int('e'); ctx.add(z3.And(SIZE(e) >= 0, SIZE(e) <= 2 ** 40))
            return run_single(ctx, I.call_fn(ctx, f, [Ref(Cell(Agg(case, 0, [Ref(Cell(e, 'heap'))]), 'b'))])), 8 + SIZE(e)
        if case == 'CacheEntry':
            from .models import struct_fields
            from .engine import Instant
            f = find_impl(P, 'CacheEntry'); e, h = elem('e', 'R'); flds = struct_fields(P, 'CacheEntry')
            d = {'value': e, 'inserted_at': Instant(z3.Int('t')), 'frequency': z3.Int('fq')}
            so = I.size_of(ctx, 'cache_entry::CacheEntry<R>')
            return run_single(ctx, I.call_fn(ctx, f, [Ref(Cell(Agg('CacheEntry', 0, [d[x] for x in flds]), 'ce'))])), None
        raise Unsupported('estimator case ' + case)

    outs, st = explore(run_path, seed=item.get('seed', 0))
    for o in outs:
        ctx = o.ctx; res['paths'] += 1; res['funcs'] |= ctx.funcs_used; res['builtins'] |= ctx.builtins_used
        if o.status == 'panic':
            res['failed'].append(dict(prop='C05', clause='estimating a value whose components respect the estimator contract does not panic', kind='est', msg=str(o.res), cfg='EST/' + case, op='estimate_memory', witness=dict(case=case, static=True)))
            continue
        r, want = o.res
        res['classes'].add('est/' + case)
        if want is None: continue
        res['claims'] += 1
        okk, model = ctx.prove(simp(r == want))
        if not okk:
            res['failed'].append(dict(prop='C05', clause='estimate = inline size + owned heap capacity (recursively)', kind='est', cfg='EST/' + case, op='estimate_memory',
                                      witness=dict(case=case, got=str(simp(r)), want=str(simp(want)), static=True)))
    return dict(paths=res['paths'], claims=res['claims'], failed=res['failed'], classes=sorted(res['classes']), funcs=sorted(res['funcs']), builtins=sorted(res['builtins']),
                checks=st['checks'], solver_s=st['solver_s'], blocks=st['blocks'], infeasible=st['infeasible'], tag=f"EST {case} n={nel}")


def replay(f, w):
    """estimator formulas are checked natively on concrete values of each shape"""
    from . import replay as R
    outs, err = R.run_scenarios('scenario subj\nestimators\nend\n')
    lines = outs[0] if outs else []
    bad = [l for l in lines if l.startswith('est ') and l.split()[1].lower().startswith(w['case'].split('_')[0].lower().replace('&', '')) and l.split()[-1] != 'ok']
    if bad: return True, 'native estimate deviates from inline size + owned capacity: ' + '; '.join(bad), lines
    return False, 'native estimates of the sampled values agree with inline size + owned capacity (' + str(len([l for l in lines if l.startswith("est ")])) + ' samples)', lines
