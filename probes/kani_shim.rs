//! verification shims: association-list HashMap, flag-based locks, simple Lazy
use std::borrow::Borrow;
use std::cell::{Cell, UnsafeCell};
use std::ops::{Deref, DerefMut};

pub struct HashMap<K, V> {
    pub items: Vec<(K, V)>,
}
impl<K: Eq, V> HashMap<K, V> {
    pub fn new() -> Self { Self { items: Vec::new() } }
    fn pos<Q: ?Sized + Eq>(&self, k: &Q) -> Option<usize> where K: Borrow<Q> {
        let mut i = 0;
        while i < self.items.len() {
            if self.items[i].0.borrow() == k { return Some(i); }
            i += 1;
        }
        None
    }
    pub fn get<Q: ?Sized + Eq>(&self, k: &Q) -> Option<&V> where K: Borrow<Q> {
        match self.pos(k) { Some(i) => Some(&self.items[i].1), None => None }
    }
    pub fn get_mut<Q: ?Sized + Eq>(&mut self, k: &Q) -> Option<&mut V> where K: Borrow<Q> {
        match self.pos(k) { Some(i) => Some(&mut self.items[i].1), None => None }
    }
    pub fn contains_key<Q: ?Sized + Eq>(&self, k: &Q) -> bool where K: Borrow<Q> { self.pos(k).is_some() }
    pub fn insert(&mut self, k: K, v: V) -> Option<V> {
        match self.pos(&k) {
            Some(i) => Some(std::mem::replace(&mut self.items[i].1, v)),
            None => { self.items.push((k, v)); None }
        }
    }
    pub fn remove<Q: ?Sized + Eq>(&mut self, k: &Q) -> Option<V> where K: Borrow<Q> {
        match self.pos(k) { Some(i) => Some(self.items.remove(i).1), None => None }
    }
    pub fn values(&self) -> impl Iterator<Item = &V> { self.items.iter().map(|kv| &kv.1) }
    pub fn keys(&self) -> impl Iterator<Item = &K> { self.items.iter().map(|kv| &kv.0) }
    pub fn clear(&mut self) { self.items.clear() }
    pub fn len(&self) -> usize { self.items.len() }
}

pub struct Mutex<T> { locked: Cell<bool>, v: UnsafeCell<T> }
unsafe impl<T> Sync for Mutex<T> {}
pub struct MutexGuard<'a, T> { m: &'a Mutex<T> }
impl<T> Mutex<T> {
    pub const fn new(v: T) -> Self { Self { locked: Cell::new(false), v: UnsafeCell::new(v) } }
    pub fn lock(&self) -> MutexGuard<'_, T> {
        assert!(!self.locked.get(), "self-deadlock: mutex relocked");
        self.locked.set(true);
        MutexGuard { m: self }
    }
}
impl<'a, T> Deref for MutexGuard<'a, T> { type Target = T; fn deref(&self) -> &T { unsafe { &*self.m.v.get() } } }
impl<'a, T> DerefMut for MutexGuard<'a, T> { fn deref_mut(&mut self) -> &mut T { unsafe { &mut *self.m.v.get() } } }
impl<'a, T> Drop for MutexGuard<'a, T> { fn drop(&mut self) { self.m.locked.set(false) } }

pub struct RwLock<T> { state: Cell<isize>, v: UnsafeCell<T> }
unsafe impl<T> Sync for RwLock<T> {}
pub struct RwLockReadGuard<'a, T> { m: &'a RwLock<T> }
pub struct RwLockWriteGuard<'a, T> { m: &'a RwLock<T> }
impl<T> RwLock<T> {
    pub const fn new(v: T) -> Self { Self { state: Cell::new(0), v: UnsafeCell::new(v) } }
    pub fn read(&self) -> RwLockReadGuard<'_, T> { assert!(self.state.get() >= 0, "self-deadlock: read under write"); self.state.set(self.state.get() + 1); RwLockReadGuard { m: self } }
    pub fn write(&self) -> RwLockWriteGuard<'_, T> { assert!(self.state.get() == 0, "self-deadlock: write under lock"); self.state.set(-1); RwLockWriteGuard { m: self } }
}
impl<'a, T> Deref for RwLockReadGuard<'a, T> { type Target = T; fn deref(&self) -> &T { unsafe { &*self.m.v.get() } } }
impl<'a, T> Drop for RwLockReadGuard<'a, T> { fn drop(&mut self) { self.m.state.set(self.m.state.get() - 1) } }
impl<'a, T> Deref for RwLockWriteGuard<'a, T> { type Target = T; fn deref(&self) -> &T { unsafe { &*self.m.v.get() } } }
impl<'a, T> DerefMut for RwLockWriteGuard<'a, T> { fn deref_mut(&mut self) -> &mut T { unsafe { &mut *self.m.v.get() } } }
impl<'a, T> Drop for RwLockWriteGuard<'a, T> { fn drop(&mut self) { self.m.state.set(0) } }

pub struct Lazy<T> { cell: UnsafeCell<Option<T>>, init: fn() -> T }
unsafe impl<T> Sync for Lazy<T> {}
impl<T> Lazy<T> {
    pub const fn new(init: fn() -> T) -> Self { Self { cell: UnsafeCell::new(None), init } }
}
impl<T> Deref for Lazy<T> {
    type Target = T;
    fn deref(&self) -> &T {
        unsafe {
            let c = &mut *self.cell.get();
            if c.is_none() { *c = Some((self.init)()); }
            c.as_ref().unwrap()
        }
    }
}
