//! Replay of wrapper-level scenarios: calls the decorated subjects (vsubjects) natively with a scripted
//! environment, on chosen threads, with manual polling of async calls, invalidations and statistics queries.
use std::collections::HashMap;
use std::future::Future;
use std::pin::Pin;
use std::sync::mpsc::{channel, Sender};
use std::sync::{Arc, Mutex};
use std::task::{Context, Poll, RawWaker, RawWakerVTable, Waker};
use vsubjects::env;

fn noop_raw() -> RawWaker {
    fn clone(_: *const ()) -> RawWaker {
        noop_raw()
    }
    fn noop(_: *const ()) {}
    static VT: RawWakerVTable = RawWakerVTable::new(clone, noop, noop, noop);
    RawWaker::new(std::ptr::null(), &VT)
}
fn waker() -> Waker {
    unsafe { Waker::from_raw(noop_raw()) }
}

type Fut = Pin<Box<dyn Future<Output = Option<String>>>>;

fn block_on(mut f: Fut) -> Option<String> {
    let w = waker();
    let mut cx = Context::from_waker(&w);
    for _ in 0..10_000 {
        if let Poll::Ready(v) = f.as_mut().poll(&mut cx) {
            return v;
        }
    }
    Some("<never ready>".into())
}

fn do_call(name: &str, recv: u64, a: &[u64]) -> String {
    let r = if vsubjects::is_async(name) {
        block_on(Box::pin(vsubjects::call_async(unsafe { std::mem::transmute::<&str, &'static str>(name) }, recv, a.to_vec())))
    } else {
        vsubjects::call_sync(name, recv, a)
    };
    r.unwrap_or_else(|| "<unknown subject>".into())
}

type Job = Box<dyn FnOnce() -> String + Send>;

pub fn run(lines: &[String]) -> Vec<String> {
    let mut out = Vec::new();
    env::reset();
    let mut workers: HashMap<u64, Sender<(Job, Sender<String>)>> = HashMap::new();
    let mut slots: HashMap<u64, Fut> = HashMap::new();
    let mut logpos = 0usize;
    let mut conc_progs: Vec<(usize, Vec<Vec<String>>)> = Vec::new();
    let mut conc_sched: Vec<crate::sched::Ev> = Vec::new();
    for line in lines {
        let t: Vec<&str> = line.split_whitespace().collect();
        if t.is_empty() {
            continue;
        }
        match t[0] {
            "script" => {
                let id: u32 = t[2].parse().unwrap();
                let vals: Vec<u64> = t[3..].iter().map(|x| x.parse().unwrap()).collect();
                env::with(|s| match t[1] {
                    "vals" => s.vals.entry(id).or_default().extend(vals.iter().cloned()),
                    "oks" => s.oks.entry(id).or_default().extend(vals.iter().map(|v| *v != 0)),
                    "preds" => s.preds.entry(id).or_default().extend(vals.iter().map(|v| *v != 0)),
                    "stales" => s.stales.entry(id).or_default().extend(vals.iter().map(|v| *v != 0)),
                    "caps" => s.caps.entry(id).or_default().extend(vals.iter().map(|v| *v as usize)),
                    "pendings" => {
                        s.pendings.insert(id, vals[0] as u32);
                    }
                    _ => {}
                });
            }
            "call" => {
                let tid: u64 = t[1].parse().unwrap();
                let name = t[2].to_string();
                let recv: u64 = t[3].parse().unwrap();
                let a: Vec<u64> = t[4..].iter().map(|x| x.parse().unwrap()).collect();
                let r = if tid == 0 {
                    match std::panic::catch_unwind(|| do_call(&name, recv, &a)) {
                        Ok(r) => r,
                        Err(e) => format!(
                            "<panic {}>",
                            e.downcast_ref::<String>().cloned().or_else(|| e.downcast_ref::<&str>().map(|s| s.to_string())).unwrap_or_default().replace('\n', " ")
                        ),
                    }
                } else {
                    let tx = workers.entry(tid).or_insert_with(|| {
                        let (tx, rx) = channel::<(Job, Sender<String>)>();
                        std::thread::spawn(move || {
                            for (job, back) in rx {
                                let r = std::panic::catch_unwind(std::panic::AssertUnwindSafe(job)).unwrap_or_else(|_| "<panic>".into());
                                let _ = back.send(r);
                            }
                        });
                        tx
                    });
                    let (btx, brx) = channel();
                    let n2 = name.clone();
                    tx.send((Box::new(move || do_call(&n2, recv, &a)), btx)).unwrap();
                    brx.recv().unwrap_or_else(|_| "<worker died>".into())
                };
                out.push(format!("ret {}", r));
                out.push(format!("execs {}", env::execs()));
            }
            "callk" => {
                let name = t[2].to_string();
                let a: Vec<String> = t[3..].iter().map(|x| x.to_string()).collect();
                let r = if vsubjects::is_async(&name) {
                    block_on(Box::pin(vsubjects::callk_async(Box::leak(name.clone().into_boxed_str()), a)))
                } else {
                    vsubjects::callk_sync(&name, &a)
                };
                out.push(format!("ret {}", r.unwrap_or_else(|| "<unknown subject or argument>".into())));
                out.push(format!("execs {}", env::execs()));
            }
            "spawn" => {
                let slot: u64 = t[1].parse().unwrap();
                let name: &'static str = Box::leak(t[2].to_string().into_boxed_str());
                let recv: u64 = t[3].parse().unwrap();
                let a: Vec<u64> = t[4..].iter().map(|x| x.parse().unwrap()).collect();
                slots.insert(slot, Box::pin(vsubjects::call_async(name, recv, a)));
                out.push("spawned".into());
            }
            "poll" => {
                let slot: u64 = t[1].parse().unwrap();
                let w = waker();
                let mut cx = Context::from_waker(&w);
                match slots.get_mut(&slot) {
                    Some(f) => match f.as_mut().poll(&mut cx) {
                        Poll::Ready(v) => {
                            out.push(format!("poll ready {}", v.unwrap_or_default()));
                            slots.remove(&slot);
                        }
                        Poll::Pending => out.push("poll pending".into()),
                    },
                    None => out.push("poll noslot".into()),
                }
                out.push(format!("execs {}", env::execs()));
            }
            "drop" => {
                let slot: u64 = t[1].parse().unwrap();
                slots.remove(&slot);
                out.push("dropped".into());
            }
            "sleep_ms" => std::thread::sleep(std::time::Duration::from_millis(t[1].parse().unwrap())),
            "idiom" => {
                // idiom <n> <a> <b>: one function of the std-model conformance corpus (vsubjects::idioms)
                let (n, a, b): (u32, u64, u64) = (t[1].parse().unwrap(), t[2].parse().unwrap(), t[3].parse().unwrap());
                match std::panic::catch_unwind(|| vsubjects::idioms::run(n, a, b)) {
                    Ok(Some(v)) => out.push(format!("idiom {} {} {} = {}", n, a, b, v)),
                    Ok(None) => out.push(format!("idiom {} {} {} = none", n, a, b)),
                    Err(_) => out.push(format!("idiom {} {} {} = panic", n, a, b)),
                }
            }
            "reg" => {
                // user code announcing a cache through the public registry API: reg <cache> <tags|-> <events|-> <deps|->
                let v = |x: &str| -> Vec<String> { if x == "-" { vec![] } else { x.split(',').map(|y| y.to_string()).collect() } };
                cachelito_core::InvalidationRegistry::global().register(t[1], cachelito_core::InvalidationMetadata::new(v(t[2]), v(t[3]), v(t[4])));
            }
            "inv_tag" => out.push(format!("inv {}", cachelito_core::invalidate_by_tag(t[1]))),
            "inv_event" => out.push(format!("inv {}", cachelito_core::invalidate_by_event(t[1]))),
            "inv_dep" => out.push(format!("inv {}", cachelito_core::invalidate_by_dependency(t[1]))),
            "inv_cache" => out.push(format!("inv {}", cachelito_core::invalidate_cache(t[1]))),
            "inv_with" => {
                let keys: Vec<String> = t[2..].iter().map(|x| x.replace("%20", " ")).collect();
                out.push(format!("inv {}", cachelito_core::invalidate_with(t[1], |k| keys.iter().any(|x| x == k))));
            }
            "inv_all_with" => {
                let pairs: Vec<(String, String)> = t[1..].iter().map(|x| { let mut p = x.splitn(2, ':'); (p.next().unwrap().to_string(), p.next().unwrap_or("").replace("%20", " ")) }).collect();
                out.push(format!("inv {}", cachelito_core::invalidate_all_with(|c, k| pairs.iter().any(|(pc, pk)| pc == c && pk == k))));
            }
            "keys" => {
                let seen = Arc::new(Mutex::new(Vec::<String>::new()));
                let s2 = seen.clone();
                let r = cachelito_core::invalidate_with(t[1], move |k| {
                    s2.lock().unwrap().push(k.to_string());
                    false
                });
                let mut ks = seen.lock().unwrap().clone();
                ks.sort();
                out.push(format!("keys {} {}", r, ks.iter().map(|k| k.replace(' ', "%20")).collect::<Vec<_>>().join(" ")));
            }
            "stats" => match cachelito_core::stats_registry::get(t[1]) {
                Some(s) => out.push(format!("stats {} {}", s.hits(), s.misses())),
                None => out.push("stats none".into()),
            },
            "stats_reset" => out.push(format!("reset {}", cachelito_core::stats_registry::reset(t[1]))),
            "log" => {
                let log = env::with(|s| s.log.clone());
                for e in &log[logpos..] {
                    match e {
                        env::Ev::Exec(id, a) => out.push(format!("ev exec {} {}", id, a.iter().map(|x| x.to_string()).collect::<Vec<_>>().join(" "))),
                        env::Ev::Pred(id, k, v, b) => out.push(format!("ev pred {} {} {} {}", id, k.replace(' ', "%20"), v.replace(' ', "%20"), *b as u8)),
                        env::Ev::Stale(id, k, v, b) => out.push(format!("ev stale {} {} {} {}", id, k.replace(' ', "%20"), v.replace(' ', "%20"), *b as u8)),
                    }
                }
                logpos = log.len();
            }
            "execs" => out.push(format!("execs {}", env::execs())),
            "estimators" => {
                use cachelito_core::MemoryEstimator as ME;
                let mut chk = |name: &str, got: usize, want: usize| out.push(format!("est {} {} {} {}", name, got, want, if got == want { "ok" } else { "BAD" }));
                let mut s1 = String::with_capacity(37); s1.push_str("ab");
                chk("string", s1.estimate_memory(), 24 + s1.capacity());
                let mut v: Vec<u32> = Vec::with_capacity(10); v.extend([1, 2, 3]);
                chk("vec_u32", v.estimate_memory(), 24 + v.capacity() * 4);
                let mut vs: Vec<String> = Vec::with_capacity(5); vs.push(String::with_capacity(11)); vs.push(String::with_capacity(3));
                chk("vec_string", vs.estimate_memory(), 24 + vs.capacity() * 24 + vs.iter().map(|x| x.capacity()).sum::<usize>());
                let os: Option<String> = Some(String::with_capacity(9));
                chk("option_some", os.estimate_memory(), std::mem::size_of::<Option<String>>() + 9usize.max(os.as_ref().unwrap().capacity()));
                let on: Option<String> = None;
                chk("option_none", on.estimate_memory(), std::mem::size_of::<Option<String>>());
                let ro: Result<String, u8> = Ok(String::with_capacity(13));
                chk("result_ok", ro.estimate_memory(), std::mem::size_of::<Result<String, u8>>() + ro.as_ref().unwrap().capacity());
                let re: Result<u8, String> = Err(String::with_capacity(6));
                chk("result_err", re.estimate_memory(), std::mem::size_of::<Result<u8, String>>() + re.as_ref().unwrap_err().capacity());
                let t2 = (String::with_capacity(21), 7u64);
                chk("tuple2", t2.estimate_memory(), std::mem::size_of::<(String, u64)>() + t2.0.capacity());
                let t3 = (1u8, String::with_capacity(4), vec![1u64, 2]);
                chk("tuple3", t3.estimate_memory(), std::mem::size_of::<(u8, String, Vec<u64>)>() + t3.1.capacity() + t3.2.capacity() * 8);
                let b = Box::new(String::with_capacity(15));
                chk("box", b.estimate_memory(), 8 + 24 + b.capacity());
                let a = std::sync::Arc::new(5u64);
                chk("arc", a.estimate_memory(), 8 + 8);
                let r = std::rc::Rc::new(5u32);
                chk("rc", r.estimate_memory(), 8 + 4);
                let ash = std::sync::Arc::new(String::with_capacity(40)); let _ash2 = ash.clone(); let _ash3 = ash.clone();
                chk("arc_shared", ash.estimate_memory(), 8 + 24 + ash.capacity());
                let rsh = std::rc::Rc::new(String::with_capacity(33)); let _rsh2 = rsh.clone();
                chk("rc_shared", rsh.estimate_memory(), 8 + 24 + rsh.capacity());
                let st: &str = "hello";
                chk("str", st.estimate_memory(), 16 + 5);
                let sl: &[u32] = &[1, 2, 3];
                chk("slice", sl.estimate_memory(), 16 + 12);
                let ce = cachelito_core::CacheEntry::new(String::with_capacity(8));
                chk("cacheentry", ce.estimate_memory(), std::mem::size_of::<cachelito_core::CacheEntry<String>>() + ce.value.capacity());
            }
            "sizes" => {
                macro_rules! sz { ($($t:ty),*) => { $( out.push(format!("size {} = {}", stringify!($t).replace(' ', ""), std::mem::size_of::<$t>())); )* } }
                sz!(u8, u16, u32, u64, usize, i32, i64, bool, char, f64, String, &str, std::time::Instant, Result<u64, u8>, Option<u64>, Option<usize>, (u64, u64), (u64, u64, u64), Vec<u8>, Box<u8>, Option<String>);
            }
            "stress" => {
                // stress <threads> <iterations> <subject> <recv> <args..>: unscheduled concurrent repetition of one call (used when a
                // witness depends on a lock-held window that the schedule controller cannot hold open); prints the executions
                let nt: usize = t[1].parse().unwrap();
                let iters: usize = t[2].parse().unwrap();
                let name = t[3].to_string();
                let recv: u64 = t[4].parse().unwrap();
                let a: Vec<u64> = t[5..].iter().map(|x| x.parse().unwrap()).collect();
                let before = env::execs();
                let mut hs = Vec::new();
                for _ in 0..nt {
                    let name = name.clone();
                    let a = a.clone();
                    hs.push(std::thread::spawn(move || {
                        for _ in 0..iters {
                            let _ = do_call(&name, recv, &a);
                        }
                    }));
                }
                for h in hs {
                    let _ = h.join();
                }
                out.push(format!("stress {} {}", nt * iters, env::execs() - before));
            }
            "conc_thread" => {
                // conc_thread <tid> <op...> ; ops separated by '/'
                let tid: usize = t[1].parse().unwrap();
                let ops: Vec<Vec<String>> = t[2..].join(" ").split(" / ").map(|o| o.split_whitespace().map(|x| x.to_string()).collect()).collect();
                conc_progs.push((tid, ops));
            }
            "conc_sched" => {
                for e in &t[1..] {
                    let p: Vec<&str> = e.split(':').collect();
                    let mult = if p[2] == "all" { shard_count() } else { p[2].parse().unwrap() };
                    conc_sched.push(crate::sched::Ev { tid: p[0].parse().unwrap(), kind: p[1].parse().unwrap(), mult, attempt: p.len() > 3 });
                }
            }
            "conc_run" => {
                crate::sched::install(conc_sched.clone());
                let mut hs = Vec::new();
                let (dtx, drx) = channel::<(usize, Vec<String>)>();
                for (tid, ops) in conc_progs.drain(..) {
                    let dtx = dtx.clone();
                    hs.push(std::thread::spawn(move || {
                        crate::sched::reset_thread();
                        crate::sched::register(tid);
                        let mut res = Vec::new();
                        for op in &ops {
                            res.push(match std::panic::catch_unwind(std::panic::AssertUnwindSafe(|| conc_op(op))) {
                                Ok(r) => r,
                                Err(e) => format!("<panic {}>", e.downcast_ref::<String>().cloned().or_else(|| e.downcast_ref::<&str>().map(|s| s.to_string())).unwrap_or_default().replace('\n', " ")),
                            });
                        }
                        crate::sched::register(usize::MAX);
                        let _ = dtx.send((tid, res));
                    }));
                }
                let n = hs.len();
                let mut done = 0;
                let deadline = std::time::Instant::now() + std::time::Duration::from_secs(8);
                while done < n {
                    match drx.recv_timeout(deadline.saturating_duration_since(std::time::Instant::now())) {
                        Ok((tid, res)) => {
                            done += 1;
                            out.push(format!("conc_done {} {}", tid, res.join(" ; ")));
                        }
                        Err(_) => break,
                    }
                }
                let (st, total) = crate::sched::progress();
                out.push(format!("conc_progress {} {} stuck={} mismatch={}", st, total, crate::sched::STUCK.load(std::sync::atomic::Ordering::SeqCst), crate::sched::MISMATCH.load(std::sync::atomic::Ordering::SeqCst)));
                crate::sched::uninstall();
                if done < n {
                    out.push(format!("conc_blocked {} of {} threads never returned", n - done, n));
                    // the blocked threads hold cache locks: nothing more can be observed in this process
                    return out;
                }
                conc_sched.clear();
            }
            other => out.push(format!("unknown directive {}", other)),
        }
    }
    out
}

fn shard_count() -> usize {
    (std::thread::available_parallelism().map_or(1, usize::from) * 4).next_power_of_two()
}

/// one operation of a concurrent program (runs on a registered replay thread)
fn conc_op(t: &[String]) -> String {
    match t[0].as_str() {
        "call" => {
            let recv: u64 = t[2].parse().unwrap();
            let a: Vec<u64> = t[3..].iter().map(|x| x.parse().unwrap()).collect();
            format!("ret {}", do_call(&t[1], recv, &a))
        }
        "inv_tag" => format!("inv {}", cachelito_core::invalidate_by_tag(&t[1])),
        "inv_event" => format!("inv {}", cachelito_core::invalidate_by_event(&t[1])),
        "inv_dep" => format!("inv {}", cachelito_core::invalidate_by_dependency(&t[1])),
        "inv_cache" => format!("inv {}", cachelito_core::invalidate_cache(&t[1])),
        "inv_with" => {
            let keys: Vec<String> = t[2..].iter().map(|x| x.replace("%20", " ")).collect();
            format!("inv {}", cachelito_core::invalidate_with(&t[1], |k| keys.iter().any(|x| x == k)))
        }
        "inv_all_with" => {
            let pairs: Vec<(String, String)> = t[1..].iter().map(|x| { let mut p = x.splitn(2, ':'); (p.next().unwrap().to_string(), p.next().unwrap_or("").replace("%20", " ")) }).collect();
            format!("inv {}", cachelito_core::invalidate_all_with(|c, k| pairs.iter().any(|(pc, pk)| pc == c && pk == k)))
        }
        "stats_get" => match cachelito_core::stats_registry::get(&t[1]) {
            Some(s) => format!("stats {} {}", s.hits(), s.misses()),
            None => "stats none".into(),
        },
        "stats_reset" => format!("reset {}", cachelito_core::stats_registry::reset(&t[1])),
        o => format!("unknown op {}", o),
    }
}
