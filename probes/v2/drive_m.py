import sys, time, z3
from mirsym2 import *
P = Program(); P.load('/tmp/mirprobe/core_full.mir', '/tmp/mirprobe/core_fv.mir', 'core')
I = Interp(P)
INS = [f for n, f in P.fns.items() if n.endswith('::insert_with_memory') and 'GlobalCache<R>' in f.locals[1].ty and 'Async' not in f.locals[1].ty][0]
POL = {'FIFO': 0, 'LRU': 1, 'LFU': 2, 'ARC': 3, 'Random': 4, 'TLRU': 5}
SZ = z3.Function('size', z3.BitVecSort(64), z3.BitVecSort(64))
def step(n, policy):
    viol = [0]
    def run(ctx):
        keys = [z3.Int(f'key{i}') for i in range(n)]
        if n > 1: ctx.add(z3.Distinct(keys))
        now0 = z3.Int('now0'); ctx.add(now0 >= 0); ctx.now_vars.append(now0)
        M = z3.BitVec('maxmem', 64); ctx.add(z3.ULT(M, z3.BitVecVal(2**41, 64)))
        ents = []; total = z3.BitVecVal(0, 64); vals = []
        for i in range(n):
            b = z3.Int(f'birth{i}'); ctx.add(z3.And(b >= 0, b <= now0)); h = z3.BitVec(f'hits{i}', 64)
            ctx.add(h == 0 if policy in ('FIFO', 'LRU', 'Random') else z3.ULT(h, z3.BitVecVal(2**20, 64)))
            v = z3.BitVec(f'val{i}', 64); vals.append(v); ctx.add(z3.ULT(SZ(v), z3.BitVecVal(2**40, 64))); total = total + SZ(v)
            ents.append([Str(keys[i]), Agg('CacheEntry', 0, [v, Instant(b), h])])
        ctx.add(z3.ULE(total, M))      # I4
        mapm = MapM(ents); dq = SeqM([Str(k) for k in keys])
        cache = Agg('GlobalCache', 0, [Ref(Cell(LazyM(None), 'MAP')), Ref(Cell(LazyM(None), 'ORDER')), none(), some(M), Agg('EvictionPolicy', POL[policy], []), none(), none(), Ref(Cell(LazyM(None), 'STATS'))])
        load(cache.fields[0]).inner = Cell(LockM(mapm, 'store'), 'm'); load(cache.fields[1]).inner = Cell(LockM(dq, 'queue'), 'q')
        argv = z3.BitVec('argval', 64)
        run_single(ctx, I.call_fn(ctx, INS, [Ref(Cell(cache, 'cache')), Str(z3.Int('argkey')), argv]))
        # C05 post: total size of stored values <= M
        tot = z3.BitVecVal(0, 64)
        for it in mapm.items: tot = tot + SZ(it[1].fields[0])
        if ctx.solver.check(z3.Not(z3.ULE(tot, M))) != z3.unsat: viol[0] += 1
        return len(mapm.items)
    t = time.time(); out, nchecks, tsolve = explore(run)
    from collections import Counter
    print(f'G insert_with_memory {policy:6s} n={n}: {dict(Counter(s_ for s_,_,_ in out))} paths={len(out)} checks={nchecks} solve={tsolve:.2f}s wall={time.time()-t:.2f}s viol={viol[0]}')
    for s_, r, c in out:
        if s_ != 'ok': print('   ', s_, r); break
for pol in (sys.argv[1].split(',') if len(sys.argv) > 1 else ['FIFO', 'LFU', 'ARC', 'Random']):
    for n in (0, 1, 2, 3):
        try: step(n, pol)
        except Unsupported as e: print('UNSUPPORTED', pol, n, e); break
