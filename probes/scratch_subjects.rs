use cachelito::cache;
use cachelito_async::cache_async;

pub mod env {
    #[inline(never)] pub fn body(id: u32, a: u32) -> u64 { (id as u64) << 32 | a as u64 }
    #[inline(never)] pub fn body_res(id: u32, a: u32) -> Result<u64, u8> { Ok(a as u64 + id as u64) }
    #[inline(never)] pub fn pred_val(id: u32, key: &str, v: &u64) -> bool { key.len() as u64 + *v + id as u64 > 3 }
    #[inline(never)] pub async fn gate(id: u32) {}
}

#[cache(limit = 2, policy = "lru", name = "g_lru2", tags = ["t1"])]
pub fn g_lru2(a: u32) -> u64 { env::body(1, a) }

#[cache(scope = "thread", limit = 2, policy = "lfu")]
pub fn t_lfu2(a: u32, b: u32) -> u64 { env::body(2, a + b) }

#[cache(limit = 2, max_memory = "1KB")]
pub fn g_res(a: u32) -> std::result::Result<u64, u8> { env::body_res(3, a) }

fn stale(key: &String, v: &u64) -> bool { env::pred_val(4, key, v) }
#[cache(invalidate_on = stale)]
pub fn g_inv(a: u32) -> u64 { env::body(4, a) }

#[cache_async(limit = 2, policy = "arc", ttl = 5)]
pub async fn a_arc2(a: u32) -> u64 { env::gate(5).await; env::body(5, a) }

pub struct S { pub id: u32 }
impl cachelito_core::DefaultCacheableKey for S {}
impl std::fmt::Debug for S { fn fmt(&self, f: &mut std::fmt::Formatter<'_>) -> std::fmt::Result { write!(f, "S{}", self.id) } }
impl S {
    #[cache(limit = 3)]
    pub fn m(&self, a: u32) -> u64 { env::body(6, a + self.id) }
}

#[cache]
pub fn g_two(a: u32, b: u32) -> u64 { env::body(7, a ^ b) }
#[cache]
pub fn g_strs(a: String, b: String) -> u64 { env::body(8, (a.len() + b.len()) as u32) }
#[cache_async]
pub async fn a_two(a: u32, b: String) -> u64 { env::body(9, a + b.len() as u32) }

#[cache(limit = 3, tags = ["t1", "t2"])]
pub fn g_tag2(a: u32) -> u64 { env::body(10, a) }
#[cache(events = ["e1"])]
pub fn g_ev(a: u32) -> u64 { env::body(11, a) }
#[cache_async(dependencies = ["g_lru2"], tags = ["t2"])]
pub async fn a_dep(a: u32) -> u64 { env::body(12, a) }
#[cache]
pub fn g_plain(a: u32) -> u64 { env::body(13, a) }
