"""Probe v2: generator-based symbolic MIR interpreter (threads, statics, closures, registry).
Throw-away feasibility prototype for /verif/DESIGN.md -- not the framework."""
import re, sys, time, itertools
import z3
from mirparse import parse_file, Place, split_top

class Infeasible(Exception): pass
class Panic(Exception):
    def __init__(s, msg): s.msg = msg
class Unsupported(Exception): pass
class Deadlock(Exception):
    def __init__(s, info): s.info = info

def is_conc(x): return isinstance(x, (int, bool))
WIDTH = {'u8': 8, 'u16': 16, 'u32': 32, 'u64': 64, 'usize': 64, 'i8': 8, 'i16': 16, 'i32': 32, 'i64': 64, 'isize': 64, 'u128': 128, 'i128': 128}
VARIANTS = {'None': 0, 'Some': 1, 'Ok': 0, 'Err': 1, 'FIFO': 0, 'LRU': 1, 'LFU': 2, 'ARC': 3, 'Random': 4, 'TLRU': 5, 'Ready': 0, 'Pending': 1,
            'ThreadLocal': 0, 'Global': 1}

# ---------------- values
class Agg:
    __slots__ = ('ty', 'variant', 'fields')
    def __init__(s, ty, variant, fields): s.ty = ty; s.variant = variant; s.fields = list(fields)
    def __repr__(s): return f"{s.ty}#{s.variant}{s.fields}"
class Cell:
    __slots__ = ('v', 'name')
    def __init__(s, v=None, name=''): s.v = v; s.name = name
class SlotCell:
    """cell aliasing lst[i]"""
    def __init__(s, lst, i, name='slot'): s.lst = lst; s.i = i; s.name = name
    @property
    def v(s): return s.lst[s.i]
    @v.setter
    def v(s, x): s.lst[s.i] = x
class Ref:
    __slots__ = ('cell', 'path')
    def __init__(s, cell, path=()): s.cell = cell; s.path = tuple(path)
    def __repr__(s): return f"&{getattr(s.cell, 'name', '?')}{list(s.path)}"
class Str:
    """abstract string. t: python str | z3 term | ('join', sep, [Str]) | ('fmt', kind, value)"""
    __slots__ = ('t',)
    def __init__(s, t): s.t = t
    def __repr__(s): return f"Str({s.t})"
def str_eq(a, b):
    ta, tb = a.t, b.t
    if isinstance(ta, str) and isinstance(tb, str): return ta == tb
    if isinstance(ta, tuple) and isinstance(tb, tuple):
        if ta[0] != tb[0]: return False
        if ta[0] == 'join':
            if ta[1] != tb[1] or len(ta[2]) != len(tb[2]): return False
            cs = [str_eq(x, y) for x, y in zip(ta[2], tb[2])]
            if any(c is False for c in cs): return False
            cs = [c for c in cs if c is not True]
            return z3.And(cs) if cs else True
        if ta[0] == 'fmt':
            if ta[1] != tb[1]: return False
            x, y = ta[2], tb[2]
            if isinstance(x, Str): return str_eq(x, y)
            return z3.simplify(x == y) if not (is_conc(x) and is_conc(y)) else x == y
    if isinstance(ta, (str, tuple)) or isinstance(tb, (str, tuple)): return False   # probe: symbolic ids never equal structured/literal
    if ta.eq(tb): return True
    return ta == tb
class MapM:
    def __init__(s, items=None): s.items = items if items is not None else []
class SeqM:   # VecDeque / Vec
    def __init__(s, items=None): s.items = items if items is not None else []
class LockM:
    def __init__(s, inner, name): s.inner = Cell(inner, name); s.state = 0; s.owners = []; s.name = name
class GuardM:
    def __init__(s, lock, mode, tid): s.lock = lock; s.mode = mode; s.live = True; s.tid = tid
class LazyM:
    def __init__(s, init): s.init = init; s.inner = None
class OnceM:
    def __init__(s): s.done = False
class IterM:
    def __init__(s, items, pos=0, enum=False): s.items = items; s.pos = pos; s.enum = enum; s.maps = []
class Closure:
    def __init__(s, fname, upvars): s.fname = fname; s.upvars = upvars
    @property
    def fields(s): return s.upvars
class Coroutine:
    def __init__(s, fname, upvars): s.fname = fname; s.fields = list(upvars); s.variant = 0; s.ty = 'coroutine'
class RefCellM:
    def __init__(s, inner, name): s.inner = Cell(inner, name); s.state = 0; s.name = name   # -1 mut, n shared
class BorrowM:
    def __init__(s, rc, mode): s.rc = rc; s.mode = mode; s.live = True
class TlsKey:
    def __init__(s, name, init): s.name = name; s.init = init; s.per_thread = {}
class FnItem:
    def __init__(s, name): s.name = name
class Instant:
    def __init__(s, t): s.t = t
class Duration:
    def __init__(s, t): s.t = t
class Opaque:
    def __init__(s, what): s.what = what
def unit(): return Agg('()', 0, [])
def some(v): return Agg('Option', 1, [v])
def none(): return Agg('Option', 0, [])
def deref(x):
    return load(x) if isinstance(x, Ref) else x
def load(ref):
    v = ref.cell.v
    for p in ref.path: v = v.fields[p]
    return v
def store(ref, val):
    if not ref.path: ref.cell.v = val; return
    v = ref.cell.v
    for p in ref.path[:-1]: v = v.fields[p]
    v.fields[ref.path[-1]] = val

# ---------------- one path
class Ctx:
    def __init__(s, forced):
        s.solver = z3.Solver(); s.forced = list(forced); s.trace = []; s.new_alts = []
        s.pc = []; s.nchecks = 0; s.tsolve = 0.0; s.steps = 0; s.events = []; s.fresh = itertools.count()
        s.now_vars = []; s.tid = 0; s.sched_trace = []
    def add(s, c):
        if c is True: return
        if c is False: raise Infeasible()
        s.pc.append(c); s.solver.add(c)
    def feasible(s, c):
        if c is True: return True
        if c is False: return False
        t = time.time(); s.nchecks += 1
        r = s.solver.check(c); s.tsolve += time.time() - t
        if r == z3.unknown: raise Unsupported('z3 unknown')
        return r == z3.sat
    def choose(s, conds):
        pos = len(s.trace)
        if pos < len(s.forced): i = s.forced[pos]
        else:
            feas = [i for i, c in enumerate(conds) if s.feasible(c)]
            if not feas: raise Infeasible()
            i = feas[0]
            for j in feas[1:]: s.new_alts.append(s.trace + [j])
        s.trace.append(i); s.add(conds[i]); return i
    def choose_free(s, k):
        """unconditional k-way choice (scheduler)"""
        pos = len(s.trace)
        if pos < len(s.forced): i = s.forced[pos]
        else:
            i = 0
            for j in range(1, k): s.new_alts.append(s.trace + [j])
        s.trace.append(i); return i
    def branch(s, cond):
        if is_conc(cond): return bool(cond)
        cond = z3.simplify(cond)
        if z3.is_true(cond): return True
        if z3.is_false(cond): return False
        return s.choose([cond, z3.Not(cond)]) == 0
    def fresh_bv(s, name, w=64): return z3.BitVec(f"{name}!{next(s.fresh)}", w)
    def fresh_int(s, name): return z3.Int(f"{name}!{next(s.fresh)}")
    def fresh_bool(s, name): return z3.Bool(f"{name}!{next(s.fresh)}")

def strip_generics(fn):
    out = ''; i = 0
    while i < len(fn):
        if fn.startswith('::<', i):
            j = i + 2; dd = 0
            while True:
                if fn[j] == '<': dd += 1
                elif fn[j] == '>' and fn[j - 1] != '-':
                    dd -= 1
                    if dd == 0: break
                j += 1
            i = j + 1; continue
        out += fn[i]; i += 1
    return out
def outer_ty(t):
    t = t.strip()
    t = re.sub(r"^&('\w+ )?(mut )?", '', t)
    t = re.sub(r'<.*', '', t)
    return t.split('::')[-1]
def norm_trait_call(g):
    """<T<..> as Trait>::m -> ('T', 'Trait', 'm')"""
    m = re.match(r'^<(.+) as ([^>]+(?:<.*>)?)>::(\w+)$', g)
    if not m: return None
    return outer_ty(m.group(1)), re.sub(r'<.*', '', m.group(2)).split('::')[-1], m.group(3)

class Program:
    def __init__(s):
        s.fns = {}; s.statics = {}; s.consts = {}; s.allocs = {}; s.clo_of_local = {}; s.clo_on_line = {}
        s.by_last = {}
    def load(s, plain, verbose=None, tag=''):
        items, allocs = parse_file(plain)
        vlines = open(verbose).read().split('\n') if verbose else None
        plines = open(plain).read().split('\n')
        for k, f in items.items():
            if not isinstance(k, str): continue
            f.tag = tag
            if f.kind == 'fn': s.fns[f.name] = f
            elif f.kind.startswith('static'): s.statics[f.name] = f
            else: s.consts[f.name] = f
            if vlines:
                a, b = f.text_lines
                for ln in range(a - 1, b + 1):
                    pl = plines[ln - 1] if ln - 1 < len(plines) else ''
                    if '{closure@' not in pl and '{coroutine@' not in pl and 'async ' not in pl: continue
                    names = re.findall(r'\{(?:static )?((?:[^{} ]|\{(?:closure|constant|impl)#\d+\})*?\{closure#\d+\}) (?:closure_kind_ty|upvar_tys|resume_ty)', vlines[ln - 1])
                    mm = re.match(r'^\s*let (?:mut )?_(\d+): ', pl)
                    if mm and names: s.clo_of_local[(f.name, int(mm.group(1)))] = names[0]
                    if names: s.clo_on_line[(tag, ln)] = names
        for k, v in allocs.items(): s.allocs[(tag, k)] = v
        s.by_last = {}
        for name, f in s.fns.items():
            last = strip_generics(name).split('::')[-1]
            s.by_last.setdefault(last, []).append(f)
    def resolve(s, func):
        g = strip_generics(func)
        if g in s.fns: return s.fns[g]
        tc = norm_trait_call(g)
        if tc: ty, _, meth = tc
        else:
            parts = g.split('::'); meth = parts[-1]; ty = parts[-2] if len(parts) > 1 else None
        cands = s.by_last.get(meth, [])
        # free functions / module functions
        free = [f for f in cands if '<impl' not in f.name and strip_generics(f.name).split('::')[-1] == meth and '{closure' not in f.name]
        if ty is not None and ty[:1].isupper():
            c1 = [f for f in cands if '<impl' in f.name and f.args and outer_ty(f.locals[f.args[0]].ty) == ty]
            if len(c1) != 1:
                c1 = c1 or [f for f in cands if '<impl' in f.name and outer_ty(f.ret) == ty and not f.args] or \
                     [f for f in cands if '<impl' in f.name and outer_ty(f.ret) == ty]
            if len(c1) == 1: return c1[0]
        if len(free) == 1: return free[0]
        if tc and len(cands) == 1: return cands[0]
        if len(free) > 1:
            # prefer exact module path suffix match
            suf = '::'.join(g.split('::')[-2:])
            f2 = [f for f in free if strip_generics(f.name).endswith(suf)]
            if len(f2) == 1: return f2[0]
        return None

class Thread:
    def __init__(s, tid, gen): s.tid = tid; s.gen = gen; s.pending = None; s.done = False; s.result = None; s.started = False

class Interp:
    def __init__(s, prog): s.p = prog; s.static_cells = {}; s.tls = {}; s.registry_singletons = {}
    def reset(s): s.static_cells = {}; s.tls = {}; s.registry_singletons = {}

    # ---------- function execution (generator)
    def call_fn(s, ctx, f, args):
        frame = {}
        for idx, a in zip(f.args, args): frame[idx] = Cell(a, f"_{idx}")
        blk = 'bb0'
        while True:
            ctx.steps += 1
            if ctx.steps > 50000: raise Unsupported('step budget')
            for ln, st in f.blocks[blk]:
                k = st[0]
                if k == 'assign':
                    s.write(frame, st[1], s.rvalue(ctx, frame, f, st[2], st[1], ln))
                elif k in ('nop', 'ConstEvalCounter'): pass
                elif k == 'setdiscr': s.read(frame, st[1]).variant = st[2]
                elif k == 'goto': blk = st[1]; break
                elif k == 'return': return frame[0].v if 0 in frame and frame[0].v is not None else unit()
                elif k == 'unreachable': raise Panic('unreachable in ' + f.name)
                elif k == 'resume': raise Panic('unwinding (resume) in ' + f.name)
                elif k == 'switch':
                    blk = s.switch(ctx, s.operand(ctx, frame, f, st[1], ln), st[2]); break
                elif k == 'drop':
                    try: v = s.read(frame, st[1])
                    except Exception: v = None
                    s.drop_val(ctx, v); blk = st[2]['return']; break
                elif k == 'assert':
                    c = s.operand(ctx, frame, f, st[2], ln)
                    ok = c if not st[1] else ((not c) if is_conc(c) else z3.Not(c))
                    if not ctx.branch(ok): raise Panic('assert failed: ' + st[3][:60] + ' in ' + f.name)
                    blk = st[4]['success']; break
                elif k == 'call':
                    args_ = [s.operand(ctx, frame, f, a, ln) for a in st[3]]
                    r = yield from s.call(ctx, st[2], args_, f, ln)
                    if st[1] is not None: s.write(frame, st[1], r)
                    if 'return' not in st[4]: raise Panic('diverging call returned: ' + st[2][:60])
                    blk = st[4]['return']; break
                else: raise Unsupported('stmt ' + k)
            else: raise Unsupported('block without terminator')

    def switch(s, ctx, v, tg):
        if isinstance(v, bool): v = int(v)
        if not is_conc(v) and z3.is_bv_value(v): v = v.as_long()
        if not is_conc(v) and (z3.is_true(v) or z3.is_false(v)): v = 1 if z3.is_true(v) else 0
        keys = [k for k in tg if k != 'otherwise']
        if is_conc(v): return tg.get(str(v), tg.get('otherwise'))
        conds = []; dests = []
        for k in keys:
            kv = int(k)
            conds.append((v if kv else z3.Not(v)) if z3.is_bool(v) else v == z3.BitVecVal(kv, v.size()))
            dests.append(tg[k])
        if 'otherwise' in tg:
            if z3.is_bool(v) and len(keys) == 1: conds.append(z3.Not(conds[0]))
            else: conds.append(z3.And([z3.Not(c) for c in conds]) if conds else True)
            dests.append(tg['otherwise'])
        return dests[ctx.choose(conds)]

    # ---------- places
    def cell_of(s, frame, local):
        if local not in frame: frame[local] = Cell(None, f"_{local}")
        return frame[local]
    def walk(s, frame, place):
        """returns Ref to the place"""
        cell = s.cell_of(frame, place.local); path = []
        for pr in place.proj:
            if pr[0] == 'deref':
                cur = load(Ref(cell, path))
                if not isinstance(cur, Ref): raise Unsupported(f'deref of non-ref {cur!r}')
                cell, path = cur.cell, list(cur.path)
            elif pr[0] == 'field':
                cur = load(Ref(cell, path))
                if cur is None:
                    cur = Agg('?', 0, []); store(Ref(cell, path), cur)
                if isinstance(cur, (Agg, Closure, Coroutine)):
                    while len(cur.fields) <= pr[1]: cur.fields.append(None)
                else: raise Unsupported(f'field of {cur!r}')
                path.append(pr[1])
            elif pr[0] == 'downcast':
                mm = re.match(r'variant#(\d+)$', pr[1])
                if mm:
                    cur = load(Ref(cell, path)); idx = 100 + int(mm.group(1))
                    while len(cur.fields) <= idx: cur.fields.append(None)
                    if cur.fields[idx] is None: cur.fields[idx] = Agg('covariant', int(mm.group(1)), [])
                    path.append(idx)
            else: raise Unsupported('proj ' + str(pr))
        return Ref(cell, path)
    def read(s, frame, place): return load(s.walk(frame, place))
    def write(s, frame, place, v): store(s.walk(frame, place), v)

    def operand(s, ctx, frame, f, op, ln=None):
        if op[0] in ('copy', 'move'): return s.read(frame, op[1])
        return s.const(ctx, f, op[1], ln)
    def static_ref(s, name):
        if name not in s.static_cells: s.static_cells[name] = Cell(('uninit-static', name), name)
        return Ref(s.static_cells[name])
    def const(s, ctx, f, c, ln=None):
        c = c.strip()
        if c in ('true', 'false'): return c == 'true'
        if c == '()': return unit()
        m = re.match(r'^(-?\d+)_(u8|u16|u32|u64|usize|i8|i16|i32|i64|isize|u128|i128)$', c)
        if m: return z3.BitVecVal(int(m.group(1)), WIDTH[m.group(2)])
        m = re.match(r'^(-?[\d.]+(?:[eE][+-]?\d+)?)_?f64$', c)
        if m: return z3.RealVal(m.group(1))
        m = re.match(r'^"(.*)"$', c)
        if m: return Str(m.group(1))
        if c.endswith('<impl u64>::MAX') or c.endswith('<impl usize>::MAX'): return z3.BitVecVal(2**64 - 1, 64)
        if c.endswith('<impl f64>::MAX'): return z3.RealVal(10) ** 308
        m = re.match(r'^\{(alloc\d+): (.*)\}$', c)
        if m:
            al = s.p.allocs.get((f.tag, m.group(1)))
            if al and al[0].startswith('static: '):
                return s.static_ref(al[0][8:].split(',')[0])
            if al: return Opaque(('alloc', al))
        m = re.match(r'^b"(.*)"$', c)
        if m: return Opaque(('bytes', m.group(1)))
        if c.startswith('ZeroSized: {closure') or c.startswith('{closure'):
            span = re.search(r'\{closure@([^}]*)\}', c).group(1)
            cands = [n for n, g_ in s.p.fns.items() if '{closure#' in n and g_.args and ('closure@' + span + '}') in g_.locals[g_.args[0]].ty]
            if len(cands) == 1: return Closure(cands[0], [])
            names = s.p.clo_on_line.get((f.tag, ln), [])
            if len(set(names)) >= 1: return Closure(names[0], [])
            raise Unsupported('anonymous closure const')
        if re.search(r'::promoted\[\d+\]$', c) or c in s.p.consts:
            cf = s.p.consts.get(c)
            if cf is None:
                mm = re.match(r'^(.*)::(promoted\[\d+\])$', c)
                if mm:
                    ff = s.p.resolve(mm.group(1))
                    if ff is not None: cf = s.p.consts.get(ff.name + '::' + mm.group(2))
            if cf is None: raise Unsupported('const item ' + c)
            return s.eval_const(ctx, cf)
        if c.startswith('ZeroSized'): return unit()
        return FnItem(c)
    def eval_const(s, ctx, cf):
        g = s.call_fn(ctx, cf, [])
        try:
            next(g); raise Unsupported('const eval yielded')
        except StopIteration as e: return e.value

    def rvalue(s, ctx, frame, f, rv, dest=None, ln=None):
        k = rv[0]
        if k == 'use': return s.operand(ctx, frame, f, rv[1], ln)
        if k == 'ref': return s.walk(frame, rv[2])
        if k == 'discr':
            v = s.read(frame, rv[1])
            if isinstance(v, (Agg, Coroutine)): return z3.BitVecVal(v.variant, 64) if is_conc(v.variant) else v.variant
            raise Unsupported(f'discr of {v!r}')
        if k == 'binop': return s.binop(rv[1], s.operand(ctx, frame, f, rv[2], ln), s.operand(ctx, frame, f, rv[3], ln))
        if k == 'unop':
            a = s.operand(ctx, frame, f, rv[2], ln)
            if rv[1] == 'Not': return (not a) if is_conc(a) else (z3.Not(a) if z3.is_bool(a) else ~a)
            raise Unsupported('unop ' + rv[1])
        if k == 'cast':
            a = s.operand(ctx, frame, f, rv[2], ln); ck = rv[1]; ty = rv[3]
            if ck == 'IntToFloat': return z3.ToReal(z3.BV2Int(a))
            if ck == 'IntToInt':
                w = WIDTH[ty]
                if a.size() == w: return a
                return z3.ZeroExt(w - a.size(), a) if a.size() < w else z3.Extract(w - 1, 0, a)
            if ck in ('PointerCoercion', 'Transmute', 'PtrToPtr'): return a
            raise Unsupported('cast ' + ck)
        if k == 'agg':
            kind, ty, flds = rv[1], rv[2], rv[3]
            if kind == 'tuple': return Agg('tuple', 0, [s.operand(ctx, frame, f, o, ln) for o in flds])
            if kind == 'array': return Agg('array', 0, [s.operand(ctx, frame, f, o, ln) for o in flds])
            if kind == 'variant':
                name = strip_generics(ty); vname = name.split('::')[-1]; tname = name.split('::')[-2] if '::' in name else '?'
                return Agg(tname, VARIANTS.get(vname, vname), [s.operand(ctx, frame, f, o, ln) for o in flds])
            if kind == 'struct': return Agg(strip_generics(ty), 0, [s.operand(ctx, frame, f, o, ln) for n, o in flds])
            if kind == 'closure':
                span = ty[1:-1]
                cands = [n for n, g in s.p.fns.items() if '{closure#' in n and g.args and span in g.locals[g.args[0]].ty]
                name = cands[0] if len(cands) == 1 else None
                if name is None:
                    name = s.p.clo_of_local.get((f.name, dest.local)) if dest is not None and not dest.proj else None
                if name is None:
                    names = s.p.clo_on_line.get((f.tag, ln), [])
                    name = names[0] if names else None
                if name is None:
                    # unique span (non-macro closures): match by span text
                    span = ty
                    cands = [n for n, g in s.p.fns.items() if n.startswith(f.name + '::{closure#') and g.args and span[1:-1] in g.locals[g.args[0]].ty]
                    if len(cands) == 1: name = cands[0]
                if name is None: raise Unsupported('closure identity ' + ty)
                if ty.startswith('{coroutine'): return Coroutine(name, [s.operand(ctx, frame, f, o, ln) for n, o in flds])
                return Closure(name, [s.operand(ctx, frame, f, o, ln) for n, o in flds])
        raise Unsupported('rvalue ' + k)

    def binop(s, op, a, b):
        if op in ('AddWithOverflow', 'SubWithOverflow', 'MulWithOverflow'):
            if op[0] == 'A': r = a + b; ov = z3.ULT(r, a)
            elif op[0] == 'S': r = a - b; ov = z3.ULT(a, b)
            else: r = a * b; ov = z3.Not(z3.BVMulNoOverflow(a, b, False))
            return Agg('tuple', 0, [r, ov])
        if (not is_conc(a) and z3.is_real(a)) or (not is_conc(b) and z3.is_real(b)):
            return {'Mul': lambda: a * b, 'Div': lambda: a / b, 'Sub': lambda: a - b, 'Add': lambda: a + b, 'Lt': lambda: a < b, 'Gt': lambda: a > b,
                    'Le': lambda: a <= b, 'Ge': lambda: a >= b, 'Eq': lambda: a == b}[op]()
        if is_conc(a) and is_conc(b) and op in ('Eq', 'Ne'): return (a == b) if op == 'Eq' else (a != b)
        return {'Add': lambda: a + b, 'Sub': lambda: a - b, 'Mul': lambda: a * b, 'Eq': lambda: a == b, 'Ne': lambda: a != b,
                'Lt': lambda: z3.ULT(a, b), 'Le': lambda: z3.ULE(a, b), 'Gt': lambda: z3.UGT(a, b), 'Ge': lambda: z3.UGE(a, b),
                'BitOr': lambda: a | b, 'BitAnd': lambda: a & b, 'Shl': lambda: a << z3.ZeroExt(a.size() - b.size(), b) if b.size() < a.size() else a << b}[op]()

    def drop_val(s, ctx, v):
        if isinstance(v, GuardM):
            if v.live:
                v.live = False; lk = v.lock
                if v.mode == 'w': lk.state = 0
                else: lk.state -= 1
                lk.owners.remove(v.tid)
                ctx.events.append(('unlock', v.tid, lk.name))
        elif isinstance(v, BorrowM):
            if v.live:
                v.live = False
                if v.mode == 'w': v.rc.state = 0
                else: v.rc.state -= 1
        elif isinstance(v, Agg):
            for x in v.fields: s.drop_val(ctx, x)
        elif isinstance(v, Closure):
            pass

    # ---------- calls
    def call(s, ctx, func, args, caller, ln=None):
        b = yield from s.builtin(ctx, func, args, caller, ln)
        if b is not NotImplemented: return b
        f = s.p.resolve(func)
        if f is None: raise Unsupported('call ' + func[:120])
        r = yield from s.call_fn(ctx, f, args)
        return r
    def call_closure(s, ctx, clo, args, byref=None):
        f = s.p.fns.get(clo.fname)
        if f is None:
            c = [g for n, g in s.p.fns.items() if n.endswith(clo.fname)]
            if len(c) != 1: raise Unsupported('closure fn ' + clo.fname)
            f = c[0]
        selfty = f.locals[f.args[0]].ty
        selfv = Ref(Cell(clo, 'clo')) if selfty.startswith('&') else clo
        r = yield from s.call_fn(ctx, f, [selfv] + list(args))
        return r
    def call_callable(s, ctx, c, args):
        c = deref(c)
        if isinstance(c, Closure):
            r = yield from s.call_closure(ctx, c, args); return r
        if isinstance(c, FnItem):
            r = yield from s.call(ctx, c.name, list(args), None); return r
        if isinstance(c, EnvPred):
            return c.apply(ctx, args)
        raise Unsupported(f'callable {c!r}')

    def acquire(s, ctx, lk, mode):
        """scheduling point + blocking acquire"""
        yield ('acquire', lk, mode)
        # when resumed the scheduler guarantees availability
        if (mode == 'w' and lk.state != 0) or (mode == 'r' and lk.state < 0):
            raise Deadlock(('self', ctx.tid, lk.name, mode))
        lk.state = -1 if mode == 'w' else lk.state + 1
        lk.owners.append(ctx.tid)
        ctx.events.append(('lock', ctx.tid, lk.name, mode))
        return GuardM(lk, mode, ctx.tid)

    def builtin(s, ctx, func, args, caller, ln=None):
        if False: yield None
        g = strip_generics(func); A = args
        last = g.split('::')[-1]
        tc = norm_trait_call(g)
        # ---- env (subjects)
        if g.endswith('env::body'):
            ctx.events.append(('exec', ctx.tid, A[0], A[1]))
            F = z3.Function('F', z3.BitVecSort(32), z3.BitVecSort(32), z3.BitVecSort(64)); return F(A[0], A[1])
        # ---- lazy / once / statics
        if tc and tc[0] == 'Lazy' and tc[2] == 'deref':
            lz = yield from s.force_static(ctx, A[0])
            if lz.inner is None:
                v = yield from s.call_callable(ctx, lz.init, [])
                lz.inner = Cell(v, 'lazy')
            return Ref(lz.inner)
        if g.endswith('Lazy::new'): return LazyM(A[0])
        if g.endswith('sync::Once::new'): return OnceM()
        if g.endswith('Once::call_once'):
            o = yield from s.force_static(ctx, A[0])
            if not o.done:
                o.done = True
                yield from s.call_callable(ctx, A[1], [])
            return unit()
        if g.endswith('OnceLock::get_or_init') or g.endswith('OnceCell::get_or_init'):
            ref = A[0]; cell = ref.cell
            if isinstance(cell.v, tuple) or cell.v is None or isinstance(cell.v, OnceM) and not cell.v.done:
                v = yield from s.call_callable(ctx, A[1], [])
                cell.v = Agg('OnceLock', 0, [v])
            return Ref(cell, (0,))
        # ---- locks
        if re.search(r'(Mutex|RwLock)::new$', g): return LockM(A[0], 'lock%d' % id(A[0]))
        if re.search(r'(Mutex|RwLock)::(lock|read|write)$', g):
            lk = deref(A[0]); mode = 'r' if last == 'read' else 'w'
            if lk.name.startswith('lock') and isinstance(A[0], Ref): pass
            gd = yield from s.acquire(ctx, lk, mode); return gd
        if tc and tc[0].endswith('Guard') and tc[2] in ('deref', 'deref_mut'):
            return Ref(deref(A[0]).lock.inner)
        # ---- strings / fmt
        if g in ('<str as std::string::ToString>::to_string', '<std::string::String as std::clone::Clone>::clone', '<std::string::String as std::ops::Deref>::deref',
                 'std::string::String::as_str', 'std::hint::must_use', '<str as ToString>::to_string', '<String as Clone>::clone', '<String as Deref>::deref', 'String::as_str', 'must_use') or \
           (tc and tc[0] in ('String', 'str') and tc[2] in ('to_string', 'clone', 'deref', 'borrow', 'as_ref')):
            return deref(A[0])
        if tc and tc[1].startswith('PartialEq') and tc[0] in ('String', 'str') and tc[2] in ('eq', 'ne'):
            a, b = deref(A[0]), deref(A[1])
            while isinstance(a, Ref): a = deref(a)
            while isinstance(b, Ref): b = deref(b)
            r = str_eq(a, b)
            if tc[2] == 'ne': r = (not r) if is_conc(r) else z3.Not(r)
            return r
        if g.endswith('Argument::new_debug') or g.endswith('Argument::new_display'):
            return Agg('FmtArg', 0, ['debug' if g.endswith('debug') else 'display', deref(A[0])])
        if g.endswith('fmt::Arguments::new'): return Agg('FmtArgs', 0, [A[0], deref(A[1])])
        if g.endswith('fmt::format') or g == 'format':
            fa = A[0]; parts = fa.fields[1].fields
            if len(parts) == 1:
                v = parts[0].fields[1]
                while isinstance(v, Ref): v = deref(v)
                return Str(('fmt', parts[0].fields[0], v))
            raise Unsupported('format with %d args' % len(parts))
        if g.endswith('::join'):
            return Str(('join', deref(A[1]).t if isinstance(deref(A[1]), Str) else '?', list(deref(A[0]).items)))
        if g.endswith('str::to_lowercase') or g.endswith('<impl str>::to_lowercase'):
            return Str(deref(A[0]).t.lower())
        # ---- Vec / VecDeque
        if re.search(r'(Vec|VecDeque|HashMap|HashSet)::new$', g): return MapM() if 'Hash' in g else SeqM()
        if tc and tc[0] in ('Vec',) and tc[2] in ('deref', 'deref_mut'): return A[0]
        if re.search(r'(Vec|VecDeque)::(push|push_back)$', g): deref(A[0]).items.append(A[1]); return unit()
        if re.search(r'(Vec|VecDeque)::len$', g): return z3.BitVecVal(len(deref(A[0]).items), 64)
        if re.search(r'(Vec|VecDeque)::is_empty$', g): return len(deref(A[0]).items) == 0
        if g.endswith('VecDeque::iter') or g.endswith('<impl [T]>::iter') or g.endswith('Vec::iter'):
            d = deref(A[0]); return IterM([Ref(SlotCell(d.items, i)) for i in range(len(d.items))])
        if g.endswith('VecDeque::remove'):
            d = deref(A[0]); idx = A[1]
            if not is_conc(idx):
                if z3.is_bv_value(idx): idx = idx.as_long()
                else: idx = ctx.choose([idx == z3.BitVecVal(j, 64) for j in range(len(d.items))] + [z3.UGE(idx, z3.BitVecVal(len(d.items), 64))])
            return some(d.items.pop(idx)) if idx < len(d.items) else none()
        if g.endswith('VecDeque::pop_front'):
            d = deref(A[0]); return some(d.items.pop(0)) if d.items else none()
        if g.endswith('VecDeque::pop_back'):
            d = deref(A[0]); return some(d.items.pop()) if d.items else none()
        if re.search(r'(Vec|VecDeque|HashMap|HashSet)::clear$', g): deref(A[0]).items.clear(); return unit()
        if g.endswith('VecDeque::retain'):
            d = deref(A[0]); keep = []
            for i in range(len(d.items)):
                r = yield from s.call_callable(ctx, A[1], [Ref(SlotCell(d.items, i))])
                if ctx.branch(r): keep.append(d.items[i])
            d.items[:] = keep; return unit()
        # ---- iterators
        if tc and tc[1] == 'Iterator' and tc[2] == 'enumerate': A[0].enum = True; return A[0]
        if tc and tc[1] == 'IntoIterator' and tc[2] == 'into_iter':
            x = A[0]
            if isinstance(x, SeqM): return IterM(list(x.items))
            if isinstance(x, Ref):
                d = deref(x)
                if isinstance(d, (SeqM,)): return IterM([Ref(SlotCell(d.items, i)) for i in range(len(d.items))])
                if isinstance(d, MapM): return IterM([Ref(SlotCell(it, 0)) for it in d.items]) if 'HashSet' in g else IterM([Agg('tuple', 0, [Ref(SlotCell(it, 0)), Ref(SlotCell(it, 1))]) for it in d.items])
            return x
        if tc and tc[1] == 'Iterator' and tc[2] in ('filter', 'map', 'cloned'):
            it = A[0]; it.maps = getattr(it, 'maps', []) + [(tc[2], A[1] if len(A) > 1 else None)]; return it
        if tc and tc[1] == 'Iterator' and tc[2] == 'position':
            it = deref(A[0])
            for i in range(it.pos, len(it.items)):
                r = yield from s.call_callable(ctx, A[1], [it.items[i]])
                if ctx.branch(r): return some(z3.BitVecVal(i, 64))
            return none()
        if tc and tc[1] == 'Iterator' and tc[2] == 'next':
            it = deref(A[0])
            if it.pos >= len(it.items): return none()
            v = it.items[it.pos]; i = it.pos; it.pos += 1
            return some(Agg('tuple', 0, [z3.BitVecVal(i, 64), v]) if it.enum else v)
        if tc and tc[1] == 'Iterator' and tc[2] in ('collect', 'sum'):
            it = A[0]; out = []
            for i, v in enumerate(it.items[it.pos:]):
                x = Agg('tuple', 0, [z3.BitVecVal(i, 64), v]) if it.enum else v; keep = True
                for kind, fn in getattr(it, 'maps', []):
                    if kind == 'filter':
                        r = yield from s.call_callable(ctx, fn, [Ref(Cell(x, 'it'))])
                        if not ctx.branch(r): keep = False; break
                    elif kind == 'map': x = yield from s.call_callable(ctx, fn, [x])
                    elif kind == 'cloned': x = deref(x)
                if keep: out.append(x)
            if tc[2] == 'sum':
                acc = z3.BitVecVal(0, 64)
                for x in out: acc = acc + x
                return acc
            return SeqM(out)
        # ---- hashmap
        m_ = re.search(r'(HashMap|HashSet)::(get|get_mut|contains_key|remove|contains)$', g)
        if m_:
            m = deref(A[0]); k = deref(A[1]); op = m_.group(2)
            while isinstance(k, Ref): k = deref(k)
            conds = [str_eq(it[0], k) for it in m.items]
            if any(c is True for c in conds): i = conds.index(True)
            else:
                live = [(i, c) for i, c in enumerate(conds) if c is not False]
                none_c = z3.And([z3.Not(c) for _, c in live]) if live else True
                j = ctx.choose([c for _, c in live] + [none_c]) if live else 0
                i = live[j][0] if j < len(live) else len(conds)
            if i == len(conds): return False if op.startswith('contains') else none()
            if op.startswith('contains'): return True
            if op == 'remove': return some(m.items.pop(i)[1])
            return some(Ref(SlotCell(m.items[i], 1, 'mapval')))
        if g.endswith('HashMap::insert') or g.endswith('HashSet::insert'):
            m = deref(A[0]); k = A[1]; v = A[2] if len(A) > 2 else unit()
            conds = [str_eq(it[0], k) for it in m.items]
            if any(c is True for c in conds): i = conds.index(True)
            else:
                live = [(i, c) for i, c in enumerate(conds) if c is not False]
                none_c = z3.And([z3.Not(c) for _, c in live]) if live else True
                j = ctx.choose([c for _, c in live] + [none_c]) if live else 0
                i = live[j][0] if j < len(live) else len(conds)
            if i == len(conds):
                m.items.append([k, v]); return none() if 'HashMap' in g else True
            old = m.items[i][1]; m.items[i][1] = v; return some(old) if 'HashMap' in g else False
        if g.endswith('HashMap::values'): return IterM([Ref(SlotCell(it, 1)) for it in deref(A[0]).items])
        if g.endswith('HashMap::keys') or g.endswith('HashSet::iter'): return IterM([Ref(SlotCell(it, 0)) for it in deref(A[0]).items])
        if g.endswith('HashMap::iter'): return IterM([Agg('tuple', 0, [Ref(SlotCell(it, 0)), Ref(SlotCell(it, 1))]) for it in deref(A[0]).items])
        if g.endswith('HashMap::entry'): return Agg('Entry', 0, [A[0], A[1]])
        if g.endswith('Entry::or_insert_with'):
            m = deref(A[0].fields[0]); k = A[0].fields[1]
            for it in m.items:
                if str_eq(it[0], k) is True: return Ref(SlotCell(it, 1))
            v = yield from s.call_callable(ctx, A[1], [])
            m.items.append([k, v]); return Ref(SlotCell(m.items[-1], 1))
        # ---- option/result helpers
        if g.endswith('Option::is_some'): return deref(A[0]).variant == 1
        if g.endswith('Option::cloned'):
            o = A[0]; return some(deref(o.fields[0])) if o.variant == 1 else none()
        if g.endswith('Option::unwrap_or_default'):
            o = A[0]; return o.fields[0] if o.variant == 1 else MapM()
        if g.endswith('Option::unwrap_or'):
            return A[0].fields[0] if A[0].variant == 1 else A[1]
        if g.endswith('MemoryEstimator>::estimate_memory'):
            v = deref(A[0]); SZ = z3.Function('size', z3.BitVecSort(64), z3.BitVecSort(64)); r = SZ(v)
            ctx.add(z3.ULT(r, z3.BitVecVal(2**40, 64))); return r
        if g.endswith('Option::map'):
            o = A[0]
            if o.variant == 0: return none()
            v = yield from s.call_callable(ctx, A[1], [o.fields[0]]); return some(v)
        if g.endswith('Box::new_uninit'):
            return Agg('Box', 0, [Agg('Unique', 0, [Ref(Cell(Agg('MaybeUninit', 0, [None, None]), 'boxuninit'))])])
        if g.endswith('box_assume_init_into_vec_unsafe'):
            mu = load(A[0].fields[0].fields[0]); arr = mu.fields[1].fields[0].fields[0]
            return SeqM(list(arr.fields))
        # ---- thread locals / RefCell
        if g.endswith('LocalKey::new'):
            name = caller.name
            initf = s.p.fns.get(name + '::__rust_std_internal_init_fn')
            if initf is None: raise Unsupported('tls init fn for ' + name)
            key = s.tls.get(name)
            if key is None:
                def mk(initf=initf):
                    g_ = s.call_fn(ctx, initf, [])
                    try:
                        next(g_); raise Unsupported('tls init yielded')
                    except StopIteration as e: return e.value
                key = TlsKey(name, mk); s.tls[name] = key
            return key
        if g.endswith('RefCell::new'): return RefCellM(A[0], 'refcell')
        if g.endswith('LocalKey::with'):
            key = deref(A[0])
            if ctx.tid not in key.per_thread:
                v = key.init() if callable(key.init) else key.init
                key.per_thread[ctx.tid] = Cell(v, key.name)
            r = yield from s.call_callable(ctx, A[1], [Ref(key.per_thread[ctx.tid])]); return r
        if g.endswith('RefCell::borrow') or g.endswith('RefCell::borrow_mut'):
            rc = deref(A[0]); mode = 'w' if g.endswith('_mut') else 'r'
            if (mode == 'w' and rc.state != 0) or (mode == 'r' and rc.state < 0):
                raise Panic(f'RefCell already {"mutably " if rc.state < 0 else ""}borrowed: {"BorrowMutError" if mode == "w" else "BorrowError"} on {rc.name}')
            rc.state = -1 if mode == 'w' else rc.state + 1
            return BorrowM(rc, mode)
        if tc and tc[0] in ('Ref', 'RefMut') and tc[2] in ('deref', 'deref_mut') and isinstance(deref(A[0]), BorrowM):
            return Ref(deref(A[0]).rc.inner)
        # ---- futures
        if tc and tc[1] == 'IntoFuture' and tc[2] == 'into_future': return A[0]
        if g.endswith('Pin::new_unchecked'): return Agg('Pin', 0, [A[0]])
        if tc and tc[1] == 'Future' and tc[2] == 'poll':
            co = deref(A[0].fields[0])
            if co.fname.startswith('env::gate') and co.variant == 0:
                ready = getattr(ctx, 'gate_policy', lambda c, co: True)(ctx, co)
                if not ready: return Agg('Poll', 1, [])
            fn = s.p.fns[co.fname]
            r = yield from s.call_fn(ctx, fn, [A[0], A[1]]); return r
        # ---- SystemTime
        if g.endswith('SystemTime::now'): return Opaque('systime')
        if g.endswith('SystemTime::duration_since'):
            t = ctx.fresh_int('unix_ns'); prev = getattr(ctx, 'sys_vars', [])
            ctx.add(t >= (prev[-1] if prev else 0)); ctx.sys_vars = prev + [t]
            return Agg('Result', 0, [Duration(t)])
        if g.endswith('Result::unwrap'):
            if A[0].variant != 0: raise Panic('unwrap on Err')
            return A[0].fields[0]
        if g.endswith('::saturating_sub'):
            return z3.If(z3.ULT(A[0], A[1]), z3.BitVecVal(0, A[0].size()), A[0] - A[1])
        # ---- DashMap (one shard lock)
        if g.endswith('DashMap::new'):
            m = MapM(); m.shard = LockM(None, 'shard'); return m
        md = re.search(r'DashMap::(get|get_mut|contains_key|remove|insert|len|clear|iter)$', g)
        if md:
            m = deref(A[0]); op = md.group(1)
            if not hasattr(m, 'shard'): m.shard = LockM(None, 'shard')
            mode = 'r' if op in ('get', 'contains_key', 'len', 'iter') else 'w'
            gd = yield from s.acquire(ctx, m.shard, mode)
            if op == 'len': s.drop_val(ctx, gd); return z3.BitVecVal(len(m.items), 64)
            if op == 'clear': m.items.clear(); s.drop_val(ctx, gd); return unit()
            if op == 'iter': s.drop_val(ctx, gd); return IterM([Agg('RefMulti', 0, [Ref(SlotCell(it, 0)), Ref(SlotCell(it, 1))]) for it in m.items])
            if op == 'insert':
                k, v = A[1], A[2]; hit = None
                conds = [str_eq(it[0], k) for it in m.items]
                live = [(i, c) for i, c in enumerate(conds) if c is not False]
                if any(c is True for _, c in live): i = [i for i, c in live if c is True][0]
                else:
                    none_c = z3.And([z3.Not(c) for _, c in live]) if live else True
                    j = ctx.choose([c for _, c in live] + [none_c]) if live else 0
                    i = live[j][0] if j < len(live) else len(conds)
                s.drop_val(ctx, gd)
                if i == len(conds): m.items.append([k, v]); return none()
                old = m.items[i][1]; m.items[i][1] = v; return some(old)
            k = deref(A[1])
            while isinstance(k, Ref): k = deref(k)
            conds = [str_eq(it[0], k) for it in m.items]
            live = [(i, c) for i, c in enumerate(conds) if c is not False]
            if any(c is True for _, c in live): i = [i for i, c in live if c is True][0]
            else:
                none_c = z3.And([z3.Not(c) for _, c in live]) if live else True
                j = ctx.choose([c for _, c in live] + [none_c]) if live else 0
                i = live[j][0] if j < len(live) else len(conds)
            found = i < len(conds)
            if op == 'contains_key': s.drop_val(ctx, gd); return found
            if op == 'remove':
                s.drop_val(ctx, gd)
                if not found: return none()
                it = m.items.pop(i); return some(Agg('tuple', 0, [it[0], it[1]]))
            if not found: s.drop_val(ctx, gd); return none()
            return some(Agg('DashRef', 0, [gd, Ref(SlotCell(m.items[i], 1, 'dashval')), Ref(SlotCell(m.items[i], 0))]))
        if tc and tc[0] in ('Ref', 'RefMut') and tc[2] in ('deref', 'deref_mut'): return deref(A[0]).fields[1]
        if g.endswith('RefMulti::value'): return deref(A[0]).fields[1]
        if g.endswith('RefMulti::key'): return deref(A[0]).fields[0]
        if g.endswith('mem::drop'): s.drop_val(ctx, A[0]); return unit()
        # ---- Arc / dyn Fn
        if g.endswith('Arc::new'): return A[0]
        if tc and tc[0] == 'Arc' and tc[2] == 'deref': return A[0]
        if tc and tc[1] in ('Fn', 'FnMut', 'FnOnce') and tc[2] in ('call', 'call_mut', 'call_once'):
            args2 = A[1].fields if isinstance(A[1], Agg) else []
            r = yield from s.call_callable(ctx, A[0], list(args2)); return r
        # ---- time
        if g.endswith('Instant::now'):
            t = ctx.fresh_int('now')
            if ctx.now_vars: ctx.add(t >= ctx.now_vars[-1])
            ctx.now_vars.append(t); return Instant(t)
        if g.endswith('Instant::elapsed'):
            i0 = deref(A[0]); t = ctx.fresh_int('now')
            if ctx.now_vars: ctx.add(t >= ctx.now_vars[-1])
            ctx.now_vars.append(t); ctx.add(t >= i0.t); return Duration(t - i0.t)
        if g.endswith('Duration::as_secs'):
            d = deref(A[0]); q = ctx.fresh_int('secs'); r = ctx.fresh_int('rem')
            ctx.add(z3.And(d.t == q * 1000000000 + r, r >= 0, r < 1000000000, q >= 0, q < 2**40)); return z3.Int2BV(q, 64)
        if g.endswith('Duration::as_secs_f64'): return z3.ToReal(deref(A[0]).t) / 1000000000
        if g.endswith('f64>::min'): return z3.If(A[0] < A[1], A[0], A[1])
        if g.endswith('f64>::max'): return z3.If(A[0] > A[1], A[0], A[1])
        # ---- atomics
        if g.endswith('::fetch_add'):
            a = deref(A[0]); old = a.fields[0]; a.fields[0] = old + A[1]; return old
        if g.endswith('Atomic::new') or g.endswith('AtomicU64::new'): return Agg('Atomic', 0, [A[0]])
        if g.endswith('Atomic::load') or g.endswith('AtomicU64::load'): return deref(A[0]).fields[0]
        if g.endswith('::saturating_add'):
            r = A[0] + A[1]; return z3.If(z3.ULT(r, A[0]), z3.BitVecVal(2**64 - 1, 64), r)
        if tc and tc[1] == 'Clone' and tc[2] == 'clone' and len(tc[0]) == 1: return deref(A[0])
        if tc and tc[1] == 'Clone' and tc[2] == 'clone' and tc[0] in ('u64', 'u32'): return deref(A[0])
        if g.endswith('fastrand::usize') or g == 'usize':
            hi = A[0].fields[0]; x = ctx.fresh_bv('rand'); ctx.add(z3.ULT(x, hi)); return x
        return NotImplemented

    def force_static(s, ctx, ref):
        """ref -> Ref to a static cell; run its initialiser MIR on first use"""
        cell = ref.cell
        if isinstance(cell.v, tuple) and cell.v[0] == 'uninit-static':
            sf = s.p.statics.get(cell.v[1])
            if sf is None: raise Unsupported('static ' + cell.v[1])
            cell.v = ('initialising', cell.v[1])
            v = yield from s.call_fn(ctx, sf, [])
            cell.v = v
        return load(ref)

class EnvPred:
    """uninterpreted predicate over key terms (user closure passed to invalidate_with)"""
    def __init__(s, name): s.name = name; s.memo = []
    def apply(s, ctx, args):
        k = deref(args[0])
        while isinstance(k, Ref): k = deref(k)
        for kk, b in s.memo:
            if str_eq(kk, k) is True: return b
        b = ctx.fresh_bool(s.name); s.memo.append((k, b)); ctx.events.append(('pred', s.name, k, b)); return b

# ---------------- scheduler
def run_threads(ctx, interp, progs, preempt_bound=2):
    """progs: list of generator factories fn(ctx)->generator. Returns list of results. Raises Deadlock."""
    threads = []
    for i, mk in enumerate(progs):
        threads.append(Thread(i, None)); threads[-1].mk = mk
    cur = None; preempts = 0
    def grantable(t):
        if t.pending is None: return True
        _, lk, mode = t.pending
        if mode == 'w': return lk.state == 0
        return lk.state >= 0
    while True:
        alive = [t for t in threads if not t.done]
        if not alive: return [t.result for t in threads]
        enabled = [t for t in alive if grantable(t)]
        if not enabled:
            raise Deadlock([(t.tid, t.pending[1].name, t.pending[2], list(t.pending[1].owners)) for t in alive])
        if cur is not None and not cur.done and cur in enabled and preempts >= preempt_bound:
            nxt = cur
        else:
            order = ([cur] if cur in enabled else []) + [t for t in enabled if t is not cur]
            nxt = order[ctx.choose_free(len(order))]
            if cur is not None and not cur.done and cur in enabled and nxt is not cur: preempts += 1
        cur = nxt; ctx.tid = cur.tid; ctx.sched_trace.append(cur.tid)
        try:
            if cur.gen is None:
                cur.gen = cur.mk(ctx); ev = next(cur.gen)
            else:
                ev = cur.gen.send(None)
            cur.pending = ev
        except StopIteration as e:
            cur.done = True; cur.result = e.value; cur.pending = None

def run_single(ctx, gen):
    ctx.tid = 0
    try:
        ev = next(gen)
        while True:
            _, lk, mode = ev
            if (mode == 'w' and lk.state != 0) or (mode == 'r' and lk.state < 0): raise Deadlock(('self', lk.name, mode))
            ev = gen.send(None)
    except StopIteration as e:
        return e.value

def explore(run, max_paths=100000):
    work = [[]]; out = []; nchecks = 0; tsolve = 0.0
    while work:
        forced = work.pop()
        ctx = Ctx(forced)
        try: res = run(ctx); status = 'ok'
        except Infeasible: status = 'infeasible'; res = None
        except Panic as p: status = 'panic'; res = p.msg
        except Deadlock as d: status = 'deadlock'; res = d.info
        work.extend(ctx.new_alts); nchecks += ctx.nchecks; tsolve += ctx.tsolve
        if status != 'infeasible': out.append((status, res, ctx))
        if len(out) > max_paths: raise Unsupported('path budget')
    return out, nchecks, tsolve
