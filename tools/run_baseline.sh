#!/bin/sh
# Runs the repository's pinned test suite (the command of /root/.vp/BASELINE.json) on /repo as it is.
# No verification hooks exist in /repo (MANIFEST.hooks.source_commits is empty), so "guard off" is the plain build.
cd /repo || exit 2
export CARGO_NET_OFFLINE=true
if [ -f /w/lib/nextest.toml ] && command -v cargo-nextest >/dev/null 2>&1; then
  cargo nextest run --workspace --no-fail-fast --tool-config-file pb:/w/lib/nextest.toml --profile pb --test-threads 8 --offline
else
  cargo test --workspace --no-fail-fast --offline
fi
