#!/bin/sh
# keep_mutant.sh <worktree> <seeded id>  : copy the deliverables of a confirmed seeded change into /verif/seeded/<id>/
WT=$1; ID=$2
mkdir -p /verif/seeded/$ID && cp $WT/_mutant/patch.diff $WT/_mutant/demo.rs /verif/seeded/$ID/ && cp $WT/_mutant/NOTES.md /verif/seeded/$ID/NOTES.md && ls /verif/seeded/$ID
