"""Step verification conditions on the three cache engines (DESIGN.md section 3/4).

STEP(flavour, policy, presence of limit/ttl/max_memory, n, op): from an arbitrary pre-state with n entries that satisfies
the representation invariant, execute the real MIR of one operation with symbolic arguments; on every feasible path
check the post-conditions, each tagged with the property it belongs to.  One step covers histories of any length whose
states have <= N entries.  The oracle is the properties' statement over (pre-state, arguments, result, post-state)."""
import time, json, z3
from .engine import (term_eq, Interp, Ctx, Str, Agg, Ref, Cell, explore, Unsupported, Panic, Deadlock, is_conc, is_z3, simp, b_and, b_or, b_not, deref_all, to_real, powf_term)
from .models import Harness, Cfg, POLICIES, NS, HITS_MAX

RECENCY = ('LRU', 'ARC', 'TLRU')
COUNTING = ('LFU', 'ARC', 'TLRU')


class Claim:
    __slots__ = ('prop', 'clause', 'formula')
    def __init__(s, prop, clause, formula): s.prop = prop; s.clause = clause; s.formula = formula


class PathView:
    """post-state of one path, normalised against the pre-state (which post key is which pre entry / the argument)"""
    def __init__(s, ctx, h, k):
        s.ctx = ctx; s.h = h; s.k = k
        s.cache = {}
    def ident(s, term):
        """'i' (pre index) / 'arg' / None (unknown key) for a key term, decided by the solver under the path condition"""
        key = term.get_id() if is_z3(term) else ('c', term)
        if key in s.cache: return s.cache[key]
        r = None
        for i, e in enumerate(s.h.pre):
            if is_z3(term) and term.eq(e.key): r = i; break
        if r is None:
            for i, e in enumerate(s.h.pre):
                okk, _ = s.ctx.prove(term == e.key)
                if okk: r = i; break
        if r is None and s.k is not None:
            okk, _ = s.ctx.prove(term == s.k)
            if okk: r = 'arg'
        s.cache[key] = r
        return r


def _case_conditions(h, k):
    """[(case id, condition)] : k equals pre entry i / k is a new key"""
    cs = [(i, k == e.key) for i, e in enumerate(h.pre)]
    cs.append((None, z3.And([k != e.key for e in h.pre]) if h.pre else True))
    return cs


def score_terms(cfg, ordered, now_ns=None, tnow=None, interp=None, ctx=None):
    """property-level scores (exact arithmetic) of a list of candidate dicts in recency order (index 0 = least recently used):
    cand = dict(hits=, age_frac= remaining lifetime fraction term or None)"""
    out = []
    for rank0, c in enumerate(ordered):
        rank = rank0 + 1
        if cfg.policy == 'LFU': sc = to_real(c['hits'])
        elif cfg.policy == 'ARC': sc = to_real(c['hits']) * rank
        else:
            hreal = to_real(c['hits'])
            if cfg.fw is not None:
                comp = z3.If(hreal > 0, powf_term(ctx, hreal, z3.RealVal(str(cfg.fw))), 0)
            else: comp = hreal
            sc = comp * rank * (c['frac'] if c.get('frac') is not None else 1)
        out.append(sc)
    return out


class StepResult:
    def __init__(s): s.paths = 0; s.claims = 0; s.failed = []; s.panics = []; s.deadlocks = []; s.stats = {}; s.classes = set(); s.funcs = set(); s.builtins = set(); s.wall = 0.0


def model_witness(ctx, model, h, extra):
    """concrete pre-state / arguments from a z3 model (for native replay)"""
    def ev(t):
        if t is None: return None
        if is_conc(t): return int(t)
        v = model.eval(t, model_completion=True)
        if z3.is_int_value(v): return v.as_long()
        if z3.is_rational_value(v): return float(v.numerator_as_long()) / float(v.denominator_as_long())
        if z3.is_true(v): return True
        if z3.is_false(v): return False
        return str(v)
    cfg = h.cfg
    w = dict(flavour=cfg.flavour, policy=cfg.policy, limit=ev(cfg.limit), ttl=ev(cfg.ttl), max_memory=ev(cfg.mem), frequency_weight=cfg.fw,
             now0=ev(h.now0), entries=[dict(key=ev(e.key), val=ev(e.val), birth=ev(e.birth), hits=ev(e.hits), size=ev(e.size)) for e in h.pre],
             clock=[ev(t) for t in (ctx.sys_vars if cfg.flavour == 'A' else ctx.now_vars)],
             rand=[ev(e[2]) for e in ctx.events if e[0] == 'rand'],
             phase_ms=(int(ev(ctx.sys_fracs[-1])) // 1000000 if getattr(ctx, 'sys_fracs', None) and isinstance(ev(ctx.sys_fracs[-1]), (int, float)) else 0),
             handle_delay=(ev(h.now0) - ev(h.t_constructed)) if getattr(h, 't_constructed', None) is not None and isinstance(ev(h.now0), (int, float)) and isinstance(ev(h.t_constructed), (int, float)) else 0)
    for k, v in extra.items(): w[k] = ev(v) if not isinstance(v, (str, list, dict)) else v
    return w


def nice_model(ctx, f, h, model):
    """a replay-friendly model of pc & not f: integral hits/clock (when the VC was decided over the reals), moderate ages,
    ages away from whole-second boundaries.  Returns None if integrality makes the violation disappear."""
    s = ctx.solver
    neg = z3.Not(f)
    def attempt(extra):
        s.push()
        try:
            s.add(neg)
            for c in extra: s.add(c)
            r = s.check()
            return s.model() if r == z3.sat else (None if r == z3.unsat else 'unknown')
        finally:
            s.pop()
    hard = []
    if h.cfg.real:
        for e in h.pre: hard += [z3.IsInt(e.hits), z3.IsInt(e.birth)]
        hard += [z3.IsInt(h.now0)] + [z3.IsInt(t) for t in (ctx.sys_vars if h.cfg.flavour == 'A' else ctx.now_vars) if z3.is_real(t)]
        if h.cfg.ttl is not None: hard.append(z3.IsInt(h.cfg.ttl))
    soft = []
    A = h.cfg.flavour == 'A'
    horizon = 3000 if A else 3000 * NS
    soft.append(h.now0 <= (10 ** 9 if A else 10 ** 15))
    for e in h.pre:
        soft.append(h.now0 - e.birth <= horizon)
        soft.append(e.hits <= 50)
    if h.cfg.ttl is not None: soft.append(h.cfg.ttl <= 1000)
    # natively an operation takes microseconds: prefer witnesses in which no time passes during the operation
    clk = list(ctx.sys_vars if A else ctx.now_vars)
    iop = next((i for i, t in enumerate(clk) if t is h.now0), 0)
    for t in clk[iop + 1:]: soft.append(t == h.now0)
    # ... and, if possible, one in which the handle is used at once after it was built
    nodelay = [t == h.now0 for t in clk[:iop]]
    if A and getattr(h, 't_constructed', None) is not None: nodelay.append(h.now0 - h.t_constructed <= 2)
    soft2 = []
    if not A and not h.cfg.real:
        for i, e in enumerate(h.pre):
            q = z3.Int('nice_q%d' % i); r = z3.Int('nice_r%d' % i)
            soft2 += [h.now0 - e.birth == q * NS + r, r >= 300000000, r <= 700000000]
    for extra in (hard + soft + soft2 + nodelay, hard + soft + nodelay, hard + soft + soft2 + [h.now0 - t <= (2 if A else 2 * NS) for t in clk[:iop]], hard + soft + soft2, hard + soft, hard):
        m = attempt(extra)
        if m is not None and m != 'unknown': return m
        if extra is hard or (not soft and not soft2):
            break
    if hard:
        m = attempt(hard)
        if m is None: return None
        if m == 'unknown': return model
        return m
    return model


# preservation of the representation invariant by every core operation: every property decided from Inv pre-states (all STEP
# VCs) or through the wrappers (which reach the engines only through these operations) rests on it, so each such check
# discharges these obligations too (reported under the property being checked)
INV_CLAUSES = {'queue still tracks exactly the stored keys', 'queue tracks exactly the stored keys, without duplicates', 'queue tracks exactly the stored keys',
               'an expired entry is purged from the eviction queue on access', 'never more than `limit` entries after a store'}


def run_step(P, cfg, n, op, props=None, seed=0, timeout_ms=20000, nmax=None, deadline=None, hits_max=False, inv_for=None):
    """execute STEP(cfg, n, op) and check all claims whose property is in `props` (None = all)"""
    I = Interp(P)
    res = StepResult(); t0 = time.time()
    # TLRU scores multiply hits by an age factor: decided over the reals (hits / clock real-valued: a sound
    # over-approximation of the integer state space; a real-valued witness is re-solved with integrality before replay)
    cfg.real = (cfg.policy == 'TLRU' and cfg.has_ttl and op != 'get')

    cur = {}
    def run(ctx):
        I.reset()
        h = Harness(P, I, ctx, cfg, n, nmax=nmax, hits_max=hits_max)
        k = z3.Int('argkey'); v = z3.Int('argval')
        cur['h'] = h; cur['k'] = k; cur['v'] = v; cur['ctx'] = ctx
        ctx.add(z3.And(k >= 0, v >= 0))
        sz = h.SIZE(v); ctx.add(z3.And(sz >= 0, sz <= 2 ** 40))
        kstr = Ref(Cell(Str(k), 'key'))
        pre_clock = len(ctx.sys_vars if cfg.flavour == 'A' else ctx.now_vars)
        if op == 'get': r = h.call('get', kstr)
        elif op == 'insert': r = h.call('insert', kstr, v)
        elif op == 'insert_with_memory': r = h.call('insert_with_memory', kstr, v)
        elif op == 'clear': r = h.call('clear')
        elif op in ('insert_result_ok', 'insert_result_err'):
            rv = Agg('Result', 0 if op.endswith('ok') else 1, [v])
            r = h.call('insert_result', kstr, Ref(Cell(rv, 'res')))
            cur['rv'] = rv
        else: raise Unsupported('op ' + op)
        return h, k, v, r, pre_clock

    snap = []
    def run2(ctx):
        try: return run(ctx)
        finally: snap.append(dict(cur))
    outs, st = explore(run2, seed=seed, timeout_ms=timeout_ms, deadline=deadline)
    res.stats = st
    bypath = {id(c['ctx']): c for c in snap if 'ctx' in c}
    for o in outs:
        ctx = o.ctx; res.paths += 1; res.funcs |= ctx.funcs_used; res.builtins |= ctx.builtins_used
        if o.status in ('panic', 'deadlock'):
            res.classes.add(o.status)
            c = bypath.get(id(ctx)); w = None
            if c is not None and ctx.check():
                hh = c['h']; m = nice_model(ctx, z3.BoolVal(False), hh, ctx.solver.model())
                w = model_witness(ctx, m, hh, dict(argkey=c['k'], argval=c['v'], argsize=hh.SIZE(c['v']), op=op, result=None))
            rec = dict(prop='C16' if o.status == 'panic' else 'C17', clause='no panic' if o.status == 'panic' else 'no self-deadlock',
                       msg=(o.res.msg if o.status == 'panic' else str(o.res)), cfg=cfg.tag(), n=n, op=op, witness=w)
            (res.panics if o.status == 'panic' else res.deadlocks).append(rec)
            continue
        h, k, v, r, pre_clock = o.res
        claims = []
        if op == 'get': cls = oracle_get(ctx, h, k, r, claims, pre_clock)
        elif op in ('insert', 'insert_with_memory'): cls = oracle_insert(ctx, h, k, v, claims, pre_clock, with_memory=(op == 'insert_with_memory'))
        elif op == 'insert_result_ok': cls = oracle_insert(ctx, h, k, Agg('Result', 0, [v]), claims, pre_clock, with_memory=False)
        elif op in ('insert_result_err', 'clear'): cls = oracle_unchanged_or_empty(ctx, h, claims, op)
        else: cls = [op]
        for c in cls: res.classes.add(c)
        for case_cond, cl in claims:
            # wrapper-level properties also rest on the lookup / store contract of the engines (value, presence, lifetime: the C01, C03, C06 obligations)
            as_inv = bool(inv_for) and (cl.clause in INV_CLAUSES or cl.prop in ('C01', 'C03', 'C06')) and (props is None or cl.prop not in props)
            if props is not None and cl.prop not in props and not as_inv: continue
            res.claims += 1
            f = cl.formula
            if case_cond is not True: f = z3.Implies(case_cond, f) if f is not False else z3.Not(case_cond)
            okk, model = ctx.prove(f)
            if not okk:
                model = nice_model(ctx, f, h, model)
                if model is None:
                    res.spurious_real = getattr(res, 'spurious_real', 0) + 1
                    continue
                res.failed.append(dict(prop=(inv_for if as_inv else cl.prop), clause=(('core contract this property rests on: ' + cl.clause) if as_inv else cl.clause),
                                       orig_prop=cl.prop, orig_clause=cl.clause, cfg=cfg.tag(), n=n, op=op,
                                       witness=model_witness(ctx, model, h, dict(argkey=k, argval=v, argsize=(h.SIZE(v) if not isinstance(v, Agg) else 0), op=op, result=('Some' if getattr(r, 'variant', 0) == 1 else 'None') if op == 'get' else None))))
    res.wall = time.time() - t0
    return res


# ------------------------------------------------------------------------------------------------ oracles
def _post(ctx, h, k):
    pv = PathView(ctx, h, k)
    store = []
    for (kt, val, birth, hits) in h.store_view():
        store.append(dict(id=pv.ident(kt), key=kt, val=val, birth=birth, hits=hits))
    queue = [pv.ident(t) for t in h.queue_view()]
    return pv, store, queue


def _unchanged(e, s):
    return b_and(simp(term_eq(s['val'], e.val)), simp(s['birth'] == e.birth), simp(s['hits'] == e.hits))


def oracle_unchanged_or_empty(ctx, h, claims, op):
    pv, store, queue = _post(ctx, h, None)
    ids = [s['id'] for s in store]
    def add(prop, clause, f): claims.append((True, Claim(prop, clause, f)))
    add('C16', 'no lock / borrow is left held', not h.locks_free())
    h1, m1 = h.stats_view()
    add('C15', 'a store or a clear does not touch the hit/miss counters', b_and(simp(h1 == h.h0), simp(m1 == h.m0)))
    if op == 'clear':
        add('C12', 'clear empties the store', len(ids) == 0); add('C12', 'clear empties the eviction queue', len(queue) == 0)
        add('C04', 'queue tracks exactly the stored keys', len(ids) == 0 and len(queue) == 0)
        return ['clear']
    add('C09', 'an Err result is not stored: the cache is unchanged', ids == list(reversed(range(h.n))) and queue == list(range(h.n)) and simp(b_and(*[_unchanged(h.pre[s['id']], s) for s in store])))
    add('C01', 'an Err result is not stored: the cache is unchanged', ids == list(reversed(range(h.n))) and queue == list(range(h.n)))
    return ['insert_result/err']


def oracle_get(ctx, h, k, r, claims, pre_clock):
    cfg = h.cfg; A = cfg.flavour == 'A'
    classes = []
    bounded = cfg.has_limit or cfg.has_mem
    h1, m1 = h.stats_view()
    hit = (r.variant == 1)
    clock = ctx.sys_vars if A else ctx.now_vars
    t_last = clock[-1]
    for case, cond in _case_conditions(h, k):
        if not ctx.feasible(cond): continue
        ctx.solver.push(); ctx.solver.add(cond)
        try:
            pv, store, queue = _post(ctx, h, k)
        finally:
            ctx.solver.pop()
        def add(prop, clause, f): claims.append((cond, Claim(prop, clause, f)))
        ids = [s['id'] for s in store]
        add('C16', 'no lock / borrow is left held', not h.locks_free())
        # statistics: exactly one counter moves, and it is the hit counter iff a value was returned
        if cfg.flavour in ('G', 'A', 'T'):
            add('C15' if cfg.flavour != 'T' else 'C15T', 'lookup counted exactly once, as hit iff a value is returned',
                b_and(simp(h1 == h.h0 + (1 if hit else 0)), simp(m1 == h.m0 + (0 if hit else 1))))
        if case is None:
            classes.append('get/absent')
            add('C01', 'lookup of an absent key returns nothing', not hit)
            add('C03', 'a miss removes nothing', sorted(map(str, ids)) == sorted(map(str, range(h.n))))
            add('C01', 'a miss leaves every entry unchanged', b_and(*[_unchanged(h.pre[s['id']], s) for s in store if isinstance(s['id'], int)]))
            add('C04', 'queue still tracks exactly the stored keys', sorted(map(str, queue)) == sorted(map(str, ids)) and len(set(queue)) == len(queue))
            continue
        e = h.pre[case]
        if A:
            T = cfg.ttl
            exp_start = (h.tnow0 - e.tstore >= to_real(T)) if cfg.has_ttl else False
            fresh_end = (t_last + 1 - e.birth <= T - 1) if cfg.has_ttl else True
        else:
            exp_start = (h.now0 - e.birth >= cfg.ttl * NS) if cfg.has_ttl else False
            fresh_end = (t_last - e.birth < cfg.ttl * NS) if cfg.has_ttl else True
        others_ok = b_and(*[_unchanged(h.pre[s['id']], s) for s in store if isinstance(s['id'], int) and s['id'] != case])
        if hit:
            classes.append('get/hit')
            add('C06', 'an entry of age >= ttl is never served', b_not(exp_start))
            add('C01', 'a hit returns the value stored for exactly this key', simp(r.fields[0] == e.val))
            add('C03', 'a hit removes nothing', sorted(map(str, ids)) == sorted(map(str, range(h.n))))
            me = [s for s in store if s['id'] == case]
            if me:
                exp_hits = (z3.If(e.hits + 1 > 2 ** 64 - 1, 2 ** 64 - 1, e.hits + 1) if is_z3(e.hits) else min(e.hits + 1, 2 ** 64 - 1)) if cfg.policy in COUNTING else e.hits
                add('C08' if cfg.policy in COUNTING else 'C01', 'a hit counts one use of the entry (LFU/ARC/TLRU) and changes nothing else in it',
                    b_and(simp(me[0]['val'] == e.val), simp(me[0]['birth'] == e.birth), simp(me[0]['hits'] == exp_hits)))
            if me: add('C06', 'a hit does not renew the lifetime of the entry', simp(me[0]['birth'] == e.birth))
            add('C01', 'a hit leaves every other entry unchanged', others_ok)
            if cfg.policy in RECENCY and bounded:
                expq = [i for i in range(h.n) if i != case] + [case]
                add('C07' if cfg.policy == 'LRU' else 'C08', 'a hit makes the entry the most recently used one (queue order)', queue == expq)
            elif bounded:
                add('C07' if cfg.policy == 'FIFO' else ('C08' if cfg.policy in COUNTING else 'C04'), 'a hit does not change the eviction order', queue == list(range(h.n)))
            else:
                add('C04', 'queue still tracks exactly the stored keys', sorted(map(str, queue)) == sorted(map(str, ids)) and len(set(queue)) == len(queue))
        else:
            classes.append('get/expired' if cfg.has_ttl else 'get/present-not-served')
            add('C06', 'an entry younger than ttl (async: ttl-1) is served', b_not(fresh_end))
            add('C06', 'an expired entry is purged from the store on access', case not in ids)
            add('C06', 'an expired entry is purged from the eviction queue on access', case not in queue)
            add('C04', 'expiry removes only the expired entry', sorted(map(str, ids)) == sorted(map(str, [i for i in range(h.n) if i != case])))
            add('C04', 'queue still tracks exactly the stored keys', sorted(map(str, queue)) == sorted(map(str, ids)) and len(set(queue)) == len(queue))
            add('C07' if cfg.policy in ('FIFO', 'LRU') else 'C08' if cfg.policy != 'Random' else 'C04', 'expiry keeps the relative eviction order of the others',
                [q for q in queue if q != case] == [i for i in range(h.n) if i != case])
            add('C01', 'expiry leaves every other entry unchanged', others_ok)
    return classes


def oracle_insert(ctx, h, k, v, claims, pre_clock, with_memory=False):
    cfg = h.cfg; A = cfg.flavour == 'A'
    classes = []
    clock = ctx.sys_vars if A else ctx.now_vars
    for case, cond in _case_conditions(h, k):
        if not ctx.feasible(cond): continue
        ctx.solver.push(); ctx.solver.add(cond)
        try:
            pv, store, queue = _post(ctx, h, k)
            # which pre-state entries / the newcomer survived
            ids = [s['id'] for s in store]
        finally:
            ctx.solver.pop()
        def add(prop, clause, f): claims.append((cond, Claim(prop, clause, f)))
        add('C16', 'no lock / borrow is left held', not h.locks_free())
        newid = case if case is not None else 'arg'
        # L: ghost order after the store (re-stored key moves to the back)
        L = [i for i in range(h.n) if i != case] + [newid]
        norm = lambda x: case if (x == 'arg' and case is not None) else x
        ids = [norm(x) for x in ids]; queue = [norm(x) for x in queue]
        for s in store: s['id'] = norm(s['id'])
        present = [x for x in L if x in ids]
        removed = [x for x in L if x not in ids]
        unknown = [x for x in ids if x not in L]
        add('C01', 'the store holds only keys that were stored', not unknown and len(ids) == len(set(map(str, ids))))
        add('C04', 'queue tracks exactly the stored keys, without duplicates', sorted(map(str, queue)) == sorted(map(str, ids)) and len(set(map(str, queue))) == len(queue))
        me = [s for s in store if s['id'] == newid]
        # sizes / memory
        size_new = h.SIZE(v) if not isinstance(v, Agg) else 0
        oversized = (size_new > cfg.mem) if (with_memory and cfg.has_mem) else False
        if me:
            add('C01', 'after a store the entry holds the value just stored (last store wins)', simp(term_eq(me[0]['val'], v)))
            t_first = clock[pre_clock - 1] if pre_clock >= 1 else 0
            add('C06', 'a (re-)stored entry starts a fresh lifetime', simp(me[0]['birth'] >= (h.now0)))
            if A: add('C06', 'a stored entry is never stamped later than the clock reads at the store', simp(me[0]['birth'] <= clock[-1]))
            if cfg.policy in COUNTING: add('C08', 'a (re-)stored entry starts with zero uses', simp(me[0]['hits'] == 0))
        add('C01', 'a store leaves every other surviving entry unchanged', b_and(*[_unchanged(h.pre[s['id']], s) for s in store if isinstance(s['id'], int) and s['id'] != newid]))
        if cfg.has_limit:
            add('C04', 'never more than `limit` entries after a store', simp(len(ids) <= cfg.limit))
        # ---- how many may go
        sizes = {i: h.pre[i].size for i in range(h.n)}; sizes[newid] = size_new
        def total(xs):
            t = 0
            for x in xs: t = t + sizes[x]
            return t
        if with_memory and cfg.has_mem:
            classes.append('insert_mem/' + ('overwrite' if case is not None else 'new') + '/removed%d' % len(removed))
            M = cfg.mem
            stored_total = 0
            for st_ in store: stored_total = stored_total + h.SIZE(st_['val'])
            add('C05', 'after a store the cached values fit in max_memory', simp(stored_total <= M))
            # oversized value: not cached, displaces nothing else
            add('C05', 'a value larger than max_memory is not cached and displaces nothing else',
                z3.Implies(size_new > M, b_and(newid not in ids, [x for x in L if x != newid] == [x for x in ids if x != newid] or sorted(map(str, [x for x in L if x != newid])) == sorted(map(str, [x for x in ids if x != newid])))))
            # no needless eviction: with the removed set R (|R| = m) the total before the last eviction still exceeded M,
            # or the entry limit required one removal
            if removed:
                others_removed = [x for x in removed]
                need_mem = z3.Or(size_new > M, total(L) > M)
                if cfg.has_limit:
                    add('C05', 'entries are evicted only under memory or entry-limit pressure', z3.Or(need_mem, len(L) > cfg.limit))
                else:
                    add('C05', 'entries are evicted only under memory pressure', need_mem)
                # never while it already fits: just before the last eviction the total still exceeded M, i.e. some
                # evicted entry x put back makes the survivors exceed M (order-free formulation), unless the single
                # removal is explained by the entry limit or the newcomer itself was oversized
                alts = [total(ids + [x]) > M for x in removed]
                alts.append(size_new > M)
                if cfg.has_limit and len(removed) == 1: alts.append(len(L) > cfg.limit)
                add('C05', 'no needless eviction: the total exceeded max_memory before the last eviction', z3.Or(alts))
        else:
            overflow = (len(L) > cfg.limit) if cfg.has_limit else False
            classes.append('insert/' + ('overwrite' if case is not None else 'new') + ('/evict' if removed else ''))
            if removed:
                add('C04', 'a store removes an entry only on overflow', overflow)
                add('C04', 'an overflowing store removes exactly one entry', len(removed) == 1)
            else:
                add('C04', 'an overflowing store evicts an entry', b_not(overflow))
        # ---- who goes: policy order
        if removed and not (with_memory and cfg.has_mem and False):
            cands = L if not A else [x for x in L if x != newid]
            if cfg.policy in ('FIFO', 'LRU'):
                # victims are a prefix of the ghost order (oldest store / least recent use first)
                expect = L[:len(removed)]
                if with_memory and cfg.has_mem:
                    # an oversized newcomer is itself dropped (not an eviction in policy order)
                    nonself = [x for x in removed if x != newid]
                    add('C07', 'memory pressure evicts in FIFO/LRU order (oldest first)',
                        z3.If(oversized, True, nonself == L[:len(nonself)]) if is_z3(oversized) else (True if oversized else nonself == L[:len(nonself)]))
                else:
                    add('C07', 'overflow evicts the oldest store (FIFO) / least recently used entry (LRU)', removed == expect)
            elif cfg.policy in COUNTING:
                # every removed entry r must have had a minimal score among the candidates present when it was removed.
                # (checked for the single-victim case exactly; for several victims: each victim's score <= every survivor's)
                hitsof = {i: h.pre[i].hits for i in range(h.n)}; hitsof[newid] = 0
                def frac(i):
                    if not cfg.has_ttl: return None
                    if i == newid: return z3.RealVal(1)
                    e = h.pre[i]
                    if A:
                        el = to_real(clock[-1] - e.birth); T = to_real(cfg.ttl)
                    else:
                        el = to_real(clock[-1] - e.birth) / NS; T = to_real(cfg.ttl)
                    x = 1 - z3.If(el / T < 1, el / T, 1)
                    # ttl = 0: the documented fraction elapsed/ttl is saturated at 1 (0/0 and x/0 alike), i.e. no remaining life
                    return z3.If(T == 0, 0, z3.If(x > 0, x, 0))
                ordered = [dict(id=i, hits=hitsof[i], frac=frac(i)) for i in cands]
                sc = dict(zip(cands, score_terms(cfg, ordered, ctx=ctx)))
                surv = [x for x in cands if x not in removed]
                victims = [x for x in removed if x in sc and not (with_memory and cfg.has_mem and x == newid)]
                if len(victims) == 1:
                    for c in surv: add('C08', 'the evicted entry has the lowest documented score (ties arbitrary)', simp(sc[victims[0]] <= sc[c]))
                elif 1 < len(victims) <= 3:
                    # several victims of one store (memory pressure): ranks shift when earlier victims leave, so the scores are
                    # recomputed over the entries still present at each removal; some removal order must make every victim minimal
                    import itertools
                    alts = []
                    for perm in itertools.permutations(victims):
                        present = list(cands); conj = []
                        for r_ in perm:
                            sck = dict(zip(present, score_terms(cfg, [dict(id=i, hits=hitsof[i], frac=frac(i)) for i in present], ctx=ctx)))
                            conj += [simp(sck[r_] <= sck[c]) for c in present if c != r_]
                            present.remove(r_)
                        alts.append(b_and(*conj))
                    add('C08', 'every victim of a store had the lowest documented score among the entries present when it was removed (in some removal order)', b_or(*alts))
            # Random: any victim is fine
        # order of the survivors
        bounded = cfg.has_limit or cfg.has_mem
        if bounded:
            expq = [x for x in L if x in ids]
            add('C07' if cfg.policy in ('FIFO', 'LRU') else ('C08' if cfg.policy in COUNTING else 'C04'),
                'after a store the queue lists the survivors oldest-first with the stored key last', queue == expq)
    return classes
