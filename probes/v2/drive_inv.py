import sys, time, z3
from mirsym2 import *
P = Program(); P.load('/tmp/mirprobe/core_full.mir', '/tmp/mirprobe/core_fv.mir', 'core'); P.load('/tmp/subj/subj_f.mir', '/tmp/subj/subj_fv.mir', 'subj')
I = Interp(P)
def call(ctx, fn, args):
    r = run_single(ctx, I.call_fn(ctx, P.fns[fn], args))
    if isinstance(r, Coroutine):
        r = run_single(ctx, I.call_fn(ctx, P.fns[r.fname], [Agg('Pin', 0, [Ref(Cell(r, 'fut'))]), Opaque('cx')]))
    return r
def sizes():
    out = {}
    for n, c in I.static_cells.items():
        m = re.search(r'(?:GLOBAL_OR_THREAD_|__)(CACHE|ORDER)_(\w+)$', n)
        if not m or isinstance(c.v, tuple): continue
        v = c.v.inner.v if isinstance(c.v, LazyM) and c.v.inner else None
        if v is None: continue
        inner = v.inner.v if isinstance(v, LockM) else v
        out[(m.group(2), m.group(1))] = len(inner.items)
    return out
SUBJ = ['g_lru2', 'g_tag2', 'g_ev', 'a_dep', 'g_plain']
def scenario(request, name):
    def run(ctx):
        I.reset()
        ks = [z3.BitVec(f'k{i}', 32) for i in range(2)]; ctx.add(ks[0] != ks[1])
        for s_ in SUBJ:
            for k in ks: call(ctx, s_, [k])
        before = sizes()
        r = call(ctx, P.resolve('cachelito::' + request).name, [Str(name)])
        after = sizes()
        # follow-up: does the next call execute the body?
        ex0 = len([e for e in ctx.events if e[0] == 'exec'])
        reexec = {}
        for s_ in SUBJ:
            n0 = len([e for e in ctx.events if e[0] == 'exec']); call(ctx, s_, [ks[0]]); reexec[s_] = len([e for e in ctx.events if e[0] == 'exec']) - n0
        return r, before, after, reexec
    out, nchecks, _ = explore(run)
    for status, res, ctx in out:
        if status != 'ok': print(request, name, status, res); continue
        r, before, after, reexec = res
        emptied = sorted({k[0] for k in after if after[k] == 0 and before[k] > 0 and k[1] == 'CACHE'})
        q_emptied = sorted({k[0] for k in after if after[k] == 0 and before[k] > 0 and k[1] == 'ORDER'})
        print(f'{request}("{name}") -> {r if is_conc(r) else z3.simplify(r)}  store emptied: {emptied}  queue emptied: {q_emptied}  re-executed next call: {[s_ for s_ in SUBJ if reexec[s_]]}')
t = time.time()
for req, nm in [('invalidate_by_tag', 't1'), ('invalidate_by_tag', 't2'), ('invalidate_by_tag', 'e1'), ('invalidate_by_event', 'e1'), ('invalidate_by_dependency', 'g_lru2'),
                ('invalidate_cache', 'g_lru2'), ('invalidate_cache', 'g_plain'), ('invalidate_cache', 'nothing')]:
    try: scenario(req, nm)
    except Unsupported as e: print(req, nm, 'UNSUPPORTED', e)
print('wall %.2fs' % (time.time() - t))
