"""Suspension / cancellation VCs for async cached calls (C20).  The poll state machine that rustc emitted for the real
`#[cache_async]` expansion is interpreted; the body awaits `env::gate(id)` futures whose readiness the driver controls.
At every `Poll::Pending` return: no cache lock is held, no guard is saved in the coroutine, no entry exists for the pending
result; other calls / invalidations run to completion meanwhile; then the call is either resumed (stores normally) or
dropped (the cache is unchanged by the drop)."""
import time
import z3
from .engine import (Interp, Ctx, Agg, Cell, Ref, Str, EnvFn, Coroutine, Opaque, LockM, GuardM, BorrowM, LazyM, OnceM, MapM, RefCellM, explore, run_single,
                     Unsupported, Panic, Deadlock, Infeasible, is_conc, is_z3, simp, b_and, b_or, b_not, deref_all, str_eq, term_eq)
from . import wrap
from .vc_wrap import install_cache_hook, cache_parts, arg_tuple, tuple_eq, render_key
from .vc_inv import Pred


def all_locks(I):
    """every lock object reachable from the statics (store / queue / registry locks, DashMap shard locks)"""
    seen = set(); out = []
    def walk(x, depth=0):
        if id(x) in seen or depth > 8: return
        seen.add(id(x))
        if isinstance(x, LockM): out.append(x); walk(x.inner.v, depth + 1)
        elif isinstance(x, LazyM):
            if x.inner is not None: walk(x.inner.v, depth + 1)
        elif isinstance(x, OnceM):
            if x.value is not None: walk(x.value.v, depth + 1)
        elif isinstance(x, MapM):
            if x.shard is not None: out.append(x.shard)
            for k, v in x.items: walk(v, depth + 1)
        elif isinstance(x, Agg):
            for f in x.fields: walk(f, depth + 1)
        elif isinstance(x, Ref): walk(deref_all(x), depth + 1)
    for c in I.static_cells.values(): walk(c.v)
    return out


def guards_in(x, depth=0, seen=None):
    seen = seen if seen is not None else set()
    if id(x) in seen or depth > 10: return []
    seen.add(id(x)); out = []
    if isinstance(x, (GuardM, BorrowM)) and x.live: out.append(x)
    if isinstance(x, (Agg, Coroutine)):
        for f in x.fields: out += guards_in(f, depth + 1, seen)
    return out


def run(P, item):
    props = set(item['props']); name = item['subject']; t0 = time.time()
    res = dict(paths=0, claims=0, failed=[], classes=set(), funcs=set(), builtins=set())
    susp_at = item['suspend_at']; inter = item['inter']; end = item['end']; nfill = item.get('nfill', 1)

    def run_path(ctx):
        I = Interp(P); E = wrap.Env(I)
        subj = wrap.Subject(P, name); rec = subj.rec; arity = len(rec['args']); sid = rec['id']
        log = []; install_cache_hook(I, ctx, log)
        fills = []
        for i in range(nfill):
            xs = arg_tuple(ctx, f'f{i}', arity)
            for prev in fills: ctx.add(b_not(tuple_eq(xs, prev)))
            wrap.call_subject(I, ctx, subj, xs, 0); fills.append(xs)
        pre_keys = []
        if log:
            st0, q0, _c0 = cache_parts(P, log[-1]['cache'], log[-1]['ty'], 0); pre_keys = [k for k, v in st0.items]
        target = item.get('target', 'new')
        if target == 'fill' and fills: x = fills[0]          # a call for stored arguments: reaches the body only if invalidate_on says stale
        else:
            x = arg_tuple(ctx, 'x', arity)
            for prev in fills: ctx.add(b_not(tuple_eq(x, prev)))        # the suspended call is a miss
        pend = {'gate': sid * 10 + susp_at, 'armed': True}
        def gate(c, gid):
            if pend['armed'] and (gid == pend['gate'] if is_conc(gid) else False):
                pend['armed'] = False; return False
            return True
        E.gate = gate
        nev = len(ctx.events)
        co = run_single(ctx, I.call_fn(ctx, subj.fn, list(x)))
        cell = Cell(co, 'fut'); pf = P.fns[co.fname]
        pr = run_single(ctx, I.call_fn(ctx, pf, [Agg('Pin', 0, [Ref(cell)]), Opaque('cx')]))
        if pr.variant != 1:
            if target == 'fill': return dict(not_suspended=True)
            raise Unsupported('the call did not suspend at gate %d' % susp_at)
        g0 = [c for c in log if c['method'] == 'get']
        store, queue, cfg = cache_parts(P, g0[-1]['cache'], g0[-1]['ty'], 0)
        at_susp = dict(held=[l.name for l in all_locks(I) if l.state != 0], guards=len(guards_in(co)), keys=[k for k, v in store.items], queue=list(queue.items),
                       execs=len([e for e in ctx.events[nev:] if e[0] == 'exec']), state=co.variant)
        # ---- other work while suspended
        pred = Pred(ctx); cname = rec['intended']['cache_name']
        other = None
        ne = len(ctx.events)
        if inter == 'call_same': other = wrap.call_subject(I, ctx, subj, x, 0)
        elif inter == 'call_other':
            y = arg_tuple(ctx, 'y', arity)
            for prev in fills + [x]: ctx.add(b_not(tuple_eq(y, prev)))
            other = wrap.call_subject(I, ctx, subj, y, 0)
        elif inter == 'call_fill': other = wrap.call_subject(I, ctx, subj, fills[0], 0)
        elif inter == 'inv_cache': other = run_single(ctx, I.call_fn(ctx, P.resolve('invalidation::invalidate_cache'), [Ref(Cell(Str(cname), 'n'))]))
        elif inter == 'inv_tag': other = run_single(ctx, I.call_fn(ctx, P.resolve('invalidation::invalidate_by_tag'), [Ref(Cell(Str(rec['intended']['tags'][0]), 'n'))]))
        elif inter == 'inv_with':
            p = EnvFn('pred', lambda c, A: pred.verdict(cname, deref_all(A[0])))
            other = run_single(ctx, I.call_fn(ctx, P.resolve('invalidation::invalidate_with'), [Ref(Cell(Str(cname), 'n')), p]))
        elif inter != 'none': raise Unsupported('interleaved op ' + inter)
        inter_execs = len([e for e in ctx.events[ne:] if e[0] == 'exec'])
        mid = dict(keys=[k for k, v in store.items], vals=[v for k, v in store.items], queue=list(queue.items), held=[l.name for l in all_locks(I) if l.state != 0])
        # ---- resume or drop
        fin = None; ne2 = len(ctx.events)
        # a clock reading while the call is still suspended: whatever the resumed call stamps is stamped no earlier than this
        tmark = ctx.fresh_time('unix_s', 2 ** 40)
        if ctx.sys_vars: ctx.add(tmark >= ctx.sys_vars[-1])
        ctx.sys_vars.append(tmark)
        if end == 'resume':
            for _ in range(8):
                pr = run_single(ctx, I.call_fn(ctx, pf, [Agg('Pin', 0, [Ref(cell)]), Opaque('cx')]))
                if pr.variant == 0: fin = pr.fields[0]; break
            if fin is None: raise Unsupported('resumed call did not complete')
        else:
            I.drop_val(ctx, co)
        after = dict(keys=[k for k, v in store.items], vals=[v for k, v in store.items], queue=list(queue.items), held=[l.name for l in all_locks(I) if l.state != 0],
                     execs=[e for e in ctx.events[ne2:] if e[0] == 'exec'])
        key = g0[-1]['key']
        return dict(subj=subj, x=x, fills=fills, at_susp=at_susp, mid=mid, after=after, fin=fin, other=other, inter_execs=inter_execs, key=key, pred=pred, pre_keys=pre_keys, tmark=tmark)

    outs, st = explore(run_path, seed=item.get('seed', 0), timeout_ms=20000)
    for o in outs:
        ctx = o.ctx; res['paths'] += 1; res['funcs'] |= ctx.funcs_used; res['builtins'] |= ctx.builtins_used
        if o.status in ('panic', 'deadlock'):
            res['classes'].add(o.status)
            res['failed'].append(dict(prop='C20', clause='other calls and invalidations complete while a call is suspended (no lock is held across the await)' if o.status == 'deadlock' else 'no panic', kind='susp', msg=str(o.res), cfg=f"SUSP/{name}", op=f"suspend@{susp_at}/{inter}/{end}",
                                      witness=dict(subject=name, suspend_at=susp_at, inter=inter, end=end, nfill=nfill, blocked=True, target=item.get('target', 'new'))))
            continue
        d = o.res; claims = []
        if d.get('not_suspended'):
            res['classes'].add('served-without-suspension'); continue
        s_ = d['at_susp']; it = d['subj'].rec['intended']
        def add(clause, f): claims.append(('C20', clause, f))
        res['classes'].add(f"suspended/state{s_['state']}/{inter}/{end}")
        add('no cache lock is held while the call is suspended', len(s_['held']) == 0)
        add('the suspended coroutine keeps no guard alive across the await', s_['guards'] == 0)
        present = b_or(*[simp(str_eq(k, d['key'])) for k in s_['keys']]) if s_['keys'] else False
        if item.get('target', 'new') != 'fill': add('no entry exists for a result that has not been produced yet', b_not(present))
        add('the body has not produced its result at the suspension point', s_['execs'] == 0)
        if it['ttl'] is None and d['pre_keys']:
            # "as if that call had only performed its initial lookup": a lookup (hit, stale hit or miss) removes nothing when nothing can expire
            add('a suspended call has removed no entry from the cache (it has only performed its lookup)',
                b_and(*[(b_or(*[simp(str_eq(pk, k)) for k in s_['keys']]) if s_['keys'] else False) for pk in d['pre_keys']]))
        add('no lock is left held by the work done while the call was suspended', len(d['mid']['held']) == 0)
        if end == 'drop':
            add('dropping the suspended call changes neither store nor queue', len(d['after']['keys']) == len(d['mid']['keys']) and len(d['after']['queue']) == len(d['mid']['queue'])
                and simp(b_and(*[str_eq(a, b) for a, b in zip(d['after']['keys'], d['mid']['keys'])])) is True and simp(b_and(*[str_eq(a, b) for a, b in zip(d['after']['queue'], d['mid']['queue'])])) is True)
            add('dropping the suspended call never runs the body', len(d['after']['execs']) == 0)
            add('no lock is held after the drop', len(d['after']['held']) == 0)
        else:
            ex = d['after']['execs']
            add('a resumed call runs the body exactly once', len(ex) == 1)
            if ex:
                add('a resumed call returns its own result', simp(term_eq(d['fin'], ex[0][4])))
                if not it['result'] and not it['cache_if'] and item.get('target', 'new') != 'fill':
                    pres = [simp(str_eq(k, d['key'])) for k in d['after']['keys']]
                    add('a resumed call stores its result normally', b_or(*pres) if pres else False)
                    for k, v in zip(d['after']['keys'], d['after']['vals']):
                        c = simp(str_eq(k, d['key']))
                        if c is True and it['max_memory'] is None:
                            vv = v.fields[0] if isinstance(v, Agg) else v
                            add('the entry stored by the resumed call holds its result', simp(term_eq(vv, ex[0][4])))
            if ex and it['ttl'] is not None and not it['result'] and not it['cache_if'] and it['max_memory'] is None:
                # "If the call is resumed later it stores its result normally": the entry's lifetime starts when it is stored, not when the call began
                for k, v in zip(d['after']['keys'], d['after']['vals']):
                    if simp(str_eq(k, d['key'])) is True and isinstance(v, Agg) and len(v.fields) >= 2:
                        add('the entry stored by a resumed call is stamped when it is stored (not with the time the call began)', v.fields[1] >= d['tmark'])
            add('no lock is held after the resumed call completed', len(d['after']['held']) == 0)
            ka = d['after']['keys']; qa = d['after']['queue']
            nodup = b_and(*[b_not(simp(str_eq(qa[i], qa[j]))) for i in range(len(qa)) for j in range(i + 1, len(qa))]) if len(qa) > 1 else True
            trk = b_and(*[(b_or(*[simp(str_eq(k, q)) for q in qa]) if qa else False) for k in ka]) if ka else True
            add('after the resumed call stored its result the eviction queue has no duplicates and tracks exactly the stored keys',
                b_and(nodup, len(qa) == len(ka), trk))
            lim = it['limit']
            if lim is not None: add('after the resumed call stored its result the cache holds at most `limit` entries', len(ka) <= lim)
            if item.get('target', 'new') != 'fill' and inter == 'call_same' and not it['result'] and not it['cache_if'] and it['max_memory'] is None and it['ttl'] is None:
                # the key was stored by the interleaved call already: the resumed store replaces it and displaces nothing
                mk = d['mid']['keys']
                add('a resumed call whose key was stored meanwhile replaces that entry and displaces nothing else',
                    b_and(len(mk) == len(ka), *[(b_or(*[simp(str_eq(k, k2)) for k2 in ka]) if ka else False) for k in mk]))
        for prop, clause, f in claims:
            if prop not in props: continue
            res['claims'] += 1
            okk, model = ctx.prove(f)
            if not okk:
                def ev(t):
                    v = model.eval(t, model_completion=True) if is_z3(t) else t
                    return v.as_long() if is_z3(v) and z3.is_int_value(v) else (v if is_conc(v) else str(v))
                res['failed'].append(dict(prop=prop, clause=clause, kind='susp', cfg=f"SUSP/{name}", op=f"suspend@{susp_at}/{inter}/{end}",
                                          witness=dict(target=item.get('target', 'new'), subject=name, suspend_at=susp_at, inter=inter, end=end, nfill=nfill, fills=[[ev(x) for x in t] for t in d['fills']], x=[ev(x) for x in d['x']],
                                                       pred=[(cn, render_key(k, ev), ev(b)) for cn, k, b in d['pred'].memo],
                                                       predicted=dict(keys_before=[render_key(k, ev) for k in d['pre_keys']], keys_mid=[render_key(k, ev) for k in d['mid']['keys']], keys_after=[render_key(k, ev) for k in d['after']['keys']], inter_execs=d['inter_execs'], end_execs=len(d['after']['execs'])))))
    return dict(paths=res['paths'], claims=res['claims'], failed=res['failed'], classes=sorted(res['classes']), funcs=sorted(res['funcs']), builtins=sorted(res['builtins']),
                checks=st['checks'], solver_s=st['solver_s'], blocks=st['blocks'], infeasible=st['infeasible'], tag=f"SUSP {name} fill={nfill} {item.get('target', 'new')} suspend@gate{susp_at} {inter} then {end}")


def replay(f, w):
    from . import replay as R
    subs = wrap.subjects(); rec = subs[w['subject']]; sid = rec['id']; name = w['subject']; cname = rec['intended']['cache_name']
    L = ['scenario subj']
    for t in w.get('fills', [[1]] * w.get('nfill', 1)): L.append(f"call 0 {name} 0 " + ' '.join(map(str, t)))
    x = w.get('x', [424242] * len(rec['args']))
    if w.get('target') == 'fill':
        x = w.get('fills', [[1]])[0]
        L.append(f"script stales {sid} 1 1 1")
    L.append(f"script pendings {sid * 10 + w['suspend_at']} 1")
    L.append(f"spawn 1 {name} 0 " + ' '.join(map(str, x)))
    L.append('poll 1'); L.append('keys ' + cname)
    inter = w['inter']
    # the interleaved work runs on another thread with a watchdog: if a lock were held across the await it would block
    if inter == 'call_same': L.append(f"call 1 {name} 0 " + ' '.join(map(str, x)))
    elif inter == 'call_other': L.append(f"call 1 {name} 0 " + ' '.join(str(v + 1000003) for v in x))
    elif inter == 'call_fill': L.append(f"call 1 {name} 0 " + ' '.join(map(str, w.get('fills', [[1]])[0])))
    elif inter == 'inv_cache': L.append('inv_cache ' + cname)
    elif inter == 'inv_tag': L.append('inv_tag ' + rec['intended']['tags'][0])
    elif inter == 'inv_with': L.append('inv_with ' + cname + ' ' + ' '.join(k.replace(' ', '%20') for cn, k, b in w.get('pred', []) if b))
    L.append('keys ' + cname)
    if w['end'] == 'resume': L += ['poll 1', 'poll 1', 'poll 1', 'poll 1']
    else: L.append('drop 1')
    L += ['keys ' + cname]
    if w['end'] == 'resume': L.append(f"call 0 {name} 0 " + ' '.join(map(str, x)))        # the stored entry answers the next call
    L.append('end')
    outs, err = R.run_scenarios('\n'.join(L) + '\n', timeout=60)
    if not outs: return False, 'no output', []
    lines = outs[0]
    if any(l.startswith('timeout') for l in lines) or len([l for l in lines if l.startswith('keys')]) < 3:
        return True, 'native run blocked while the call was suspended', lines
    polls = [l for l in lines if l.startswith('poll ')]
    keyl = [l.split()[2:] for l in lines if l.startswith('keys ')]
    execs = [int(l.split()[1]) for l in lines if l.startswith('execs ')]
    rets = [l[4:] for l in lines if l.startswith('ret ')]
    nf = len(w.get('fills', [[1]] * w.get('nfill', 1)))
    if not polls or polls[0] != 'poll pending': return False, 'the call did not suspend natively: ' + (polls[0] if polls else '?'), lines
    kx = '|'.join(map(str, x)); cl = f.get('clause', ''); lim = rec['intended']['limit']
    # execs lines: one per fill, one after the first poll, one after an interleaved call, then one per further poll
    e_fill = execs[nf - 1] if nf else 0; e_susp = execs[nf]; e_mid = execs[nf + 1] if inter.startswith('call_') else e_susp; e_end = execs[-2] if w['end'] == 'resume' else execs[-1]
    ready = [p_[len('poll ready '):] for p_ in polls[1:] if p_.startswith('poll ready')]
    dev = None
    if 'held' in cl or 'guard' in cl: dev = None                       # only a native block confirms these (handled above)
    elif 'no entry exists' in cl: dev = f'an entry for the pending result ({kx}) exists at the suspension point' if keyl and kx in keyl[0] else None
    elif 'stamped when it is stored' in cl:
        # natively: keep the call suspended for a whole ttl, resume it, and ask again at once: the fresh entry must answer
        ttl = rec['intended']['ttl']
        i_ = L.index('poll 1')
        L2 = L[:i_ + 1] + [f'sleep_ms {ttl * 1000 + 1100}'] + [l for l in L[i_ + 1:] if not l.startswith('keys ')]
        outs2, err2 = R.run_scenarios('\n'.join(L2) + '\n', timeout=120)
        if outs2:
            l2 = outs2[0]; e2 = [int(l.split()[1]) for l in l2 if l.startswith('execs ')]
            if len(e2) >= 2 and e2[-1] != e2[-2]:
                dev = f'a call suspended for {ttl + 1} s and then resumed stores an entry that the very next call no longer finds (executions {e2[-2]} -> {e2[-1]}): it was stamped with the time the call began'
                lines = l2
    elif 'has removed no entry' in cl:
        lost = [k for k in w.get('predicted', {}).get('keys_before', []) if k not in (keyl[0] if keyl else [])]
        dev = f'entries {lost} stored before the call are gone while it is suspended in its body (keys at the suspension point: {sorted(keyl[0])})' if lost else None
    elif 'has not produced' in cl: dev = f'the body ran {e_susp - e_fill} time(s) before the suspension point was reached' if e_susp != e_fill and w.get('target') != 'fill' else None
    elif 'changes neither store nor queue' in cl: dev = f'keys before the drop {sorted(keyl[1])}, after {sorted(keyl[2])}' if sorted(keyl[1]) != sorted(keyl[2]) else None
    elif 'never runs the body' in cl: dev = f'the body ran {e_end - e_mid} time(s) after the drop' if e_end != e_mid else None
    elif 'exactly once' in cl: dev = f'the resumed call ran the body {e_end - e_mid} time(s)' if (e_end - e_mid) + (e_susp - e_fill) != 1 else None
    elif 'returns its own result' in cl:
        if len(rec['args']) == 1 and rec['ret'] == 'u64' and ready:
            want = ((sid << 40) ^ ((x[0] * 0x9E3779B97F4A7C15) % 2 ** 64))
            dev = f'the resumed call returned {ready[0]}, its body produced {want}' if ready[0].strip() != str(want) else None
    elif 'stores its result normally' in cl: dev = f'no entry for {kx} after the resumed call completed (keys {sorted(keyl[2])})' if kx not in keyl[2] else None
    elif 'holds its result' in cl:
        if ready and len(rets) > nf + (1 if inter.startswith('call_') else 0):
            again = rets[-1]
            dev = f'the entry stored by the resumed call answers {again}, the call returned {ready[0]}' if again.strip() != ready[0].strip() else None
    elif 'at most `limit`' in cl: dev = f'{len(keyl[2])} entries with limit {lim}: {sorted(keyl[2])}' if lim is not None and len(keyl[2]) > lim else None
    elif 'displaces nothing else' in cl:
        lost = [k for k in keyl[1] if k not in keyl[2]]
        dev = f'entries {lost} present before the resume are gone afterwards although the resumed call only replaced {kx}' if lost else None
    elif 'eviction queue' in cl and w['end'] == 'resume' and w.get('target') != 'fill' and lim and rec['intended']['policy'] != 'Random' and len(rec['args']) == 1:
        from .vc_inv import gen_tail
        pre = L[:L.index(f"script pendings {sid * 10 + w['suspend_at']} 1")]
        i1 = L.index('keys ' + cname); i2 = L.index('keys ' + cname, i1 + 1)
        mid = L[i1 + 1:i2]
        mid = [l.replace('call 1 ', 'call 0 ') for l in mid]
        for seed in range(80):
            tail = gen_tail(seed, [int(k) for k in keyl[2] if k.isdigit()], lim)
            tl = [f'call 0 {name} 0 {v}' for v in tail]
            A = L[:-2] + tl + ['end']
            B = pre + mid + [f"call 0 {name} 0 " + ' '.join(map(str, x))] + tl + ['end']
            oa, _ = R.run_scenarios('\n'.join(A) + '\n', timeout=60); ob, _ = R.run_scenarios('\n'.join(B) + '\n', timeout=60)
            if not oa or not ob: continue
            ea = [int(l.split()[1]) for l in oa[0] if l.startswith('execs ')][-len(tail) - 1:]; eb = [int(l.split()[1]) for l in ob[0] if l.startswith('execs ')][-len(tail) - 1:]
            da = [b - a for a, b in zip(ea, ea[1:])]; db = [b - a for a, b in zip(eb, eb[1:])]
            if da != db:
                j = next(i for i, (p_, q_) in enumerate(zip(da, db)) if p_ != q_)
                dev = f"after the resumed call, call #{j + 1} of the tail {tail} (argument {tail[j]}) {'runs the body' if da[j] else 'is a hit'} but {'runs the body' if db[j] else 'is a hit'} when the same calls run one after the other (tail seed {seed})"
                lines = oa[0] + ['--- reference: same calls without suspension ---'] + ob[0]; break
    return (dev is not None), dev if dev else 'native run shows no deviation for this claim', lines
