import sys, time, subprocess, z3
from mirsym2 import *
core_f, core_v, subj_f, subj_v = sys.argv[1:5]
P = Program(); P.load(core_f, core_v, 'core'); P.load(subj_f, subj_v, 'subj')
I = Interp(P)
INT = '(re.union (str.to_re "0") (re.++ (re.range "1" "9") (re.* (re.range "0" "9"))))'
DSTR = '(re.++ (str.to_re "\\u{22}") (re.* (re.union (re.diff re.allchar (re.union (str.to_re "\\u{22}") (str.to_re "\\u{5c}"))) (re.++ (str.to_re "\\u{5c}") re.allchar))) (str.to_re "\\u{22}"))'
def key_term(fn, args):
    ctx = Ctx([]); I.reset()
    captured = {}
    orig = I.builtin
    def spy(ctx_, func, a, caller, ln=None):
        g = strip_generics(func)
        if g.endswith('GlobalCache::get') or g.endswith('AsyncGlobalCache::get'):
            k = deref(a[1])
            while isinstance(k, Ref): k = deref(k)
            captured['key'] = k
            raise StopIteration
        r = yield from orig(ctx_, func, a, caller, ln); return r
    I.builtin = spy
    try:
        f = P.fns[fn]
        r = run_single(ctx, I.call_fn(ctx, f, args))
        if isinstance(r, Coroutine):
            run_single(ctx, I.call_fn(ctx, P.fns[r.fname], [Agg('Pin', 0, [Ref(Cell(r, 'fut'))]), Opaque('cx')]))
    except (RuntimeError, StopIteration): pass
    finally: I.builtin = orig
    return captured.get('key')
def to_smt(term, suffix, decls, cons):
    t = term.t
    if t[0] == 'join':
        parts = [to_smt(p, suffix, decls, cons) for p in t[2]]
        out = parts[0]
        for p in parts[1:]: out = f'(str.++ {out} "{t[1]}" {p})'
        return out
    if t[0] == 'fmt':
        kind, v = t[1], t[2]
        name = f'r_{len(decls)}_{suffix}'; decls.append(name)
        lang = 're.all' if kind == 'display' else (DSTR if isinstance(v, Str) else INT)
        cons.append(f'(assert (str.in_re {name} {lang}))'); cons.append(f'(assert (<= (str.len {name}) 8))')
        return name
    raise Unsupported('key term ' + repr(t))
def injective(term):
    d1, c1, d2, c2 = [], [], [], []
    k1 = to_smt(term, 'x', d1, c1); k2 = to_smt(term, 'y', d2, c2)
    q = '(set-logic ALL)\n' + ''.join(f'(declare-const {n} String)\n' for n in d1 + d2) + '\n'.join(c1 + c2)
    q += f'\n(assert (= {k1} {k2}))\n(assert (or ' + ' '.join(f'(not (= {a} {b}))' for a, b in zip(d1, d2)) + '))\n(check-sat)\n(get-value (' + ' '.join(d1 + d2) + '))\n'
    t = time.time(); r = subprocess.run(['z3', '-in'], input=q, capture_output=True, text=True, timeout=120)
    return r.stdout.strip().replace('\n', ' ')[:200], time.time() - t
a, b = z3.BitVec('a', 32), z3.BitVec('b', 32)
for fn, args in [('g_lru2', [a]), ('g_two', [a, b]), ('g_strs', [Str(z3.Int('sa')), Str(z3.Int('sb'))]), ('a_two', [a, Str(z3.Int('sb'))])]:
    kt = key_term(fn, args)
    res, dt = injective(kt)
    print(f'{fn:8s} key = {kt}\n          params in key: {len(kt.t[2]) if kt.t[0]=="join" else 1}/{len(args)}   injectivity query: {res}  ({dt:.2f}s)')
