"""Front end: regenerate the MIR dumps from /repo's *current working tree* (and from /verif/subjects, the corpus of
decorated functions that depends on /repo by path).  Dumps are cached under /verif/.build/mir/<hash of all sources>/,
so every change to a source file under /repo produces a fresh dump; nothing is ever reused across different trees."""
import os, sys, hashlib, subprocess, fcntl, glob, shutil, time, json

VERIF = os.path.dirname(os.path.dirname(os.path.abspath(__file__)))
REPO = os.environ.get('VERIF_REPO', '/repo')
BUILD = os.environ.get('VERIF_BUILD') or os.path.join(VERIF, '.build')


def crate_dir(name):
    """directory of the `subjects` / `replay` crate to build.  The registered checks use /verif/<name> as it is (path dependencies on /repo).
    With VERIF_REPO set to another checkout (development only: lets a second pipeline run next to one that works on /repo) a copy with
    rewritten dependency paths is kept under the build directory."""
    src = os.path.join(VERIF, name)
    if REPO == '/repo': return src
    dst = os.path.join(BUILD, 'alt', name)
    for dp, dn, fn in os.walk(src):
        dn[:] = [d for d in dn if d not in ('target', '__pycache__')]
        for f in fn:
            if not (f.endswith('.rs') or f in ('Cargo.toml', 'Cargo.lock')): continue
            a = os.path.join(dp, f); b = os.path.join(dst, os.path.relpath(a, src))
            data = open(a).read()
            if f == 'Cargo.toml':
                data = data.replace('"/repo', '"' + REPO).replace('"../vendor/', '"' + os.path.join(VERIF, 'vendor') + '/').replace('"../subjects"', '"' + os.path.join(BUILD, 'alt', 'subjects') + '"')
            if not os.path.exists(b) or open(b).read() != data:
                os.makedirs(os.path.dirname(b), exist_ok=True); open(b, 'w').write(data)
    return dst
MIRFLAGS = ['-Zunpretty=mir', '-Ztrim-diagnostic-paths=no', '-C', 'debug-assertions=off', '-C', 'overflow-checks=on']


def _files():
    out = []
    for root in (REPO,):
        for dp, dn, fn in os.walk(root):
            dn[:] = [d for d in dn if d not in ('target', '.git', 'examples', 'benches', 'tests', '.github')]
            for f in fn:
                if f.endswith('.rs') or f in ('Cargo.toml', 'Cargo.lock'): out.append(os.path.join(dp, f))
    sub = os.path.join(VERIF, 'subjects')          # hashed from the originals (the alt copy differs only in dependency paths)
    out += glob.glob(os.path.join(sub, 'src', '*.rs')) + [os.path.join(sub, 'Cargo.toml')]
    return sorted(out)


def source_hash():
    h = hashlib.sha256()
    for p in _files():
        h.update(p.encode()); h.update(b'\0')
        with open(p, 'rb') as fh: h.update(fh.read())
        h.update(b'\0')
    h.update(' '.join(MIRFLAGS).encode())
    return h.hexdigest()[:20]


def _env():
    e = dict(os.environ)
    e['CARGO_NET_OFFLINE'] = 'true'; e.pop('RUSTFLAGS', None); e.pop('RUSTUP_TOOLCHAIN', None)
    e['CARGO_TERM_COLOR'] = 'never'
    return e


def _dump(cwd, pkg_fp, target, out, extra=()):
    """one `cargo +nightly rustc -- -Zunpretty=mir` run; the crate's fingerprint is removed first so rustc really runs"""
    for d in glob.glob(os.path.join(target, 'debug', '.fingerprint', pkg_fp + '-*')): shutil.rmtree(d, ignore_errors=True)
    cmd = ['cargo', '+nightly', 'rustc', '--offline', '--lib', '--target-dir', target, '--'] + MIRFLAGS + list(extra)
    with open(out + '.tmp', 'w') as fo:
        p = subprocess.run(cmd, cwd=cwd, env=_env(), stdout=fo, stderr=subprocess.PIPE, text=True)
    if p.returncode != 0 or os.path.getsize(out + '.tmp') == 0:
        e = RuntimeError('MIR dump failed in %s (exit %d):\n%s' % (cwd, p.returncode, p.stderr[-4000:]))
        e.stderr = p.stderr; e.cwd = cwd
        raise e
    os.replace(out + '.tmp', out)


def ensure_mir(verbose=True):
    """returns {'core':..., 'core_v':..., 'subj':..., 'subj_v':..., 'hash':...}; builds at most once per source hash"""
    h = source_hash()
    d = os.path.join(BUILD, 'mir', h)
    paths = {k: os.path.join(d, k + '.mir') for k in ('core', 'core_v', 'subj', 'subj_v')}
    paths['hash'] = h; paths['dir'] = d
    os.makedirs(os.path.join(BUILD, 'mir'), exist_ok=True)
    lock = open(os.path.join(BUILD, 'mir.lock'), 'w')
    fcntl.flock(lock, fcntl.LOCK_EX)
    try:
        if os.path.exists(os.path.join(d, 'ok')): return paths
        t = time.time()
        os.makedirs(d, exist_ok=True)
        # keep the cache small: drop dumps of other trees
        for old in glob.glob(os.path.join(BUILD, 'mir', '*')):
            if os.path.isdir(old) and old != d: shutil.rmtree(old, ignore_errors=True)
        subj = crate_dir('subjects')
        lockf = os.path.join(subj, 'Cargo.lock')
        if not os.path.exists(lockf): shutil.copy(os.path.join(REPO, 'Cargo.lock'), lockf)
        import concurrent.futures as cf
        def core():
            tg = os.path.join(BUILD, 'tgt-core')
            _dump(os.path.join(REPO, 'cachelito-core'), 'cachelito-core', tg, paths['core'])
            _dump(os.path.join(REPO, 'cachelito-core'), 'cachelito-core', tg, paths['core_v'], ['-Zverbose-internals'])
        def sub():
            tg = os.path.join(BUILD, 'tgt-subj')
            _dump(subj, 'vsubjects', tg, paths['subj'])
            _dump(subj, 'vsubjects', tg, paths['subj_v'], ['-Zverbose-internals'])
        with cf.ThreadPoolExecutor(2) as ex:
            fs = [ex.submit(core), ex.submit(sub)]
            for f in fs: f.result()
        open(os.path.join(d, 'ok'), 'w').write(json.dumps(dict(hash=h, wall_s=time.time() - t)))
        if verbose: print(f'[front] MIR regenerated from {REPO} in {time.time() - t:.1f}s (tree {h})', file=sys.stderr)
        return paths
    finally:
        fcntl.flock(lock, fcntl.LOCK_UN); lock.close()


def scan_enums(paths):
    """{enum name: {variant name: index}} read from the sources (declaration order = discriminant, explicit `= N` honoured): the MIR dump
    switches on integers and constructs variants by name, the link between the two is the declaration"""
    import re
    out = {}
    for p in paths:
        if not p.endswith('.rs'): continue
        try: src = open(p).read()
        except OSError: continue
        src = re.sub(r'//[^\n]*', '', src); src = re.sub(r'/\*.*?\*/', '', src, flags=re.S)
        for m in re.finditer(r'\benum\s+([A-Za-z_]\w*)\s*(?:<[^{>]*>)?\s*(?:where[^{]*)?\{', src):
            i = m.end(); depth = 0; cur = ''; items = []
            while i < len(src):
                c = src[i]
                if c in '({[<' and not (c == '<' and depth == 0 and False): depth += 1
                elif c in ')}]>':
                    if c == '}' and depth == 0: break
                    depth -= 1
                if c == ',' and depth == 0: items.append(cur); cur = ''
                else: cur += c
                i += 1
            items.append(cur)
            tab = {}; nxt = 0
            for it in items:
                it = re.sub(r'#\s*\[[^\]]*\]', '', it).strip()
                mm = re.match(r'^([A-Za-z_]\w*)', it)
                if not mm: continue
                me = re.search(r'=\s*(-?\d+)\s*$', it)
                if me: nxt = int(me.group(1))
                tab[mm.group(1)] = nxt; nxt += 1
            if tab: out.setdefault(m.group(1), {}).update(tab)
    return out


def load_program(need_subjects=True):
    from .engine import Program
    p = ensure_mir()
    P = Program()
    P.load(p['core'], p['core_v'], 'core')
    if need_subjects: P.load(p['subj'], p['subj_v'], 'subj')
    P.tree_hash = p['hash']
    P.enums = scan_enums(_files())
    return P


if __name__ == '__main__':
    print(ensure_mir())
