"""Validation of the encoder against the implementation (DESIGN.md section 6.1): seeded random *concrete* histories
are executed natively on the real caches (replay binary, state dumped after every operation) and by mirsym on the
MIR with all values concrete; results, stores, hit counters, queues and statistics must agree exactly."""
import sys, os, json, random, time
import z3
from .engine import Interp, Ctx, Str, Ref, Cell, Unsupported, Panic, Deadlock
from .models import Harness, Cfg, POLICIES
from . import replay


def gen_history(rnd, flavour, policy):
    limit = rnd.choice([None, 1, 2, 3]); mem = rnd.choice([None, None, 20, 40])
    ops = []
    keys = [1, 2, 3, 4, 5]
    for i in range(rnd.randint(6, 12)):
        k = rnd.choice(keys)
        if rnd.random() < 0.45: ops.append(('get', k))
        else:
            v = 100 + i; size = rnd.choice([0, 5, 10, 15, 25, 45])
            ops.append(('insert_with_memory' if mem is not None else 'insert', k, v, size))
    return dict(flavour=flavour, policy=policy, limit=limit, ttl=None, max_memory=mem, fw=rnd.choice([None, 1.5]) if policy == 'TLRU' else None, ops=ops)


def native(histories):
    text = []
    for h in histories:
        text += ['scenario core', f"flavour {h['flavour']}", f"policy {h['policy']}", f"limit {h['limit'] if h['limit'] is not None else 'none'}", 'ttl none',
                 f"max_memory {h['max_memory'] if h['max_memory'] is not None else 'none'}", f"fw {h['fw'] if h['fw'] is not None else 'none'}"]
        for op in h['ops']:
            if op[0] == 'get': text.append(f'op get k{op[1]}')
            else: text.append(f'op {op[0]} k{op[1]} {op[2]} {op[3]}')
            text.append('op dump')
        text.append('end')
    outs, err = replay.run_scenarios('\n'.join(text) + '\n', timeout=120)
    res = []
    for lines in outs:
        steps = []; cur = None
        for l in lines:
            t = l.split()
            if t[0] == 'result':
                cur = dict(result=None if t[1] != 'some' else int(t[2]), store=set(), queue=[], stats=None); steps.append(cur)
            elif t[0] == 'panic': steps.append(dict(panic=l)); cur = None
            elif cur is None: continue
            elif t[0] == 'store': cur['store'].add((int(t[1][1:]), int(t[2]), int(t[4])))
            elif t[0] == 'queue': cur['queue'] = [int(x[1:]) for x in t[1:]]
            elif t[0] == 'stats':
                if cur['stats'] is None: cur['stats'] = (int(t[1]), int(t[2]))
        res.append(steps)
    return res


def symbolic(P, h):
    I = Interp(P); ctx = Ctx([])
    cfg = Cfg(h['flavour'], h['policy'], limit=h['limit'] is not None, ttl=False, mem=h['max_memory'] is not None, fw=h['fw'])
    hs = Harness(P, I, ctx, cfg, 0, nmax=8)
    if cfg.has_limit: ctx.add(cfg.limit == h['limit'])
    if cfg.has_mem: ctx.add(cfg.mem == h['max_memory'])
    ctx.add(z3.And(hs.h0 == 0, hs.m0 == 0))
    steps = []
    def ev(t):
        if isinstance(t, (int, bool)): return int(t)
        assert ctx.check()
        return ctx.solver.model().eval(t, model_completion=True).as_long()
    for op in h['ops']:
        kstr = Ref(Cell(Str(z3.IntVal(op[1])), 'key'))
        if op[0] == 'get':
            r = hs.call('get', kstr); result = ev(r.fields[0]) if r.variant == 1 else None
        else:
            ctx.add(hs.SIZE(z3.IntVal(op[2])) == op[3])
            hs.call(op[0], kstr, z3.IntVal(op[2])); result = None
        store = set((ev(k), ev(v), ev(hits)) for (k, v, b, hits) in hs.store_view())
        hh, mm = hs.stats_view()
        steps.append(dict(result=result, store=store, queue=[ev(x) for x in hs.queue_view()], stats=(ev(hh), ev(mm))))
    return steps


def check_sizes(P):
    """size_of table of the interpreter vs the real compiler (native probe); returns list of mismatches"""
    outs, err = replay.run_scenarios('scenario subj\nsizes\nend\n')
    I = Interp(P); ctx = Ctx([]); bad = []
    names = {'Result<u64,u8>': 'std::result::Result<u64, u8>', 'Option<u64>': 'std::option::Option<u64>', 'Option<usize>': 'std::option::Option<usize>', '(u64,u64)': '(u64, u64)', '(u64,u64,u64)': '(u64, u64, u64)',
             'Vec<u8>': 'std::vec::Vec<u8>', 'Box<u8>': 'std::boxed::Box<u8>', 'Option<String>': 'std::option::Option<std::string::String>'}
    for l in (outs[0] if outs else []):
        if not l.startswith('size '): continue
        t, v = l[5:].split(' = ')
        try: mine = I.size_of(ctx, names.get(t, t))
        except Unsupported: continue
        if mine != int(v): bad.append((t, int(v), mine))
    return bad


def run(P, ntraces=30, seed=0, verbose=False):
    rnd = random.Random(1000 + seed)
    hist = []
    fl_pol = [(f, p) for f in 'GTA' for p in POLICIES if p != 'Random']
    for i in range(ntraces):
        f, p = fl_pol[i % len(fl_pol)] if ntraces >= len(fl_pol) else rnd.choice(fl_pol)
        hist.append(gen_history(rnd, f, p))
    nat = native(hist)
    okc = 0; mism = []
    for t, v, mine in check_sizes(P): mism.append((dict(size_of=t, native=v, interpreter=mine), [], []))
    for h, ns in zip(hist, nat):
        try:
            ss = symbolic(P, h)
        except (Panic, Deadlock) as e:
            ss = [dict(panic=str(e))]
        if len(ns) != len(ss) or any(('panic' in a) != ('panic' in b) or ('panic' not in a and (a['result'] != b['result'] or a['store'] != b['store'] or a['queue'] != b['queue'] or a['stats'] != b['stats'])) for a, b in zip(ns, ss)):
            mism.append((h, ns, ss))
        else: okc += 1
    if verbose:
        for h, ns, ss in mism[:3]:
            print('MISMATCH', h)
            for a, b in zip(ns, ss): print('   native', a, '\n   mirsym', b)
    return okc, mism


if __name__ == '__main__':
    from .front import load_program, BUILD
    t = time.time()
    P = load_program(need_subjects=False)
    okc, mism = run(P, 60, 0, verbose=True)
    print(f'encoder validation: {okc} concrete traces agree with the native implementation, {len(mism)} disagree ({time.time() - t:.1f}s)')
    json.dump(dict(traces=okc, mismatches=len(mism)), open(os.path.join(BUILD, 'validation.json'), 'w'))
    sys.exit(1 if mism else 0)
