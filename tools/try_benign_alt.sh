#!/bin/sh
# try_benign_alt.sh <patch.diff> [checks...]: like try_benign.sh, but on a second checkout (/tmp/altrepo, VERIF_REPO / VERIF_BUILD) so that it can run
# next to work on /repo.  Development only: the registered checks always use /repo.
P=$1; shift
[ $# -eq 0 ] && set -- C01 C02 C04 C06 C08 C09 C10 C11 C12 C13 C14 C16 C19 C20
export VERIF_REPO=/tmp/altrepo VERIF_BUILD=/tmp/altbuild VERIF_JOBS=${VERIF_JOBS:-8}
cd /tmp/altrepo && git checkout -q -- . && git apply "$P" || { echo "-- cannot apply $P"; exit 2; }
cd /verif
for c in "$@"; do ./check "$c" --tier quick > /tmp/altbuild/ben_$c.log 2>&1; rc=$?; [ $rc -ne 0 ] && { echo "-- $c exit $rc"; grep -m4 "^VIOLATION\|^INCONCLUSIVE\|^UNCONFIRMED\|^  " /tmp/altbuild/ben_$c.log | cut -c1-400; } ; done
echo "-- done $(basename $P)"
git -C /tmp/altrepo checkout -q -- .
