#[cfg(kani)]
mod proofs {
    use cachelito_core::shim::{HashMap, Lazy, Mutex, RwLock};
    use cachelito_core::{CacheEntry, CacheStats, EvictionPolicy, GlobalCache};
    use std::collections::VecDeque;
    use std::time::Instant;

    static MAP: Lazy<RwLock<HashMap<String, CacheEntry<u8>>>> = Lazy::new(|| RwLock::new(HashMap::new()));
    static ORDER: Lazy<Mutex<VecDeque<String>>> = Lazy::new(|| Mutex::new(VecDeque::new()));
    static STATS: Lazy<CacheStats> = Lazy::new(|| CacheStats::new());

    static mut NOW_SECS: i64 = 1000;
    #[repr(C)]
    struct Ts { s: i64, n: u32, pad: u32 }
    fn stub_now() -> Instant {
        unsafe { std::mem::transmute::<Ts, Instant>(Ts { s: NOW_SECS, n: 0, pad: 0 }) }
    }

    fn stub_rand_usize(range: impl std::ops::RangeBounds<usize>) -> usize {
        let x: usize = kani::any();
        kani::assume(range.contains(&x));
        x
    }
    const KEYS: [&str; 3] = ["a", "b", "c"];

    fn run(policy: EvictionPolicy, nops: usize) {
        let c = GlobalCache::new(&MAP, &ORDER, Some(2), None, policy, None, None, &STATS);
        // reference model: fifo list of (key,value)
        let mut model: Vec<(usize, u8)> = Vec::new();
        for _ in 0..nops {
            let k: usize = kani::any();
            kani::assume(k < 3);
            let is_get: bool = kani::any();
            if is_get {
                let r = c.get(KEYS[k]);
                let mut exp = None;
                for e in model.iter() { if e.0 == k { exp = Some(e.1); } }
                assert_eq!(r, exp);
            } else {
                let v: u8 = kani::any();
                c.insert(KEYS[k], v);
                if let Some(p) = model.iter().position(|e| e.0 == k) { model.remove(p); }
                model.push((k, v));
                if model.len() > 2 { model.remove(0); }
            }
            assert!(MAP.read().len() <= 2);
            assert_eq!(MAP.read().len(), model.len());
        }
    }

    #[kani::proof]
    #[kani::unwind(5)]
    #[kani::stub(std::time::Instant::now, stub_now)]
    #[kani::stub(fastrand::usize, stub_rand_usize)]
    fn fifo3() { run(EvictionPolicy::FIFO, 3); }

    #[kani::proof]
    #[kani::unwind(6)]
    #[kani::stub(std::time::Instant::now, stub_now)]
    #[kani::stub(fastrand::usize, stub_rand_usize)]
    fn fifo4() { run(EvictionPolicy::FIFO, 4); }
}
