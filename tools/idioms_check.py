#!/opt/veriftools/pyvenv/bin/python
"""idioms_check.py: conformance of mirsym's std models.  Every function of subjects/src/idioms.rs is run natively (replay binary) and through the
interpreter on the same concrete inputs; prints one line per function that is unsupported or disagrees."""
import sys, os, re, time
sys.path.insert(0, os.path.dirname(os.path.dirname(os.path.abspath(__file__))))
from mirsym import front, replay
from mirsym.engine import Interp, Ctx, explore, run_single, Unsupported, Panic
import z3

INPUTS = [(0, 0), (1, 2), (7, 9), (12, 5), (33, 64), (100, 3), (9, 9), (46, 13)]

def main():
    only = sys.argv[1:]
    P = front.load_program()
    src = open(os.path.join(front.VERIF, 'subjects', 'src', 'idioms.rs')).read()
    tab = re.findall(r'(\d+) => ([ijklnpq]\d+_?)', src.split('table! {', 1)[-1])
    L = ['scenario subj'] + [f'idiom {n} {a} {b}' for n, f in tab for a, b in INPUTS] + ['end']
    outs, err = replay.run_scenarios('\n'.join(L) + '\n', timeout=120)
    native = {}
    for l in outs[0]:
        m = re.match(r'idiom (\d+) (\d+) (\d+) = (\S+)', l)
        if m: native[(int(m.group(1)), int(m.group(2)), int(m.group(3)))] = m.group(4)
    bad = 0; okc = 0
    for n, f in tab:
        if only and f not in only and n not in only: continue
        fn = next((v for k, v in P.fns.items() if k.endswith('idioms::' + f)), None)
        if fn is None: print(f'{f}: no MIR'); bad += 1; continue
        status = 'ok'
        for a, b in INPUTS:
            def run(ctx):
                I = Interp(P); return run_single(ctx, I.call_fn(ctx, fn, [a, b]))
            try:
                outs_, st = explore(run, max_paths=8)
                o = outs_[0]
                if o.status == 'panic' and native.get((int(n), a, b)) == 'panic': got = 'panic'          # both sides panic on this input
                elif o.status != 'ok': got = o.status + ': ' + str(o.res)[:150]
                else:
                    v = o.res
                    if z3.is_expr(v): v = z3.simplify(v)
                    want0 = native.get((int(n), a, b))
                    if z3.is_expr(v) and not z3.is_int_value(v) and want0 is not None and want0.isdigit():
                        # a term over solver variables introduced by a model (e.g. float truncation): it must be forced to the native value
                        okk, _m = o.ctx.prove(v == int(want0)); got = want0 if okk else 'a term that is not forced to the native value: ' + str(v)[:120]
                    else: got = str(v.as_long()) if z3.is_expr(v) and z3.is_int_value(v) else str(int(v) if isinstance(v, (bool, int)) else v)
            except Unsupported as e: got = 'UNSUPPORTED ' + str(e)[:200]
            except Exception as e: got = 'ERROR ' + type(e).__name__ + ': ' + str(e)[:200]
            want = native.get((int(n), a, b))
            if got != want:
                status = f'{f}({a},{b}): interpreter {got} / native {want}'; break
        if status == 'ok': okc += 1
        else: bad += 1; print(status)
    print(f'{okc} idioms agree, {bad} unsupported or different')
    return 1 if bad else 0

if __name__ == '__main__': sys.exit(main())
