import sys, time, z3
from mirsym2 import *
P = Program()
P.load('/tmp/mirprobe/core_full.mir', '/tmp/mirprobe/core_fv.mir', 'core')
P.load('/tmp/subj/subj_f.mir', '/tmp/subj/subj_fv.mir', 'subj')
I = Interp(P)

def poll_to_end(ctx, co, max_polls=5):
    """poll the coroutine until Ready; returns (value, npolls)"""
    cell = Cell(co, 'fut'); n = 0
    while True:
        n += 1
        r = run_single(ctx, I.call_fn(ctx, P.fns[co.fname], [Agg('Pin', 0, [Ref(cell)]), Opaque('cx')]))
        if r.variant == 0: return r.fields[0], n
        if n >= max_polls: raise Unsupported('too many polls')

def acall(ctx, name, k):
    co = run_single(ctx, I.call_fn(ctx, P.fns[name], [k]))
    return poll_to_end(ctx, co)

def scenario(ctx):
    I.reset()
    k = [z3.BitVec(f'k{i}', 32) for i in range(3)]
    ctx.add(z3.Distinct(k))
    ctx.gate_policy = lambda c, co: True
    seqk = [k[0], k[1], k[0], k[1], k[2], k[1]]
    out = []
    for x in seqk:
        before = len([e for e in ctx.events if e[0] == 'exec'])
        v, n = acall(ctx, 'a_arc2', x)
        out.append(len([e for e in ctx.events if e[0] == 'exec']) - before)
    return out
if __name__ == '__main__':
  t = time.time()
  res, nchecks, tsolve = explore(scenario)
  for status, r, ctx in res:
    print(status, r)
  print('paths', len(res), 'checks', nchecks, 'wall %.2fs' % (time.time() - t))
