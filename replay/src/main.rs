//! Native replay of witnesses found by the symbolic executor (/verif/mirsym).
//!
//! Reads scenarios (a line-oriented text protocol, see `parse`) on stdin, builds the concrete
//! pre-state directly on harness-owned statics of the REAL cachelito types, performs the real
//! operation and prints the observable post-state.  The Python side re-evaluates the violated
//! claim on that output; only a reproduced witness is reported as VIOLATION.
use cachelito_core::{AsyncGlobalCache, CacheEntry, CacheStats, EvictionPolicy, GlobalCache, MemoryEstimator, ThreadLocalCache};
use dashmap::DashMap;
use once_cell::sync::Lazy;
use parking_lot::{Mutex, RwLock};
use std::cell::RefCell;
use std::collections::{HashMap, VecDeque};
use std::io::{BufRead, Write};
use std::time::{Duration, Instant, SystemTime, UNIX_EPOCH};

mod subj;
mod sched;

#[derive(Clone, Debug, PartialEq)]
pub struct V {
    pub id: u64,
    pub size: usize,
}
impl MemoryEstimator for V {
    fn estimate_memory(&self) -> usize {
        self.size
    }
}

static GMAP: Lazy<RwLock<HashMap<String, CacheEntry<V>>>> = Lazy::new(|| RwLock::new(HashMap::new()));
static GORDER: Lazy<Mutex<VecDeque<String>>> = Lazy::new(|| Mutex::new(VecDeque::new()));
static GSTATS: Lazy<CacheStats> = Lazy::new(CacheStats::new);
static AMAP: Lazy<DashMap<String, (V, u64, u64)>> = Lazy::new(DashMap::new);
static AORDER: Lazy<Mutex<VecDeque<String>>> = Lazy::new(|| Mutex::new(VecDeque::new()));
static ASTATS: Lazy<CacheStats> = Lazy::new(CacheStats::new);
thread_local! {
    static TMAP: RefCell<HashMap<String, CacheEntry<V>>> = RefCell::new(HashMap::new());
    static TORDER: RefCell<VecDeque<String>> = RefCell::new(VecDeque::new());
}

fn shard_count() -> usize {
    (std::thread::available_parallelism().map_or(1, usize::from) * 4).next_power_of_two()
}

/// one core operation on the harness-owned statics, with a fresh cache handle (used by the concurrent phase)
fn core_op(s: &Scen, op: &[String]) -> String {
    let pol = policy(&s.policy);
    match s.flavour.as_str() {
        "G" => {
            let c = GlobalCache::new(&GMAP, &GORDER, s.limit, s.max_memory, pol, s.ttl, s.fw, &GSTATS);
            match op[0].as_str() {
                "get" => match c.get(&op[1]) { Some(v) => format!("some {}", v.id), None => "none".into() },
                "insert" => { c.insert(&op[1], V { id: op[2].parse().unwrap(), size: op[3].parse().unwrap() }); "unit".into() }
                "insert_with_memory" => { c.insert_with_memory(&op[1], V { id: op[2].parse().unwrap(), size: op[3].parse().unwrap() }); "unit".into() }
                "clear" => { c.clear(); "unit".into() }
                o => format!("unknown {}", o),
            }
        }
        "A" => {
            let c = AsyncGlobalCache::new(&*AMAP, &*AORDER, s.limit, s.max_memory, pol, s.ttl, s.fw, &*ASTATS);
            match op[0].as_str() {
                "get" => match c.get(&op[1]) { Some(v) => format!("some {}", v.id), None => "none".into() },
                "insert" => { c.insert(&op[1], V { id: op[2].parse().unwrap(), size: op[3].parse().unwrap() }); "unit".into() }
                "insert_with_memory" => { c.insert_with_memory(&op[1], V { id: op[2].parse().unwrap(), size: op[3].parse().unwrap() }); "unit".into() }
                o => format!("unknown {}", o),
            }
        }
        f => format!("unknown flavour {}", f),
    }
}

fn conc_phase(s: &Scen, out: &mut Vec<String>) -> bool {
    let mut sched = Vec::new();
    for e in &s.csched {
        let p: Vec<&str> = e.split(':').collect();
        let mult = if p[2] == "all" { shard_count() } else { p[2].parse().unwrap() };
        sched.push(sched::Ev { tid: p[0].parse().unwrap(), kind: p[1].parse().unwrap(), mult, attempt: p.len() > 3 });
    }
    sched::install(sched);
    let (dtx, drx) = std::sync::mpsc::channel::<(usize, Vec<String>)>();
    let n = s.cthreads.len();
    for (tid, ops) in s.cthreads.clone() {
        let dtx = dtx.clone();
        let sc = s.clone();
        std::thread::spawn(move || {
            sched::reset_thread();
            sched::register(tid);
            let res: Vec<String> = ops
                .iter()
                .map(|o| match std::panic::catch_unwind(std::panic::AssertUnwindSafe(|| core_op(&sc, o))) {
                    Ok(r) => r,
                    Err(e) => format!("<panic {}>", e.downcast_ref::<String>().cloned().or_else(|| e.downcast_ref::<&str>().map(|s| s.to_string())).unwrap_or_default().replace('\n', " ")),
                })
                .collect();
            sched::register(usize::MAX);
            let _ = dtx.send((tid, res));
        });
    }
    let mut done = 0;
    let deadline = Instant::now() + Duration::from_secs(8);
    while done < n {
        match drx.recv_timeout(deadline.saturating_duration_since(Instant::now())) {
            Ok((tid, res)) => { done += 1; out.push(format!("conc_done {} {}", tid, res.join(" ; "))); }
            Err(_) => break,
        }
    }
    let (st, total) = sched::progress();
    out.push(format!("conc_progress {} {} stuck={} mismatch={}", st, total, sched::STUCK.load(std::sync::atomic::Ordering::SeqCst), sched::MISMATCH.load(std::sync::atomic::Ordering::SeqCst)));
    sched::uninstall();
    if done < n { out.push(format!("conc_blocked {} of {} threads never returned", n - done, n)); return false; }
    true
}

#[derive(Default, Clone, Debug)]
struct Scen {
    cthreads: Vec<(usize, Vec<Vec<String>>)>,
    csched: Vec<String>,
    flavour: String,
    policy: String,
    limit: Option<usize>,
    ttl: Option<u64>,
    max_memory: Option<usize>,
    fw: Option<f64>,
    entries: Vec<(String, u64, u128, u64, usize)>, // key val age hits size  (queue order)
    phase_ms: u64, // run the scenario when the wall clock's sub-second part has reached this many milliseconds (async engine)
    handle_delay: u128, // time between building the cache handle and using it: ns (sync engines) / s (async)
    orphans: Vec<String>,
    ops: Vec<Vec<String>>,
}

fn opt<T: std::str::FromStr>(s: &str) -> Option<T> {
    if s == "none" {
        None
    } else {
        s.parse().ok()
    }
}

fn policy(p: &str) -> EvictionPolicy {
    match p {
        "FIFO" => EvictionPolicy::FIFO,
        "LRU" => EvictionPolicy::LRU,
        "LFU" => EvictionPolicy::LFU,
        "ARC" => EvictionPolicy::ARC,
        "Random" => EvictionPolicy::Random,
        "TLRU" => EvictionPolicy::TLRU,
        _ => panic!("policy {}", p),
    }
}

fn now_secs() -> u64 {
    SystemTime::now().duration_since(UNIX_EPOCH).unwrap().as_secs()
}

fn rel(t: Instant, t_ref: Instant) -> i128 {
    if t >= t_ref {
        t.duration_since(t_ref).as_nanos() as i128
    } else {
        -(t_ref.duration_since(t).as_nanos() as i128)
    }
}
fn dump_g(out: &mut Vec<String>, t_ref: Instant) {
    let m = GMAP.read();
    for (k, e) in m.iter() {
        out.push(format!("store {} {} {} {} {}", k, e.value.id, rel(e.inserted_at, t_ref), e.frequency, e.value.size));
    }
    out.push(format!("elapsed {}", rel(Instant::now(), t_ref)));
    let q = GORDER.lock();
    out.push(format!("queue {}", q.iter().cloned().collect::<Vec<_>>().join(" ")));
    out.push(format!("stats {} {}", GSTATS.hits(), GSTATS.misses()));
}
fn dump_a(out: &mut Vec<String>, ref_secs: u64) {
    for e in AMAP.iter() {
        out.push(format!("store {} {} {} {} {}", e.key(), e.value().0.id, e.value().1 as i128 - ref_secs as i128, e.value().2, e.value().0.size));
    }
    out.push(format!("elapsed {}", now_secs() as i128 - ref_secs as i128));
    let q = AORDER.lock();
    out.push(format!("queue {}", q.iter().cloned().collect::<Vec<_>>().join(" ")));
    out.push(format!("stats {} {}", ASTATS.hits(), ASTATS.misses()));
}
fn dump_t(out: &mut Vec<String>, c: &ThreadLocalCache<V>, t_ref: Instant) {
    TMAP.with(|m| {
        for (k, e) in m.borrow().iter() {
            out.push(format!("store {} {} {} {} {}", k, e.value.id, rel(e.inserted_at, t_ref), e.frequency, e.value.size));
        }
    });
    out.push(format!("elapsed {}", rel(Instant::now(), t_ref)));
    TORDER.with(|q| out.push(format!("queue {}", q.borrow().iter().cloned().collect::<Vec<_>>().join(" "))));
    out.push(format!("stats {} {}", c.stats.hits(), c.stats.misses()));
}

fn run_core(s: &Scen) -> Vec<String> {
    let mut out = Vec::new();
    let pol = policy(&s.policy);
    // entries are planted with their age at the moment the handle is built; the handle is then used `handle_delay` later
    let delay_cap: u128 = if s.flavour == "A" { 4 } else { 4_000_000_000 };
    if s.handle_delay > delay_cap {
        out.push("unrepresentable delay between building and using the handle".into());
        return out;
    }
    let s = &{
        let mut s2 = s.clone();
        for e in s2.entries.iter_mut() {
            e.2 = e.2.saturating_sub(s.handle_delay);
        }
        s2
    };
    match s.flavour.as_str() {
        "G" => {
            GMAP.write().clear();
            GORDER.lock().clear();
            GSTATS.reset();
            let now = Instant::now();
            for (k, v, age, hits, size) in &s.entries {
                let at = match now.checked_sub(Duration::from_nanos(*age as u64)) {
                    Some(t) => t,
                    None => {
                        out.push("unrepresentable age".into());
                        return out;
                    }
                };
                GMAP.write().insert(k.clone(), CacheEntry { value: V { id: *v, size: *size }, inserted_at: at, frequency: *hits });
                GORDER.lock().push_back(k.clone());
            }
            for k in &s.orphans {
                GORDER.lock().push_back(k.clone());
            }
            let c = GlobalCache::new(&GMAP, &GORDER, s.limit, s.max_memory, pol, s.ttl, s.fw, &GSTATS);
            if s.handle_delay > 0 { std::thread::sleep(Duration::from_nanos(s.handle_delay as u64)); }
            for op in &s.ops {
                match op[0].as_str() {
                    "get" => match c.get(&op[1]) {
                        Some(v) => out.push(format!("result some {}", v.id)),
                        None => out.push("result none".into()),
                    },
                    "insert" => {
                        c.insert(&op[1], V { id: op[2].parse().unwrap(), size: op[3].parse().unwrap() });
                        out.push("result unit".into());
                    }
                    "insert_with_memory" => {
                        c.insert_with_memory(&op[1], V { id: op[2].parse().unwrap(), size: op[3].parse().unwrap() });
                        out.push("result unit".into());
                    }
                    "clear" => {
                        c.clear();
                        out.push("result unit".into());
                    }
                    "sleep_ms" => std::thread::sleep(Duration::from_millis(op[1].parse().unwrap())),
                    "crun" => { if !conc_phase(s, &mut out) { return out; } }
                    "dump" => dump_g(&mut out, now),
                    o => out.push(format!("unknown op {}", o)),
                }
            }
            dump_g(&mut out, now);
        }
        "A" => {
            AMAP.clear();
            AORDER.lock().clear();
            ASTATS.reset();
            if s.phase_ms > 0 {
                // wait (at most ~1 s) until the wall clock is `phase_ms` into its current second, with room left before the next one
                let t0 = Instant::now();
                loop {
                    let ms = SystemTime::now().duration_since(UNIX_EPOCH).unwrap().subsec_millis() as u64;
                    if (ms >= s.phase_ms && ms < 960) || t0.elapsed() > Duration::from_millis(1500) {
                        break;
                    }
                    std::thread::sleep(Duration::from_millis(2));
                }
            }
            let now = now_secs();
            for (k, v, age, hits, size) in &s.entries {
                AMAP.insert(k.clone(), (V { id: *v, size: *size }, now.saturating_sub(*age as u64), *hits));
                AORDER.lock().push_back(k.clone());
            }
            for k in &s.orphans {
                AORDER.lock().push_back(k.clone());
            }
            let c = AsyncGlobalCache::new(&*AMAP, &*AORDER, s.limit, s.max_memory, pol, s.ttl, s.fw, &*ASTATS);
            if s.handle_delay > 0 { std::thread::sleep(Duration::from_secs(s.handle_delay as u64)); }
            for op in &s.ops {
                match op[0].as_str() {
                    "get" => match c.get(&op[1]) {
                        Some(v) => out.push(format!("result some {}", v.id)),
                        None => out.push("result none".into()),
                    },
                    "insert" => {
                        c.insert(&op[1], V { id: op[2].parse().unwrap(), size: op[3].parse().unwrap() });
                        out.push("result unit".into());
                    }
                    "insert_with_memory" => {
                        c.insert_with_memory(&op[1], V { id: op[2].parse().unwrap(), size: op[3].parse().unwrap() });
                        out.push("result unit".into());
                    }
                    "sleep_ms" => std::thread::sleep(Duration::from_millis(op[1].parse().unwrap())),
                    "crun" => { if !conc_phase(s, &mut out) { return out; } }
                    "dump" => dump_a(&mut out, now),
                    o => out.push(format!("unknown op {}", o)),
                }
            }
            dump_a(&mut out, now);
        }
        "T" => {
            TMAP.with(|m| m.borrow_mut().clear());
            TORDER.with(|q| q.borrow_mut().clear());
            let now = Instant::now();
            for (k, v, age, hits, size) in &s.entries {
                let at = match now.checked_sub(Duration::from_nanos(*age as u64)) {
                    Some(t) => t,
                    None => {
                        out.push("unrepresentable age".into());
                        return out;
                    }
                };
                TMAP.with(|m| m.borrow_mut().insert(k.clone(), CacheEntry { value: V { id: *v, size: *size }, inserted_at: at, frequency: *hits }));
                TORDER.with(|q| q.borrow_mut().push_back(k.clone()));
            }
            for k in &s.orphans {
                TORDER.with(|q| q.borrow_mut().push_back(k.clone()));
            }
            let c = ThreadLocalCache::new(&TMAP, &TORDER, s.limit, s.max_memory, pol, s.ttl, s.fw);
            if s.handle_delay > 0 { std::thread::sleep(Duration::from_nanos(s.handle_delay as u64)); }
            for op in &s.ops {
                match op[0].as_str() {
                    "get" => match c.get(&op[1]) {
                        Some(v) => out.push(format!("result some {}", v.id)),
                        None => out.push("result none".into()),
                    },
                    "insert" => {
                        c.insert(&op[1], V { id: op[2].parse().unwrap(), size: op[3].parse().unwrap() });
                        out.push("result unit".into());
                    }
                    "insert_with_memory" => {
                        c.insert_with_memory(&op[1], V { id: op[2].parse().unwrap(), size: op[3].parse().unwrap() });
                        out.push("result unit".into());
                    }
                    "sleep_ms" => std::thread::sleep(Duration::from_millis(op[1].parse().unwrap())),
                    "dump" => dump_t(&mut out, &c, now),
                    o => out.push(format!("unknown op {}", o)),
                }
            }
            dump_t(&mut out, &c, now);
        }
        f => out.push(format!("unknown flavour {}", f)),
    }
    out
}

fn main() {
    let stdin = std::io::stdin();
    let mut cur = Scen::default();
    let mut mode = String::new();
    let mut subj_lines: Vec<String> = Vec::new();
    for line in stdin.lock().lines() {
        let line = line.unwrap();
        let t: Vec<String> = line.split_whitespace().map(|x| x.to_string()).collect();
        if t.is_empty() {
            continue;
        }
        match t[0].as_str() {
            "scenario" => {
                cur = Scen::default();
                mode = t[1].clone();
                subj_lines.clear();
            }
            "end" => {
                let stdout = std::io::stdout();
                if mode == "core" {
                    let s = cur.clone();
                    let (tx, rx) = std::sync::mpsc::channel();
                    std::thread::spawn(move || {
                        let r = std::panic::catch_unwind(|| run_core(&s));
                        let _ = tx.send(r);
                    });
                    match rx.recv_timeout(Duration::from_secs(10)) {
                        Ok(Ok(lines)) => {
                            let mut o = stdout.lock();
                            for l in lines {
                                writeln!(o, "{}", l).unwrap();
                            }
                            writeln!(o, "done").unwrap();
                        }
                        Ok(Err(e)) => {
                            let msg = e.downcast_ref::<String>().cloned().or_else(|| e.downcast_ref::<&str>().map(|s| s.to_string())).unwrap_or_default();
                            println!("panic {}", msg.replace('\n', " "));
                            println!("done");
                        }
                        Err(_) => {
                            println!("timeout");
                            println!("done");
                            std::io::stdout().flush().unwrap();
                            std::process::exit(0);
                        }
                    }
                } else {
                    let lines = subj_lines.clone();
                    let (tx, rx) = std::sync::mpsc::channel();
                    std::thread::spawn(move || {
                        let r = std::panic::catch_unwind(|| subj::run(&lines));
                        let _ = tx.send(r);
                    });
                    match rx.recv_timeout(Duration::from_secs(9)) {
                        Ok(Ok(lines)) => {
                            let mut o = stdout.lock();
                            for l in lines {
                                writeln!(o, "{}", l).unwrap();
                            }
                            writeln!(o, "done").unwrap();
                        }
                        Ok(Err(e)) => {
                            let msg = e.downcast_ref::<String>().cloned().or_else(|| e.downcast_ref::<&str>().map(|s| s.to_string())).unwrap_or_default();
                            println!("panic {}", msg.replace('\n', " "));
                            println!("done");
                        }
                        Err(_) => {
                            println!("timeout");
                            println!("done");
                            std::io::stdout().flush().unwrap();
                            std::process::exit(0);
                        }
                    }
                }
                std::io::stdout().flush().unwrap();
            }
            _ if mode != "core" => subj_lines.push(line.clone()),
            "flavour" => cur.flavour = t[1].clone(),
            "policy" => cur.policy = t[1].clone(),
            "limit" => cur.limit = opt(&t[1]),
            "ttl" => cur.ttl = opt(&t[1]),
            "max_memory" => cur.max_memory = opt(&t[1]),
            "fw" => cur.fw = opt(&t[1]),
            "entry" => cur.entries.push((t[1].clone(), t[2].parse().unwrap(), t[3].parse().unwrap(), t[4].parse().unwrap(), t[5].parse().unwrap())),
            "handle_delay" => cur.handle_delay = t[1].parse().unwrap(),
            "phase_ms" => cur.phase_ms = t[1].parse().unwrap(),
            "orphan" => cur.orphans.push(t[1].clone()),
            "op" => cur.ops.push(t[1..].to_vec()),
            "cthread" => {
                let tid: usize = t[1].parse().unwrap();
                let ops: Vec<Vec<String>> = t[2..].join(" ").split(" / ").map(|o| o.split_whitespace().map(|x| x.to_string()).collect()).collect();
                cur.cthreads.push((tid, ops));
            }
            "csched" => cur.csched.extend(t[1..].iter().cloned()),
            _ => println!("unknown directive {}", t[0]),
        }
    }
}
