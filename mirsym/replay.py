"""Native replay of solver witnesses against the real crates (DESIGN.md section 7).

A witness (concrete pre-state + arguments taken from the z3 model) is turned into a scenario for the
`verif-replay` binary (built from /repo's current tree), which constructs the pre-state directly on
harness-owned statics of the real types, performs the real operation and prints the post-state.
The *same oracle code* that produced the symbolic claim is then evaluated on the concrete observation."""
import os, subprocess, sys, json, fcntl, time
import z3
from .front import VERIF, BUILD, REPO, _env, source_hash
from .models import Cfg, Entry, NS
from .engine import Ctx, Agg, some, none

BIN = os.path.join(BUILD, 'tgt-replay', 'debug', 'verif-replay')
BASE = 10 ** 15


def build(verbose=False):
    """(re)build the replay binary against the current /repo tree; cargo's own fingerprints make this a no-op when unchanged"""
    os.makedirs(BUILD, exist_ok=True)
    lock = open(os.path.join(BUILD, 'replay.lock'), 'w'); fcntl.flock(lock, fcntl.LOCK_EX)
    try:
        stamp = os.path.join(BUILD, 'replay.stamp'); h = source_hash()
        import hashlib, glob
        hh = hashlib.sha256(h.encode())
        for fp in sorted(glob.glob(os.path.join(VERIF, 'replay', 'src', '*.rs')) + [os.path.join(VERIF, 'replay', 'Cargo.toml')] + glob.glob(os.path.join(VERIF, 'vendor', 'lock_api', 'src', '*.rs'))):
            hh.update(open(fp, 'rb').read())
        h = hh.hexdigest()
        if os.path.exists(stamp) and open(stamp).read() == h and os.path.exists(BIN): return BIN
        from .front import crate_dir
        sd = crate_dir('subjects'); rp = crate_dir('replay')
        lf = os.path.join(rp, 'Cargo.lock')
        if not os.path.exists(lf):
            import shutil; shutil.copy(os.path.join(sd, 'Cargo.lock') if os.path.exists(os.path.join(sd, 'Cargo.lock')) else os.path.join(REPO, 'Cargo.lock'), lf)
        p = subprocess.run(['cargo', 'build', '--offline', '--target-dir', os.path.join(BUILD, 'tgt-replay')], cwd=rp, env=_env(), capture_output=True, text=True)
        if p.returncode != 0: raise RuntimeError('replay crate does not build against the current tree:\n' + p.stderr[-3000:])
        open(stamp, 'w').write(h)
        return BIN
    finally:
        fcntl.flock(lock, fcntl.LOCK_UN); lock.close()


def run_scenarios(text, timeout=60):
    p = subprocess.run([build()], input=text, capture_output=True, text=True, timeout=timeout)
    outs = []; cur = []
    for l in p.stdout.split('\n'):
        if l == 'done': outs.append(cur); cur = []
        elif l: cur.append(l)
    return outs, p.stderr


def core_scenario(w, extra_ops=()):
    A = w['flavour'] == 'A'
    L = ['scenario core', f"flavour {w['flavour']}", f"policy {w['policy']}",
         f"limit {w['limit'] if w['limit'] is not None else 'none'}", f"ttl {int(w['ttl']) if w['ttl'] is not None else 'none'}",
         f"max_memory {w['max_memory'] if w['max_memory'] is not None else 'none'}", f"fw {w['frequency_weight'] if w['frequency_weight'] is not None else 'none'}"]
    if w.get('flavour') == 'A' and w.get('phase_ms', 0) >= 20: L.append(f"phase_ms {min(int(w['phase_ms']), 900)}")      # sub-second phase of the wall clock at which the scenario runs
    if w.get('handle_delay'): L.append(f"handle_delay {int(w['handle_delay'])}")          # ns (sync engines) / s (async): time between building the handle and using it
    for e in w['entries']:
        age = max(0, int(w['now0'] - e['birth']))
        L.append(f"entry k{e['key']} {e['val']} {age} {int(e['hits'])} {e['size']}")
    op = w['op']
    if op == 'get': L.append(f"op get k{w['argkey']}")
    elif op in ('insert', 'insert_with_memory'): L.append(f"op {op} k{w['argkey']} {w['argval']} {w['argsize']}")
    elif op == 'clear': L.append('op clear')
    elif op in ('none', 'conc'): pass
    for o in extra_ops: L.append('op ' + o)
    L.append('end')
    return '\n'.join(L) + '\n'


class ReplayHarness:
    """the observation of a native run, presented through the interface the oracles use (see models.Harness)"""
    def __init__(s, w, lines):
        A = w['flavour'] == 'A'
        cfg = Cfg(w['flavour'], w['policy'], limit=w['limit'] is not None, ttl=w['ttl'] is not None, mem=w['max_memory'] is not None, fw=w['frequency_weight'])
        cfg.limit = w['limit']; cfg.ttl = int(w['ttl']) if w['ttl'] is not None else None; cfg.mem = w['max_memory']
        s.cfg = cfg; s.n = len(w['entries'])
        s.now0 = BASE; s.tnow0 = z3.RealVal(BASE) + z3.RealVal('0.5') if A else None
        s.pre = []
        sizes = {}
        for e in w['entries']:
            age = max(0, int(w['now0'] - e['birth']))
            en = Entry(e['key'], e['val'], BASE - age, int(e['hits']), e['size'])
            if A: en.tstore = z3.RealVal(BASE - age) + z3.RealVal('0.5')
            s.pre.append(en); sizes[e['val']] = e['size']
        sizes[w.get('argval')] = w.get('argsize')
        s.sizes = sizes; s.SIZE = lambda v: s.sizes[v]
        s.h0 = 0; s.m0 = 0
        s.store = []; s.queue = []; s.hits = s.misses = 0; s.result = None; s.panic = None; s.timeout = False; s.elapsed = 0; s.other = []
        for l in lines:
            t = l.split()
            if t[0] == 'store':
                s.store.append((int(t[1][1:]), int(t[2]), BASE + int(t[3]), int(t[4]))); s.sizes.setdefault(int(t[2]), int(t[5]))
            elif t[0] == 'queue': s.queue = [int(x[1:]) for x in t[1:]]
            elif t[0] == 'stats': s.hits, s.misses = int(t[1]), int(t[2])
            elif t[0] == 'result': s.result = none() if t[1] == 'none' else (some(int(t[2])) if t[1] == 'some' else Agg('()', 0, []))
            elif t[0] == 'panic': s.panic = l[6:]
            elif t[0] == 'timeout': s.timeout = True
            elif t[0] == 'elapsed': s.elapsed = int(t[1])
            else: s.other.append(l)
    def store_view(s): return list(s.store)
    def queue_view(s): return list(s.queue)
    def stats_view(s): return s.hits, s.misses
    def locks_free(s): return []


def replay_core(w, prop, clause):
    """returns (reproduced: bool, detail: str, observation lines)"""
    from . import vc_core
    outs, err = run_scenarios(core_scenario(w))
    if not outs: return False, 'replay binary produced no output: ' + err[-300:], []
    lines = outs[0]
    h = ReplayHarness(w, lines)
    if h.other and any('unrepresentable' in x for x in h.other): return False, 'pre-state not representable natively (' + h.other[0] + ')', lines
    if clause == 'no panic' or prop == 'C16' and clause.startswith('no panic'):
        return (h.panic is not None), ('native panic: ' + (h.panic or '')) if h.panic else 'no native panic', lines
    if clause == 'no self-deadlock': return h.timeout, 'native call did not return within 10 s' if h.timeout else 'native call returned', lines
    if h.panic is not None: return False, 'native run panicked instead: ' + h.panic, lines
    if h.timeout: return False, 'native run timed out', lines
    ctx = Ctx([]); claims = []
    A = w['flavour'] == 'A'
    clock = [BASE, BASE + h.elapsed]
    if A: ctx.sys_vars = clock
    else: ctx.now_vars = clock
    k = w['argkey']; v = w.get('argval')
    if w['op'] == 'get':
        vc_core.oracle_get(ctx, h, k, h.result, claims, 1)
    else:
        vc_core.oracle_insert(ctx, h, k, v, claims, 1, with_memory=(w['op'] == 'insert_with_memory'))
    bad = []
    for cond, cl in claims:
        if cl.prop != prop or cl.clause != clause: continue
        f = cl.formula
        if cond is not True and cond is not False: f = z3.Implies(cond, f) if f is not False else z3.Not(cond)
        elif cond is False: continue
        okk, _ = ctx.prove(f if not isinstance(f, bool) else f)
        if not okk: bad.append(cl.clause)
    return (len(bad) > 0), ('claim fails on the native observation' if bad else 'claim holds on the native observation'), lines


def replay(f, w):
    """dispatch on the kind of witness"""
    kind = f.get('kind', 'step')
    if kind == 'step': return replay_core(w, f.get('orig_prop', f['prop']), f.get('orig_clause', f['clause']))
    mod = __import__('mirsym.vc_' + kind, fromlist=['replay'])
    return mod.replay(f, w)
