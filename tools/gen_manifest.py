#!/usr/bin/env python3
"""Regenerates /verif/MANIFEST.json from the table below (kept in one place so that the manifest stays valid)."""
import json, os
V = os.path.dirname(os.path.dirname(os.path.abspath(__file__)))
COMMON = ('Bounded symbolic model checking of the real code: the rustc MIR of the functions (regenerated from /repo on every run) is executed '
          'symbolically by mirsym and z3 decides every claim for all values within the stated bounds; every sat answer is replayed natively against the real crates before it is reported. ')
NOTE = ('Trusted: rustc MIR dump; builtin models of std/parking_lot/dashmap/once_cell/fastrand containers, locks, clocks and RNG (mirsym/builtins.py); z3. '
        'Bounds: pre-states with <= 3-4 entries, hits <= 2^20, sizes <= 2^40, f64 as exact reals, 2-3 threads with <= 2-3 preemptions at lock granularity; what lies outside is listed in the evidence file.')
C = {
 'C01': ('inductive step VCs (get / insert / insert_with_memory) on the three cache engines from symbolic Inv pre-states + wrapper VCs on the real macro expansions: returned value is the stored value of exactly the requested key, last store wins, a call returns the body\'s value', 'symbolic execution of rustc MIR + z3; inductive step VCs; native replay'),
 'C03': ('step VCs (hits/misses remove nothing) + wrapper VCs (hit: 0 executions, miss: exactly 1 and the result is stored; second call served) + 2-thread schedule exploration (each concurrent call runs the body at most once)', 'symbolic execution of rustc MIR + z3; wrapper VCs; schedule exploration'),
 'C04': ('step VCs: |store| <= limit after every store, exactly one victim on overflow, none otherwise; queue tracks exactly the stored keys', 'symbolic execution of rustc MIR + z3; inductive step VCs'),
 'C05': ('step VCs on insert_with_memory with uninterpreted value sizes: total <= max_memory, oversized value not cached and displaces nothing, no eviction while the total already fits; wrapper VCs: memory-aware store used iff max_memory', 'symbolic execution of rustc MIR + z3; inductive step VCs'),
 'C06': ('step VCs with symbolic clocks (Instant ns; SystemTime whole seconds with ghost real time): age >= ttl never served and purged from store and queue, younger entries served, re-stored entries start a fresh lifetime', 'symbolic execution of rustc MIR + z3 with symbolic clocks'),
 'C07': ('step VCs: FIFO/LRU victim is the front of the ghost order under entry and memory pressure; hits move LRU entries to the back; queue order after every operation', 'symbolic execution of rustc MIR + z3; inductive step VCs'),
 'C08': ('step VCs: LFU/ARC/TLRU victim minimises the documented score (exact real arithmetic, powf uninterpreted and shared with the code); hits counted; ARC/TLRU recency updated', 'symbolic execution of rustc MIR + z3 (linear/non-linear real arithmetic)'),
 'C09': ('wrapper VCs on Result-returning subjects (Result / std::result::Result spelling, sync global, thread, async, with and without max_memory): the body\'s outcome is a solver variable; Err is not stored, Ok is, the next call re-executes / is served accordingly', 'symbolic execution of the macro expansions\' MIR + z3'),
 'C10': ('wrapper VCs with an uninterpreted cache_if verdict: consulted exactly once per execution with the call\'s key and result, never on hits; stored iff accepted (sync Result: and Ok)', 'symbolic execution of the macro expansions\' MIR + z3'),
 'C11': ('wrapper VCs with an uninterpreted, per-call invalidate_on verdict and an impure body: stale => body re-executed and the fresh value stored and found by the next call; not stale => served', 'symbolic execution of the macro expansions\' MIR + z3'),
 'C12': ('the real InvalidationRegistry MIR + the registration/clear closures of 11 subjects with mixed tag/event/dependency/name layouts (sync+async): every request over every declared name in every table empties exactly the matching registered caches (store and queue) and returns their number', 'symbolic execution of registry + macro closures + z3'),
 'C13': ('same runs: non-matching caches unchanged; invalidate_with / invalidate_all_with with an uninterpreted predicate over (cache, key) = all subsets: exactly the matching entries leave store and queue, survivors keep their order, queue and store stay in step', 'symbolic execution of registry + macro closures + z3 with uninterpreted predicates'),
 'C14': ('wrapper VCs with a symbolic calling thread: thread-scoped subjects miss on another thread and leave its storage alone, global/async subjects hit across threads; the engine type selected equals the scope attribute', 'symbolic execution of the macro expansions\' MIR + z3'),
 'C15': ('step VCs on get (counter deltas), wrapper-level registration names, and 2-thread schedule exploration with atomics as scheduling points: hits+misses grows by exactly the number of lookups on every interleaving', 'symbolic execution + schedule exploration + z3'),
 'C16': ('every feasible path of every step VC over flavour x policy x limit x ttl x max_memory x frequency_weight ends without panic, RefCell double borrow or lock left held', 'symbolic execution of rustc MIR + z3; panic paths are assertions'),
 'C17': ('2-thread (thorough: 3-thread) schedule exploration at lock-acquisition granularity over programs of wrapper calls, conditional / tag / name invalidations and statistics queries on 12 subjects: no reachable configuration has every unfinished thread blocked; witnesses replayed by forcing the real threads along the schedule (instrumented lock_api)', 'symbolic schedule exploration (preemption-bounded) over rustc MIR + z3; deterministic native schedule replay'),
 'C18': ('same schedules: every call returns F(args); at quiescence every stored key is tracked by the queue, |store| <= limit, and a sequential probe store keeps the bounds; witnesses replayed natively along the schedule followed by an overflow probe', 'symbolic schedule exploration over rustc MIR + z3; deterministic native schedule replay'),
 'C19': ('for ~110 subjects (attribute products x signatures) the constants passed to the cache constructors, the engine type, the store variant (memory-aware iff max_memory, Result-aware iff Result) and the composition get -> [invalidate_on] -> body -> [cache_if] -> store are read off / executed from the wrapper MIR and compared with the attribute list. Not claimed: rejection of invalid attribute lists at compile time (a rustc verdict, not a solver query)', 'symbolic execution of the macro expansions\' MIR + z3; constants read from MIR'),
}
NA = {
 'C02': 'key-injectivity check (key term from wrapper MIR -> z3 string theory) not yet registered in this session',
 'C20': 'coroutine suspension/drop VCs not yet registered in this session',
}
def main():
    checks = []
    for p, (txt, tech) in C.items():
        checks.append(dict(property_id=p, quick_cmd=f'./check {p} --tier quick', thorough_cmd=f'./check {p} --tier thorough', evidence_file=f'/verif/evidence/{p}.json',
                           replay_cmd_template='./check ' + p + ' --replay {path}', engine='mirsym',
                           level_claimed=dict(category='model_checking', text=COMMON + txt, design_ref='DESIGN.md sections 3-5'), level_note=NOTE, technique=tech))
    m = dict(version=1, setup_cmd='./setup.sh',
             hooks=dict(guard='josepdcs_cachelito_verif', enable='none needed: no verification hook exists in /repo; checks read the compiler MIR of the unmodified sources; the only instrumented code is the vendored lock_api used by the replay crate', baseline_off_cmd='/verif/tools/run_baseline.sh', source_commits=[], add_only=True),
             engines=[dict(name='mirsym', path='/verif/mirsym', serves_properties=sorted(C), kind_free_text='symbolic executor for rustc MIR text over z3 (Python), regenerated from /repo on every run; native replay crate /verif/replay with deterministic schedule replay')],
             checks=checks, not_applicable=[dict(property_id=k, reason=v) for k, v in NA.items()],
             notes='Genuine defects found were repaired in /repo by fix: commits (known_findings.json "fixed" entries, DESIGN.md section 8).')
    json.dump(m, open(os.path.join(V, 'MANIFEST.json'), 'w'), indent=1)
if __name__ == '__main__': main()
