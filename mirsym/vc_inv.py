"""Invalidation VCs (C12, C13): the real registry (`InvalidationRegistry`), the public free functions and the registration /
clear / predicate closures that the macros put into each wrapper are interpreted together over a set of subjects with
mixed metadata layouts (sync + async).  Caches are filled through their real wrappers with symbolic distinct arguments;
group requests use every declared name (in every table) plus a name nothing declares; conditional invalidation uses an
uninterpreted predicate over (cache name, key), i.e. all subsets of the stored keys at once."""
import time, re
import z3
from .engine import (Interp, Ctx, Agg, Cell, Ref, Str, SeqM, EnvFn, explore, run_single, Unsupported, Panic, Deadlock, Infeasible,
                     is_conc, is_z3, simp, b_and, b_or, b_not, deref_all, str_eq, term_eq)
from . import wrap
from .vc_wrap import install_cache_hook, cache_parts, arg_tuple, tuple_eq, render_key, subject_args

GROUP = ['g_tag1', 'g_tag12', 'g_ev1', 'g_ev_t1', 'a_dep_tag2', 'a_tag1_ev1', 'g_named', 'a_named', 'g_nometa', 'a_nometa', 'g_named_nometa']
NAMES = ['t1', 't2', 't3', 'e1', 'g_tag1', 'custom_g', 'custom_a', 'g_named', 'other_name', 'g_nometa', 'a_dep_tag2', 'nothing_declares_this']


def declares(it): return bool(it['tags'] or it['events'] or it['dependencies'])


def matches(kind, name, rec):
    it = rec['intended']
    if rec['flavour'] == 'T': return False
    if not declares(it): return False
    if kind == 'tag': return name in it['tags']
    if kind == 'event': return name in it['events']
    if kind == 'dep': return name in it['dependencies']
    if kind == 'cache': return name == it['cache_name']
    return False


class Pred:
    """uninterpreted predicate over (cache name, key): one Boolean per distinct (name, key term)"""
    def __init__(s, ctx): s.ctx = ctx; s.memo = []
    def verdict(s, cname, key):
        for cn, k, b in s.memo:
            if cn == cname and simp(str_eq(k, key)) is True: return b
        b = s.ctx.fresh_bool('p'); s.memo.append((cname, key, b)); return b


def fill(I, ctx, subjs, counts, log):
    """call each subject counts[name] times with distinct symbolic arguments (thread 0); returns {name: [arg tuples]}"""
    args = {}
    for name, k in counts.items():
        S = subjs[name]; arity = len(S.rec['args'])
        tl = []
        for i in range(k):
            xs = arg_tuple(ctx, f'{name}_{i}', arity)
            for prev in tl: ctx.add(b_not(tuple_eq(xs, prev)))
            wrap.call_subject(I, ctx, S, xs, 0); tl.append(xs)
        args[name] = tl
    return args


def snapshot(P, log, subjs, used):
    """{name: (store items [(key Str, value)], queue [Str])} from the cache objects seen in the hook log"""
    out = {}
    for name in used:
        c = [e for e in log if e.get('subject') == name]
        if not c: continue
        st, q, cfg = cache_parts(P, c[-1]['cache'], c[-1]['ty'], 0)
        out[name] = (st, q)
    return out


def view(st, q):
    return ([k for k, v in st.items] if st is not None else []), (list(q.items) if q is not None else [])      # None: a storage static nothing has touched yet


def run(P, item):
    mode = item['mode']; props = set(item['props']); t0 = time.time()
    res = dict(paths=0, claims=0, failed=[], classes=set(), funcs=set(), builtins=set())
    subj_names = item.get('subjects', GROUP)
    unused = set(item.get('unused', []))
    nfill = item.get('nfill', 2)

    def run_path(ctx):
        I = Interp(P); E = wrap.Env(I)
        subjs = {n: wrap.Subject(P, n) for n in subj_names}
        log = []
        orig = install_cache_hook(I, ctx, log)
        # tag log entries with the subject whose wrapper made the call
        hooked = I.call_fn
        late = set(item.get('late', []))
        counts = {n: (0 if (n in unused or n in late) else nfill) for n in subj_names}
        cur = {'name': None}
        args = {}; calls = {}; outcomes = {}
        def api(ty, meth):
            c = P.methods.get((ty, meth), [])
            if len(c) != 1: raise Unsupported(f'public API {ty}::{meth} not found')
            return c[0]
        def announce(name, extra_tag=None):
            # user code registering the cache through the public registry API with the rules its attribute declares (plus, optionally, a run-time tag)
            it_ = subjs[name].rec['intended']
            mk = lambda xs: SeqM([Str(x) for x in xs], 'Vec')
            md = run_single(ctx, I.call_fn(ctx, api('InvalidationMetadata', 'new'), [mk(list(it_['tags']) + ([extra_tag] if extra_tag else [])), mk(it_['events']), mk(it_['dependencies'])]))
            reg = run_single(ctx, I.call_fn(ctx, api('InvalidationRegistry', 'global'), []))
            run_single(ctx, I.call_fn(ctx, api('InvalidationRegistry', 'register'), [reg, Ref(Cell(Str(it_['cache_name']), 'n')), md]))
        for name in item.get('prereg', []): announce(name)
        for name, k in counts.items():
            S = subjs[name]; arity = len(S.rec['args']); tl = []
            for i in range(k):
                cargs, xs = subject_args(ctx, S.rec, f'{name}_{i}')
                for prev in tl: ctx.add(b_not(tuple_eq(xs, prev)))
                n0 = len(log); ne0 = len(ctx.events)
                wrap.call_subject(I, ctx, S, cargs, 0)
                for e in log[n0:]: e['subject'] = name
                tl.append(xs); calls.setdefault(name, []).append(cargs)
                # outcome of this fill (Result functions / cache_if: chosen by the environment, all combinations are explored)
                oc = dict(ok=True, pred=True)
                for e in ctx.events[ne0:]:
                    if e[0] == 'exec' and isinstance(e[4], Agg) and e[4].ty == 'Result': oc['ok'] = (e[4].variant == 0)
                    if e[0] == 'pred': oc['pred'] = e[5]
                outcomes.setdefault(name, []).append(oc)
            args[name] = tl
        for name in item.get('rereg', []): announce(name, 'xtra_runtime_tag')
        used = [n for n in subj_names if counts[n] > 0]
        used_first = list(used)
        pre = {}
        snap = snapshot(P, log, subjs, used)
        for n in used:
            ks, qs = view(*snap[n]); pre[n] = (list(ks), list(qs), [v for k, v in (snap[n][0].items if snap[n][0] is not None else [])])
        # ---- the request (optionally issued twice, with the caches re-populated in between: the registry is stateful)
        pred = Pred(ctx)
        def request(kind_override=None):
            if mode == 'group':
                kind, name = (kind_override or item['kind2']), item['name']
                fn = {'tag': 'invalidate_by_tag', 'event': 'invalidate_by_event', 'dep': 'invalidate_by_dependency', 'cache': 'invalidate_cache'}[kind]
                f = P.resolve('cachelito_core::invalidation::' + fn) or P.resolve('invalidation::' + fn)
                if f is None: raise Unsupported('free function ' + fn)
                return run_single(ctx, I.call_fn(ctx, f, [Ref(Cell(Str(name), 'name'))]))
            if mode == 'with':
                name = item['name']
                f = P.resolve('invalidation::invalidate_with')
                p = EnvFn('pred', lambda c, A, name=name: pred.verdict(name, deref_all(A[0])))
                return run_single(ctx, I.call_fn(ctx, f, [Ref(Cell(Str(name), 'name')), p]))
            f = P.resolve('invalidation::invalidate_all_with')
            def pf(c, A):
                cn = deref_all(A[0]); return pred.verdict(cn.t if isinstance(cn.t, str) else str(cn.t), deref_all(A[1]))
            return run_single(ctx, I.call_fn(ctx, f, [EnvFn('pred2', pf)]))
        def snap_now():
            out = {}
            for n in used:
                ks, qs = view(*snap[n]); out[n] = (list(ks), list(qs), [v for k, v in (snap[n][0].items if snap[n][0] is not None else [])])
            return out
        def follow_up():
            fo = {}
            for n in used:
                ne = len(ctx.events)
                wrap.call_subject(I, ctx, subjs[n], calls[n][0], 0)
                fo[n] = len([e for e in ctx.events[ne:] if e[0] == 'exec'])
            return fo
        ret = request()
        post = snap_now()
        follow = follow_up() if item.get('follow', True) else {}
        second = None
        if item.get('repeat'):
            # caches used for the first time only now (their registration happens after the first request)
            for name in subj_names:
                if name not in late: continue
                S = subjs[name]; tl = []
                for i in range(nfill):
                    cargs, xs = subject_args(ctx, S.rec, f'{name}_{i}')
                    for prev in tl: ctx.add(b_not(tuple_eq(xs, prev)))
                    n0 = len(log)
                    wrap.call_subject(I, ctx, S, cargs, 0)
                    for e in log[n0:]: e['subject'] = name
                    tl.append(xs); calls.setdefault(name, []).append(cargs)
                args[name] = tl; used.append(name)
            snap.update(snapshot(P, log, subjs, [n for n in late if n in subj_names]))
            pre2 = snap_now(); ret2 = request(item.get('kind2b')); post2 = snap_now(); follow2 = follow_up()
            second = dict(pre=pre2, post=post2, ret=ret2, follow=follow2, used=list(used))
        if second is not None:
            return dict(subjs=subjs, used=used_first, pre=pre, post=post, ret=ret, pred=pred, args=args, follow=follow, second=second, outcomes=outcomes)
        return dict(subjs=subjs, used=used, pre=pre, post=post, ret=ret, pred=pred, args=args, follow=follow, outcomes=outcomes)

    outs, st = explore(run_path, seed=item.get('seed', 0), timeout_ms=20000 if item.get('tier') != 'thorough' else 120000, max_paths=4000)
    for o in outs:
        ctx = o.ctx; res['paths'] += 1; res['funcs'] |= ctx.funcs_used; res['builtins'] |= ctx.builtins_used
        if o.status in ('panic', 'deadlock'):
            res['failed'].append(dict(prop='C16' if o.status == 'panic' else 'C17', clause='no panic' if o.status == 'panic' else 'no self-deadlock', kind='inv', msg=str(o.res), cfg=f"INV/{mode}", op=item.get('name', ''), witness=None))
            res['classes'].add(o.status); continue
        d = o.res; claims = []
        oracle(item, d, claims, res['classes'], ctx)
        for prop, clause, f, cname in claims:
            if prop not in props: continue
            res['claims'] += 1
            okk, model = ctx.prove(f)
            if not okk:
                res['failed'].append(dict(prop=prop, clause=clause, kind='inv', cfg=f"INV/{mode}/{cname}", op=f"{item.get('kind2', mode)}:{item.get('name', '*')}",
                                          witness=inv_witness(ctx, model, item, d, cname)))
    return dict(paths=res['paths'], claims=res['claims'], failed=res['failed'], classes=sorted(res['classes']), funcs=sorted(res['funcs']), builtins=sorted(res['builtins']),
                checks=st['checks'], solver_s=st['solver_s'], blocks=st['blocks'], infeasible=st['infeasible'],
                tag=f"INV {mode} {item.get('kind2', '')}:{item.get('name', '*')} unused={sorted(item.get('unused', []))} late={sorted(item.get('late', []))}{' prereg=' + str(item['prereg']) if item.get('prereg') else ''}{' rereg=' + str(item['rereg']) if item.get('rereg') else ''} fill={item.get('nfill', 2)}{' x2' if item.get('repeat') else ''}")


def same_keys(a, b):
    if len(a) != len(b): return False
    return b_and(*[simp(str_eq(x, y)) for x, y in zip(a, b)])


def oracle(item, d, claims, classes, ctx):
    _oracle_round(item, d, claims, classes, ctx, '')
    if d.get('second'):
        d2 = dict(d); d2.update(d['second'])
        if item.get('kind2b'):
            _oracle_round(dict(item, kind2=item['kind2b']), d2, claims, classes, ctx, f" (second request, by {item['kind2b']}, for the same name after re-populating)")
        else:
            _oracle_round(item, d2, claims, classes, ctx, ' (second identical request after re-populating)')


def _oracle_round(item, d, claims, classes, ctx, suffix):
    mode = item['mode']; subjs = d['subjs']; used = d['used']
    def add(prop, clause, f, cname='*'): claims.append((prop, clause + suffix, f, cname))
    ret = d['ret']
    if mode == 'group':
        kind, name = item['kind2'], item['name']
        m = [n for n in used if matches(kind, name, subjs[n].rec)]
        classes.add(f'group/{kind}/{len(m)}match')
        for n in used:
            ks0, qs0, vs0 = d['pre'][n]; ks1, qs1, vs1 = d['post'][n]
            if n in m:
                add('C12', 'a matching cache holds no entry after the request (store)', len(ks1) == 0, n)
                add('C12', 'a matching cache holds no entry after the request (eviction queue)', len(qs1) == 0, n)
                if d['follow']: add('C12', 'after the request the next call runs the body', d['follow'].get(n) == 1, n)
            else:
                add('C13', 'a cache that does not match keeps every entry', same_keys(ks0, ks1) and simp(b_and(*[term_eq(a, b) for a, b in zip(vs0, vs1)])), n)
                add('C13', 'a cache that does not match keeps its eviction queue', same_keys(qs0, qs1), n)
                oc0 = (d.get('outcomes', {}).get(n) or [dict(ok=True, pred=True)])[0]
                stored0 = oc0['ok'] is True and oc0['pred'] is True
                if d['follow'] and stored0: add('C13', 'a cache that does not match still serves its entries', d['follow'].get(n) == 0, n)
        if kind == 'cache': add('C12', 'invalidate_cache returns whether a cache of that name was cleared', ret is (len(m) > 0) or simp(ret) == (len(m) > 0))
        else: add('C12', 'the returned count is the number of caches cleared', simp(ret == len(m)) is True)
    else:
        pred = d['pred']
        if mode == 'with':
            target = [n for n in used if subjs[n].rec['intended']['cache_name'] == item['name'] and subjs[n].rec['flavour'] != 'T']
            add('C13', 'invalidate_with returns whether a cache of that name is registered', (ret is (len(target) > 0)) or simp(ret) == (len(target) > 0))
            targets = {n: item['name'] for n in target}
        else:
            targets = {n: subjs[n].rec['intended']['cache_name'] for n in used if subjs[n].rec['flavour'] != 'T'}
            add('C13', 'invalidate_all_with returns the number of registered caches', simp(ret == len(targets)) is True)
        classes.add(f'{mode}/{len(targets)}targets')
        for n in used:
            ks0, qs0, vs0 = d['pre'][n]; ks1, qs1, vs1 = d['post'][n]
            if n not in targets:
                add('C13', 'a cache that is not addressed keeps every entry', same_keys(ks0, ks1), n)
                add('C13', 'a cache that is not addressed keeps its eviction queue', same_keys(qs0, qs1), n)
                continue
            cn = targets[n]
            # per stored key: removed iff the predicate holds; survivors keep their relative order in store and queue
            def verdict(k): return pred.verdict(cn, k)
            vk = [verdict(k) for k in ks0]
            for k, b in zip(ks0, vk):
                still = b_or(*[simp(str_eq(k, x)) for x in ks1]) if ks1 else False
                add('C13', 'an entry is removed exactly when the predicate holds for its key (store)', simp(still == b_not(b)) if is_z3(b) else (still == (not b)), n)
            for k in qs0:
                b = verdict(k)
                stillq = b_or(*[simp(str_eq(k, x)) for x in qs1]) if qs1 else False
                add('C13', 'an entry is removed exactly when the predicate holds for its key (eviction queue)', simp(stillq == b_not(b)) if is_z3(b) else (stillq == (not b)), n)
            # order of the surviving queue entries = original order filtered
            idx = []
            for x in qs1:
                pos = [i for i, k in enumerate(qs0) if simp(str_eq(k, x)) is True]
                idx.append(pos[0] if pos else None)
            add('C13', 'the surviving queue entries keep their order and nothing foreign appears', None not in idx and idx == sorted(idx) and len(set(idx)) == len(idx), n)
            add('C13', 'queue and store track the same keys after the invalidation', len(qs1) == len(ks1) and all(any(simp(str_eq(k, x)) is True for x in qs1) for k in ks1), n)
            add('C12', 'the predicate is consulted for every stored key', all(any(cn_ == cn and simp(str_eq(k, k_)) is True for cn_, k_, _ in pred.memo) for k in ks0), n)


def inv_witness(ctx, model, item, d, cname):
    def ev(t):
        if is_conc(t): return int(t)
        v = model.eval(t, model_completion=True)
        if z3.is_int_value(v): return v.as_long()
        if z3.is_true(v): return True
        if z3.is_false(v): return False
        return str(v)
    w = dict(prereg=list(item.get('prereg', [])), rereg=list(item.get('rereg', [])), mode=item['mode'], kind2=item.get('kind2'), kind2b=item.get('kind2b'), name=item.get('name'), cache=cname, unused=sorted(item.get('unused', [])),
             fills={n: [[ev(x) for x in t] for t in ts] for n, ts in d['args'].items()},
             pred=[(cn, render_key(k, ev), ev(b)) for cn, k, b in d['pred'].memo], ret=(ev(d['ret']) if d['ret'] is not None and not isinstance(d['ret'], Agg) else None),
             late=sorted(item.get('late', [])), repeat=bool(item.get('repeat')), post_keys={n: [render_key(k, ev) for k in d['post'][n][0]] for n in d['used']}, post_queue={n: [render_key(k, ev) for k in d['post'][n][1]] for n in d['used']},
             follow=d['follow'], outcomes={n: [dict(ok=bool(o['ok']) if isinstance(o['ok'], bool) else bool(ev(o['ok'])), pred=bool(o['pred']) if isinstance(o['pred'], bool) else bool(ev(o['pred']))) for o in os] for n, os in d.get('outcomes', {}).items()})
    return w


# ------------------------------------------------------------------ native replay
def replay(f, w):
    from . import replay as R
    if w is None: return False, 'no witness', []
    subs = wrap.subjects()
    L = ['scenario subj']
    late = set(w.get('late') or [])
    def callline(n, t):
        recv = t[0] if subs[n]['recv'] else 0; rest = t[1:] if subs[n]['recv'] else t
        return f"call 0 {n} {recv} " + ' '.join(map(str, rest))
    scripted = False
    for n, os in (w.get('outcomes') or {}).items():
        it_ = subs[n]['intended']
        if it_['result']: L.append(f"script oks {subs[n]['id']} " + ' '.join('1' if o['ok'] else '0' for o in os) + ' 1 1 1 1'); scripted = scripted or any(not o['ok'] for o in os)
        if it_['cache_if']: L.append(f"script preds {subs[n]['id']} " + ' '.join('1' if o['pred'] else '0' for o in os) + ' 1 1 1 1'); scripted = scripted or any(not o['pred'] for o in os)
    def was_stored(n, i):
        os = (w.get('outcomes') or {}).get(n) or []
        return True if i >= len(os) else (os[i]['ok'] and os[i]['pred'])
    def regline(n, extra=None):
        it_ = subs[n]['intended']; cs = lambda xs: ','.join(xs) if xs else '-'
        return f"reg {it_['cache_name']} {cs(list(it_['tags']) + ([extra] if extra else []))} {cs(it_['events'])} {cs(it_['dependencies'])}"
    for n in w.get('prereg') or []: L.append(regline(n))
    for n, ts in w['fills'].items():
        if n in late: continue
        for t in ts: L.append(callline(n, t))
    for n in w.get('rereg') or []: L.append(regline(n, 'xtra_runtime_tag'))
    if w['mode'] == 'group':
        L.append({'tag': 'inv_tag', 'event': 'inv_event', 'dep': 'inv_dep', 'cache': 'inv_cache'}[w['kind2']] + ' ' + w['name'])
    elif w['mode'] == 'with':
        keys = [k.replace(' ', '%20') for cn, k, b in w['pred'] if b and cn == w['name']]
        L.append('inv_with ' + w['name'] + ' ' + ' '.join(keys))
    else:
        L.append('inv_all_with ' + ' '.join(f"{cn}:{k.replace(' ', '%20')}" for cn, k, b in w['pred'] if b))
    if w.get('repeat'):
        reqline = L[-1]
        for n, ts in w['fills'].items():
            if ts and n not in late: L.append(callline(n, ts[0]))
        for n, ts in w['fills'].items():
            if n in late:
                for t in ts: L.append(callline(n, t))
        if w.get('kind2b'): reqline = {'tag': 'inv_tag', 'event': 'inv_event', 'dep': 'inv_dep', 'cache': 'inv_cache'}[w['kind2b']] + ' ' + w['name']
        L.append(reqline)
    names = {}
    for n in w['fills']:
        if subs[n]['flavour'] != 'T' and w['fills'][n]:
            names[n] = subs[n]['intended']['cache_name']; L.append('keys ' + names[n])
    # overflow probe on the cache the claim is about: queue damage shows as a limit that stops holding / a wrong victim
    c = w['cache']; probe = None
    if c in w['fills'] and subs[c]['intended']['limit'] and subs[c]['flavour'] != 'T' and subs[c]['intended']['policy'] in ('FIFO', 'LRU') and len(subs[c]['args']) == 1:
        lim = subs[c]['intended']['limit']
        fresh = [900001 + i for i in range(lim + 1)]
        for x in fresh: L.append(f"call 0 {c} 0 {x}")
        L.append('keys ' + subs[c]['intended']['cache_name']); probe = (lim, fresh)
    L.append('end')
    outs, err = R.run_scenarios('\n'.join(L) + '\n', timeout=60)
    if not outs: return False, 'no output: ' + err[-200:], []
    lines = outs[0]
    inv = [l for l in lines if l.startswith('inv ')]
    keyl = [l.split()[2:] for l in lines if l.startswith('keys ')]
    got = dict(zip(list(names.keys()), keyl[:len(names)]))
    # expected by the attribute lists
    dev = []
    for n in names:
        it = subs[n]['intended']; stored = [str(t[0]) if len(t) == 1 else '|'.join(map(str, t)) for i_, t in enumerate(w['fills'][n]) if was_stored(n, i_)]
        if w['mode'] == 'group':
            k_last = w.get('kind2b') or w['kind2']
            if matches(k_last, w['name'], subs[n]): exp = []
            elif w.get('kind2b') and matches(w['kind2'], w['name'], subs[n]): exp = stored[:1]      # emptied by the first request, then its first call repeated
            else: exp = stored
        elif w['mode'] == 'with': exp = [k for k in stored if not any(b and cn == w['name'] and kk == k for cn, kk, b in w['pred'])] if it['cache_name'] == w['name'] else stored
        else: exp = [k for k in stored if not any(b and cn == it['cache_name'] and kk == k for cn, kk, b in w['pred'])]
        if sorted(exp) != sorted(got.get(n, [])): dev.append(f"{n}: keys {sorted(got.get(n, []))} expected {sorted(exp)}")
    if probe is not None and len(keyl) > len(names):
        lim, fresh = probe
        after = keyl[-1]
        exp_after = sorted(map(str, fresh[-lim:]))
        if sorted(after) != exp_after: dev.append(f"{c}: after {lim + 1} further stores the cache holds {sorted(after)} (limit {lim}; expected {exp_after})")
    if w['mode'] == 'group' and inv:
        for j, iv in enumerate(inv):
            kj = w['kind2b'] if (j >= 1 and w.get('kind2b')) else w['kind2']
            nm = len([n for n in w['fills'] if w['fills'][n] and matches(kj, w['name'], subs[n])])
            exp_ret = str(nm) if kj != 'cache' else ('true' if nm else 'false')
            if iv.split()[1] != exp_ret: dev.append(f"request #{j + 1} (by {kj}) returned {iv.split()[1]} expected {exp_ret}")
    if not dev and w['mode'] in ('with', 'all_with') and ('queue' in f.get('clause', '') or 'removed exactly when' in f.get('clause', '')):
        d2, lines2 = diff_tail(w, subs, callline)
        if d2: return True, 'native run deviates from a run in which the removed keys were never stored: ' + d2, lines2
        # the witness may need entries that have outlived their ttl (not yet looked up again): same comparison after waiting
        c_ = w['cache']; ttl_ = subs[c_]['intended']['ttl'] if c_ in subs else None
        if ttl_ is not None and ttl_ <= 2:
            d2, lines2 = diff_tail(w, subs, callline, tries=12, sleep_ms=ttl_ * 1000 + 250)
            if d2: return True, f'native run (request issued {ttl_}s + 250ms after the stores) deviates from a run in which the removed keys were never stored: ' + d2, lines2
            d2, lines2 = stale_scenario(w, subs, callline)
            if d2: return True, 'native run deviates from a run in which the removed key was never stored: ' + d2, lines2
    return (len(dev) > 0), ('native run deviates from the attribute lists: ' + '; '.join(dev)) if dev else 'native run behaves as the attribute lists prescribe', lines


def gen_tail(seed, live, lim):
    """a tail of further calls: fill to the limit, a run of hits, an overflow (optionally a second round), then one probe per key"""
    import random
    rnd = random.Random(7000 + seed); live = list(live)
    fresh = [800001 + i for i in range(lim + 2)]
    tail = []
    for x in fresh[:max(0, lim - len(live))]: tail.append(x); live.append(x)
    for _ in range(rnd.randint(0, 4 * lim)): tail.append(rnd.choice(live))
    tail.append(fresh[-1]); live.append(fresh[-1])
    if rnd.random() < 0.5:
        for _ in range(rnd.randint(0, 2 * lim)): tail.append(rnd.choice(live))
        tail.append(fresh[-2]); live.append(fresh[-2])
    return tail + sorted(live)


def stale_scenario(w, subs, callline):
    """one matching entry that has outlived its ttl (but was used after younger entries were stored) next to live ones:
    store S; wait 0.6 ttl; store the others; hit S; wait 0.5 ttl (S expired, the others alive); request matching S only;
    fill up with fresh keys; probe the others.  Reference: the same without S.  Sync engines only (sub-second clocks)."""
    from . import replay as R
    c = w['cache']
    if c not in w['fills'] or len(w['fills'][c]) < 2: return None, []
    it = subs[c]['intended']
    if subs[c]['flavour'] != 'G' or not it['ttl'] or not it['limit'] or it['policy'] not in ('LRU', 'ARC', 'TLRU') or len(subs[c]['args']) != 1 or subs[c]['recv']: return None, []
    ttl = it['ttl']; lim = it['limit']; cn = it['cache_name']
    S = w['fills'][c][0]; others = w['fills'][c][1:lim]
    if w['mode'] == 'with': req = f"inv_with {cn} {S[0]}"
    else: req = f"inv_all_with {cn}:{S[0]}"
    fresh = [810001 + i for i in range(lim - len(others))]
    def script(with_s):
        L = ['scenario subj']
        if with_s: L.append(callline(c, S))
        L.append(f'sleep_ms {int(ttl * 600)}')
        L += [callline(c, t) for t in others]
        if with_s: L.append(callline(c, S))
        L.append(f'sleep_ms {int(ttl * 500)}'); L.append(req)
        L += [f'call 0 {c} 0 {x}' for x in fresh] + [callline(c, t) for t in others] + ['end']
        outs, err = R.run_scenarios('\n'.join(L) + '\n', timeout=60)
        if not outs: return None, []
        ex = [int(l.split()[1]) for l in outs[0] if l.startswith('execs ')]
        d = [ex[i] - (ex[i - 1] if i else 0) for i in range(len(ex))]
        return d[-len(others):], outs[0]
    a, la = script(True); b, lb = script(False)
    if a is None or b is None: return None, []
    if a != b:
        j = next(i for i, (x, y) in enumerate(zip(a, b)) if x != y)
        return (f"{c}: {S[0]} was stored, used again, and had outlived its ttl when the request matching it was issued; after {len(fresh)} further store(s) the live entry {others[j][0]} {'runs the body again' if a[j] else 'is served'} "
                f"but {'runs the body again' if b[j] else 'is served'} when {S[0]} was never stored"), la + ['--- reference run without the stale key ---'] + lb
    return None, []


def diff_tail(w, subs, callline, tries=120, sleep_ms=0):
    """C13 'as if the removed entries had never been stored': the solver's witness says the eviction queue still lists a removed
    key.  The queue is private to the expansion, so the native confirmation is differential: the witness history (fills, request)
    followed by a tail of further calls is compared with the history without the removed keys followed by the same tail; the two
    execution traces must agree call by call.  The tails are drawn from a fixed seed sequence (fill to the limit, hits, overflow, probes)."""
    import random
    from . import replay as R
    c = w['cache']
    if c not in w['fills'] or not w['fills'][c]: return None, []
    it = subs[c]['intended']
    cap = it['limit'] or ((it['max_memory'] // 8) if (it['max_memory'] and subs[c]['ret'] == 'u64' and it['max_memory'] <= 4096) else None)      # u64 values: 8 bytes each
    if not cap or subs[c]['flavour'] == 'T' or it['policy'] == 'Random' or len(subs[c]['args']) != 1 or subs[c]['recv']: return None, []
    cn = it['cache_name']
    removed = set(k for pc, k, b in w['pred'] if b and (pc == cn or w['mode'] == 'with' and pc == w['name']))
    stored = [t for t in w['fills'][c]]
    surv = [t for t in stored if str(t[0]) not in removed]
    if len(surv) == len(stored): return None, []
    if w['mode'] == 'with': req = 'inv_with ' + w['name'] + ' ' + ' '.join(k.replace(' ', '%20') for pc, k, b in w['pred'] if b and pc == w['name'])
    else: req = 'inv_all_with ' + ' '.join(f"{pc}:{k.replace(' ', '%20')}" for pc, k, b in w['pred'] if b)
    lim = cap
    for seed in range(tries):
        tail = gen_tail(seed, [t[0] for t in surv], lim)
        def script(fills):
            L = ['scenario subj'] + [callline(c, t) for t in fills] + ([f'sleep_ms {sleep_ms}'] if sleep_ms else []) + [req] + [f'call 0 {c} 0 {x}' for x in tail] + ['end']
            outs, err = R.run_scenarios('\n'.join(L) + '\n', timeout=60)
            if not outs: return None, []
            ex = [int(l.split()[1]) for l in outs[0] if l.startswith('execs ')]
            if len(ex) != len(fills) + len(tail): return None, outs[0]
            return [ex[i] - (ex[i - 1] if i else 0) for i in range(len(ex))][len(fills):], outs[0]
        a, la = script(stored); b, lb = script(surv)
        if a is None or b is None: continue
        if a != b:
            j = next(i for i, (x, y) in enumerate(zip(a, b)) if x != y)
            return (f"{c}: after the request, call #{j + 1} of the tail {tail} (argument {tail[j]}) {'runs the body' if a[j] else 'is a hit'} but {'runs the body' if b[j] else 'is a hit'} when the removed keys {sorted(removed)} were never stored (tail seed {seed})"), la + ['--- reference run without the removed keys ---'] + lb
    return None, []
