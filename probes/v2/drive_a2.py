import sys, time, z3
from mirsym2 import *
from drive_a import P, I, poll_to_end, acall
def scenario(ctx):
    I.reset()
    k0, k1 = z3.BitVec('k0', 32), z3.BitVec('k1', 32)
    pend = {'n': 0}
    def policy(c, co):
        pend['n'] += 1; return pend['n'] > 1        # first poll of the gate: Pending, later: Ready
    ctx.gate_policy = policy
    co = run_single(ctx, I.call_fn(ctx, P.fns['a_arc2'], [k0]))
    cell = Cell(co, 'fut')
    r = run_single(ctx, I.call_fn(ctx, P.fns[co.fname], [Agg('Pin', 0, [Ref(cell)]), Opaque('cx')]))
    assert r.variant == 1, 'expected Pending'
    ck = [n for n in I.static_cells if '__CACHE_A_ARC2' in n][0]; ok_ = [n for n in I.static_cells if '__ORDER_A_ARC2' in n][0]
    cache = I.static_cells[ck].v; order = I.static_cells[ok_].v
    dm = cache.inner.v; q = order.inner.v
    held = [lk.name for lk in (dm.shard, q) if lk.state != 0]
    saved = [type(x).__name__ for x in co.fields[103].fields]
    info = dict(state=co.variant, locks_held=held, entries_at_suspension=len(dm.items), queue=len(q.inner.v.items), saved_locals=saved)
    # another call with the same key completes while suspended
    ctx.gate_policy = lambda c, co2: True
    v2, n2 = acall(ctx, 'a_arc2', k0)
    info['entries_after_other_call'] = len(dm.items)
    # resume the suspended call
    r = run_single(ctx, I.call_fn(ctx, P.fns[co.fname], [Agg('Pin', 0, [Ref(cell)]), Opaque('cx')]))
    info['resumed_ready'] = (r.variant == 0); info['entries_after_resume'] = len(dm.items); info['execs'] = len([e for e in ctx.events if e[0] == 'exec'])
    return info
t = time.time()
res, nchecks, tsolve = explore(scenario)
for status, r, ctx in res: print(status, r)
print('paths', len(res), 'wall %.2fs' % (time.time() - t))
