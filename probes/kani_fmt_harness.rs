#[cfg(kani)]
mod proofs {
    use cachelito_core::CacheableKey;

    fn key2<A: CacheableKey, B: CacheableKey>(a: A, b: B) -> String {
        let mut __key_parts = Vec::new();
        __key_parts.push((a).to_cache_key());
        __key_parts.push((b).to_cache_key());
        __key_parts.join("|")
    }

    #[kani::proof]
    #[kani::unwind(12)]
    fn inj_u8_u8() {
        let a: u8 = kani::any(); let b: u8 = kani::any();
        let c: u8 = kani::any(); let d: u8 = kani::any();
        kani::assume((a, b) != (c, d));
        let k1 = key2(a, b);
        let k2 = key2(c, d);
        assert!(k1 != k2);
        std::mem::forget(k1); std::mem::forget(k2);
    }

    #[kani::proof]
    #[kani::unwind(8)]
    fn inj_str1_str1() {
        // two args, each an ASCII string of length <= 1
        let b: [u8; 4] = kani::any();
        kani::assume(b[0] < 0x80 && b[1] < 0x80 && b[2] < 0x80 && b[3] < 0x80);
        let l: [usize; 4] = kani::any();
        kani::assume(l[0] <= 1 && l[1] <= 1 && l[2] <= 1 && l[3] <= 1);
        let s0 = std::str::from_utf8(&b[0..l[0]]).unwrap();
        let s1 = std::str::from_utf8(&b[1..1 + l[1]]).unwrap();
        let s2 = std::str::from_utf8(&b[2..2 + l[2]]).unwrap();
        let s3 = std::str::from_utf8(&b[3..3 + l[3]]).unwrap();
        kani::assume((s0, s1) != (s2, s3));
        let k1 = key2(s0, s1);
        let k2 = key2(s2, s3);
        assert!(k1 != k2);
        std::mem::forget(k1); std::mem::forget(k2);
    }
}
#[cfg(kani)]
mod proofs2 {
    use cachelito_core::CacheableKey;
    fn key2<A: CacheableKey, B: CacheableKey>(a: A, b: B) -> String {
        let mut __key_parts = Vec::new();
        __key_parts.push((a).to_cache_key());
        __key_parts.push((b).to_cache_key());
        __key_parts.join("|")
    }
    #[kani::proof]
    #[kani::unwind(12)]
    fn inj_bool_bool() {
        let a: bool = kani::any(); let b: bool = kani::any();
        let c: bool = kani::any(); let d: bool = kani::any();
        kani::assume((a, b) != (c, d));
        let k1 = key2(a, b);
        let k2 = key2(c, d);
        assert!(k1 != k2);
        std::mem::forget(k1); std::mem::forget(k2);
    }
    #[kani::proof]
    #[kani::unwind(6)]
    fn inj_u8_single() {
        let a: u8 = kani::any(); let c: u8 = kani::any();
        kani::assume(a != c);
        let k1 = a.to_cache_key();
        let k2 = c.to_cache_key();
        assert!(k1 != k2);
        std::mem::forget(k1); std::mem::forget(k2);
    }
}
