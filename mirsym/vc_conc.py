"""Concurrency VCs (C17, C18, concurrent clauses of C15 and C03): 2-3 simulated threads run short programs of REAL entry
points (wrapper calls, invalidation functions, statistics functions) on one subject; a context switch is possible before
every lock acquisition / DashMap call / Once / (optionally) atomic; schedules are explored depth-first with a preemption
bound; data stay symbolic.  Deadlock = all unfinished threads blocked.  At quiescence the cache must be consistent."""
import time, re, json
import z3
from .engine import (Interp, Ctx, Agg, Cell, Ref, Str, EnvFn, Coroutine, Opaque, explore, run_single, run_threads, Unsupported, Panic, Deadlock, Infeasible,
                     is_conc, is_z3, simp, b_and, b_or, b_not, deref_all, str_eq, term_eq)
from . import wrap
from .vc_wrap import install_cache_hook, cache_parts, cache_stats, arg_tuple, tuple_eq, render_key
from .vc_inv import Pred


def call_subject_gen(I, ctx, subj, args):
    """generator version of wrap.call_subject (can be suspended at scheduling points)"""
    r = yield from I.call_fn(ctx, subj.fn, list(args))
    if isinstance(r, Coroutine):
        cell = Cell(r, 'fut'); pf = I.p.fns[r.fname]
        for _ in range(64):
            pr = yield from I.call_fn(ctx, pf, [Agg('Pin', 0, [Ref(cell)]), Opaque('cx')])
            if pr.variant == 0: return pr.fields[0]
        raise Unsupported('future did not complete')
    return r


def op_gen(P, I, ctx, subj, op, env):
    """one program operation as a generator; returns a dict describing what happened"""
    kind = op[0]
    if kind == 'call':
        ne = len(ctx.events); t_start = ctx.steps
        r = yield from call_subject_gen(I, ctx, subj, op[1])
        return dict(op='call', args=op[1], ret=r, execs=[e for e in ctx.events[ne:] if e[0] == 'exec' and e[1] == ctx.tid], t_start=t_start, t_end=ctx.steps)
    if kind == 'call_first':
        # the first ever call of ANOTHER cached function (its expansion registers itself with the registries on the way)
        other = wrap.Subject(P, op[1]); ne = len(ctx.events); me = ctx.tid
        if not hasattr(ctx, 'nolog'): ctx.nolog = set()
        ctx.nolog.add(me)                     # the cache-method log is about the subject under test
        try: r = yield from call_subject_gen(I, ctx, other, [424242] * len(other.rec['args']))
        finally: ctx.nolog.discard(me)
        return dict(op='call_first', ret=r, execs=[e for e in ctx.events[ne:] if e[0] == 'exec' and e[1] == ctx.tid])
    name = subj.rec['intended']['cache_name']
    if kind == 'inv_with':
        f = P.resolve('invalidation::invalidate_with')
        p = EnvFn('pred', lambda c, A: env['pred'].verdict(name, deref_all(A[0])))
        r = yield from I.call_fn(ctx, f, [Ref(Cell(Str(name), 'name')), p]); return dict(op=kind, ret=r)
    if kind == 'inv_all_with':
        f = P.resolve('invalidation::invalidate_all_with')
        p = EnvFn('pred2', lambda c, A: env['pred'].verdict(name, deref_all(A[1])))
        r = yield from I.call_fn(ctx, f, [p]); return dict(op=kind, ret=r)
    if kind in ('inv_tag', 'inv_cache', 'inv_event', 'inv_dep'):
        fn = {'inv_tag': 'invalidate_by_tag', 'inv_cache': 'invalidate_cache', 'inv_event': 'invalidate_by_event', 'inv_dep': 'invalidate_by_dependency'}[kind]
        f = P.resolve('invalidation::' + fn)
        r = yield from I.call_fn(ctx, f, [Ref(Cell(Str(op[1]), 'name'))]); return dict(op=kind, ret=r)
    if kind in ('stats_get', 'stats_reset'):
        f = P.resolve('stats_registry::' + ('get' if kind == 'stats_get' else 'reset'))
        r = yield from I.call_fn(ctx, f, [Ref(Cell(Str(name), 'name'))]); return dict(op=kind, ret=r)
    raise Unsupported('program op ' + kind)


def run(P, item):
    props = set(item['props']); name = item['subject']; t0 = time.time()
    res = dict(paths=0, claims=0, failed=[], classes=set(), funcs=set(), builtins=set())
    progs_spec = item['progs']; nfill = item.get('nfill', 0); pb = item.get('preempt', 2)
    sched_atomics = item.get('atomics', False)

    def run_path(ctx):
        I = Interp(P); E = wrap.Env(I); I.sched_atomics = sched_atomics
        subj = wrap.Subject(P, name); arity = len(subj.rec['args'])
        log = []; install_cache_hook(I, ctx, log)
        fills = []
        for i in range(nfill):
            xs = arg_tuple(ctx, f'f{i}', arity)
            for prev in fills: ctx.add(b_not(tuple_eq(xs, prev)))
            wrap.call_subject(I, ctx, subj, xs, 0); fills.append(xs)
        # a registration-only first call when nothing is pre-filled (callbacks must exist for the invalidation programs)
        fresh = []
        def mkarg(spec, label):
            if spec[0] == 'fill': return fills[spec[1]]
            if spec[0] == 'new':
                key = ('new', spec[1])
                for k, v in fresh:
                    if k == key: return v
                xs = arg_tuple(ctx, f'n{spec[1]}', arity)
                for prev in fills + [v for k, v in fresh]: ctx.add(b_not(tuple_eq(xs, prev)))
                fresh.append((key, xs)); return xs
            raise Unsupported('arg spec')
        progs = []
        for ti, pr in enumerate(progs_spec):
            ops = []
            for op in pr:
                if op[0] == 'call': ops.append(('call', mkarg(op[1], f't{ti}')))
                else: ops.append(tuple(op))
            progs.append(ops)
        env = dict(pred=Pred(ctx))
        g0 = [c for c in log if c['method'] == 'get']
        stats0 = cache_stats(P, g0[-1]['cache'], g0[-1]['ty']) if g0 else None
        nlog0 = len(log)
        results = {}
        ctx.events.append(('conc-start',))
        nlock0 = len(ctx.events)
        ctx.stash = dict(fills=fills, fresh=fresh, env=env, nlock0=nlock0)
        def mk(ti, ops):
            def gen(c):
                out = []
                for op in ops:
                    r = yield from op_gen(P, I, c, subj, op, env)
                    out.append(r)
                return out
            return gen
        rs = run_threads(ctx, [mk(ti, ops) for ti, ops in enumerate(progs)], preempt_bound=pb)
        ctx.tid = 0
        # ---- quiescent state
        cs = [c for c in log if c['method'] == 'get']
        store = queue = cfg = None
        if cs:
            store, queue, cfg = cache_parts(P, cs[-1]['cache'], cs[-1]['ty'], 0)
        snap = dict(keys=[k for k, v in store.items] if store is not None else [], vals=[v for k, v in store.items] if store is not None else [], queue=list(queue.items) if queue is not None else [])
        if cs:
            snap['stats1'] = cache_stats(P, cs[-1]['cache'], cs[-1]['ty']); snap['nlookups'] = len([c for c in log[nlog0:] if c['method'] == 'get']); snap['nfound'] = len([c for c in log[nlog0:] if c['method'] == 'get' and c['ret'].variant == 1])
        # ---- sequential probe: every argument tuple used, then one fresh store
        probe = []
        if item.get('probe', True) and store is not None:
            x = arg_tuple(ctx, 'probe', arity)
            for prev in fills + [v for k, v in fresh]: ctx.add(b_not(tuple_eq(x, prev)))
            ne = len(ctx.events)
            pr_ = wrap.call_subject(I, ctx, subj, x, 0)
            probe.append(dict(args=x, ret=pr_, execs=len([e for e in ctx.events[ne:] if e[0] == 'exec'])))
            store2, queue2, _ = cache_parts(P, cs[-1]['cache'], cs[-1]['ty'], 0)
            snap['keys2'] = [k for k, v in store2.items]; snap['queue2'] = list(queue2.items)
        locks = [e for e in ctx.events[nlock0:] if e[0] in ('lock', 'unlock')]
        stats1 = None
        if g0 and snap.get('stats_after') is None: pass
        return dict(stats0=stats0, nlookups=snap.get('nlookups'), nfound=snap.get('nfound'), stats1=snap.get('stats1'),subj=subj, rs=rs, snap=snap, cfg=cfg, fills=fills, fresh=fresh, progs=progs, probe=probe, locks=locks, sched=list(ctx.sched_trace), stats=None, env=env)

    outs, st = explore(run_path, seed=item.get('seed', 0), timeout_ms=20000, max_paths=item.get('max_paths', 6000))
    ndead = 0
    for o in outs:
        ctx = o.ctx; res['paths'] += 1; res['funcs'] |= ctx.funcs_used; res['builtins'] |= ctx.builtins_used
        if 'C17' in props: res['claims'] += 1          # obligation: this schedule does not end with every unfinished thread blocked
        if o.status == 'deadlock':
            res['classes'].add('deadlock'); ndead += 1
            if ndead <= 3:
                stash = getattr(ctx, 'stash', None)
                w = None
                if stash is not None and ctx.check():
                    model = ctx.solver.model()
                    def ev(t):
                        if is_conc(t): return int(t)
                        v = model.eval(t, model_completion=True)
                        return v.as_long() if z3.is_int_value(v) else (True if z3.is_true(v) else False if z3.is_false(v) else str(v))
                    locks = [e for e in ctx.events[stash['nlock0']:] if e[0] in ('lock', 'unlock')]
                    ttl_ = wrap.subjects()[name]['intended']['ttl']; sleep_ms = 0
                    if ttl_:
                        A_ = wrap.subjects()[name]['flavour'] == 'A'; clk = ctx.sys_vars if A_ else ctx.now_vars
                        if len(clk) >= 2:
                            span = ev(clk[-1]) - ev(clk[0])
                            if isinstance(span, int) and span >= (ttl_ if A_ else ttl_ * 1000000000): sleep_ms = min(ttl_, 5) * 1000 + 150
                    w = dict(sleep_ms=sleep_ms, subject=name, progs=progs_spec, nfill=nfill, deadlock=str(o.res), attempts=[list(b) for b in ctx.blocked], sched=list(ctx.sched_trace), locks=[[str(x) for x in e] for e in locks],
                             fills=[[ev(x) for x in t] for t in stash['fills']], fresh=[[ev(x) for x in v] for k, v in stash['fresh']], fresh_keys=[list(k) for k, v in stash['fresh']],
                             pred=[(cn, render_key(k, ev), ev(b)) for cn, k, b in stash['env']['pred'].memo])
                if 'C17' in props: res['failed'].append(dict(prop='C17', clause='no interleaving leaves every unfinished caller blocked', kind='conc', msg=str(o.res), cfg=f"CONC/{name}", op=_progs_str(progs_spec), witness=w))
            continue
        if o.status == 'panic':
            res['classes'].add('panic')
            stash = getattr(ctx, 'stash', None); w = None
            if stash is not None and ctx.check():
                model = ctx.solver.model()
                def ev(t):
                    if is_conc(t): return int(t)
                    v = model.eval(t, model_completion=True)
                    return v.as_long() if z3.is_int_value(v) else (True if z3.is_true(v) else False if z3.is_false(v) else str(v))
                locks = [e for e in ctx.events[stash['nlock0']:] if e[0] in ('lock', 'unlock')]
                ttl_ = wrap.subjects()[name]['intended']['ttl']; sleep_ms = 0
                if ttl_:
                    A_ = wrap.subjects()[name]['flavour'] == 'A'; clk = ctx.sys_vars if A_ else ctx.now_vars
                    if len(clk) >= 2:
                        span = ev(clk[-1]) - ev(clk[0])
                        if isinstance(span, int) and span >= (ttl_ if A_ else ttl_ * 1000000000): sleep_ms = min(ttl_, 5) * 1000 + 150
                w = dict(sleep_ms=sleep_ms, subject=name, progs=progs_spec, nfill=nfill, panic=str(o.res), sched=list(ctx.sched_trace), locks=[[str(x) for x in e] for e in locks],
                         fills=[[ev(x) for x in t] for t in stash['fills']], fresh=[[ev(x) for x in v] for k, v in stash['fresh']], fresh_keys=[list(k) for k, v in stash['fresh']],
                         pred=[(cn, render_key(k, ev), ev(b)) for cn, k, b in stash['env']['pred'].memo])
            res['failed'].append(dict(prop='C16', clause='no panic', kind='conc', msg=str(o.res), cfg=f"CONC/{name}", op=_progs_str(progs_spec), witness=w)); continue
        d = o.res; claims = []
        oracle(item, d, claims, res['classes'], ctx)
        for prop, clause, f in claims:
            if prop not in props: continue
            res['claims'] += 1
            okk, model = ctx.prove(f)
            if not okk:
                res['failed'].append(dict(prop=prop, clause=clause, kind='conc', cfg=f"CONC/{name}", op=_progs_str(progs_spec), witness=conc_witness(ctx, model, item, d)))
    return dict(paths=res['paths'], claims=res['claims'], failed=res['failed'], classes=sorted(res['classes']), funcs=sorted(res['funcs']), builtins=sorted(res['builtins']),
                checks=st['checks'], solver_s=st['solver_s'], blocks=st['blocks'], infeasible=st['infeasible'], tag=f"CONC {name} fill={nfill} preempt<={pb} {_progs_str(progs_spec)}")


def _progs_str(ps): return ' || '.join(';'.join(op[0] + (str(op[1]) if len(op) > 1 and op[0] == 'call' else '') for op in p) for p in ps)


def oracle(item, d, claims, classes, ctx):
    subj = d['subj']; it = subj.rec['intended']; snap = d['snap']; cfg = d['cfg']
    def add(prop, clause, f): claims.append((prop, clause, f))
    classes.add('quiescent/%dkeys/%dqueue' % (len(snap['keys']), len(snap['queue'])))
    # every call returned the function's value for its own arguments
    for ti, rs in enumerate(d['rs']):
        for r in rs:
            if r['op'] != 'call': continue
            if it['result'] or it['invalidate_on']: continue
            sid = subj.rec['id']
            F = z3.Function(f'F{sid}', *([z3.IntSort()] * max(len(r['args']), 1) + [z3.IntSort()]))
            want = F(*r['args']) if r['args'] else F(z3.IntVal(0))
            add('C18', 'every concurrent call returns the function\'s value for its own arguments', simp(r['ret'] == want) if not isinstance(r['ret'], Agg) else True)
            add('C03', 'a concurrent call runs the body at most once', len(r['execs']) <= 1)
        # a call that starts after ANY call with the same arguments has executed, stored and returned is served from the cache
        random_limit = it['limit'] is not None and it['policy'] == 'Random'      # an arbitrary victim may be the entry just stored
        if not (it['result'] or it['invalidate_on'] or it['cache_if'] or it['ttl'] or it['max_memory'] or random_limit):
            allcalls = [r2 for rs2 in d['rs'] for r2 in rs2 if r2['op'] == 'call']
            for r in rs:
                if r['op'] != 'call': continue
                if any(r2 is not r and r2['args'] is r['args'] and r2['t_end'] <= r['t_start'] for r2 in allcalls):
                    add('C03', 'once any call that stored the result has returned, a call that starts later with the same arguments never runs the body', len(r['execs']) == 0)
        # the setup calls stored their results and returned before the concurrent phase began
        if not (it['result'] or it['invalidate_on'] or it['cache_if'] or it['ttl'] or it['max_memory']):
            others = [r2 for rs2 in d['rs'] for r2 in rs2 if r2['op'] == 'call' and not any(r2['args'] is f_ for f_ in d['fills'])]
            inval = any(op[0].startswith('inv') for pr in item['progs'] for op in pr)
            if not inval and (it['limit'] is None or not others):
                for r in rs:
                    if r['op'] == 'call' and any(r['args'] is f_ for f_ in d['fills']):
                        add('C03', 'a call whose arguments were stored by a call that returned before the concurrent phase never runs the body', len(r['execs']) == 0)
                        add('C14', 'a value stored by one thread is served to every other thread, also while other calls are in flight', len(r['execs']) == 0)
        # a call that starts after a call of the same thread with the same arguments has stored and returned is served from the cache
        if not (it['result'] or it['invalidate_on'] or it['cache_if'] or it['ttl'] or it['max_memory'] or random_limit):
            seen = []
            for r in rs:
                if r['op'] != 'call': continue
                if any(a is r['args'] for a in seen):
                    add('C03', 'once a call that stored the result has returned, a later call with the same arguments never runs the body again', len(r['execs']) == 0)
                seen.append(r['args'])
    # consistency at quiescence
    def tracked(keys, queue):
        return b_and(*[b_or(*[simp(str_eq(k, q)) for q in queue]) if queue else False for k in keys]) if keys else True
    add('C18', 'at quiescence every stored key is tracked by the eviction queue (it can still be evicted)', tracked(snap['keys'], snap['queue']))
    if any(op[0] in ('inv_with', 'inv_all_with') for p_ in item['progs'] for op in p_):
        # C13: "after any invalidation, limits, eviction order and memory totals behave as if the removed entries had never been stored" -
        # also when the invalidation overlapped a store: what stays stored stays tracked and within the limit
        add('C13', 'after a conditional invalidation that overlapped a store every stored key is still tracked by the eviction queue', tracked(snap['keys'], snap['queue']))
        if 'keys2' in snap:
            add('C13', 'after a conditional invalidation that overlapped a store, the next sequential store leaves every stored key tracked by the queue', tracked(snap['keys2'], snap['queue2']))
            if cfg and cfg['limit'] is not None:
                add('C13', 'after a conditional invalidation that overlapped a store, the next sequential store leaves at most `limit` entries', len(snap['keys2']) <= simp(cfg['limit']))
    if cfg and cfg['limit'] is not None:
        add('C18', 'at quiescence the cache holds at most `limit` entries', len(snap['keys']) <= simp(cfg['limit']))
        if 'keys2' in snap:
            add('C18', 'after a sequential store following the concurrent phase the cache still holds at most `limit` entries', len(snap['keys2']) <= simp(cfg['limit']))
    if 'keys2' in snap:
        add('C18', 'after a sequential store following the concurrent phase every stored key is tracked by the queue', tracked(snap['keys2'], snap['queue2']))
    # stored values are values of the function
    if not it['result'] and not it['invalidate_on'] and snap['keys']:
        pass
    if d.get('stats0') is not None and d.get('stats1') is not None and not any(op[0] == 'stats_reset' for p in item['progs'] for op in p):
        h0, m0 = d['stats0']; h1, m1 = d['stats1']
        add('C15', 'hits + misses grows by exactly the number of lookups performed, on every interleaving', simp((h1 + m1) - (h0 + m0) == d['nlookups']))
        if d.get('nfound') is not None:
            add('C15', 'a lookup is counted as a hit exactly when it found an unexpired entry, on every interleaving', simp(b_and(h1 - h0 == d['nfound'], m1 - m0 == d['nlookups'] - d['nfound'])))
    if d['probe']:
        pr = d['probe'][0]
        add('C18', 'sequential use after the concurrent phase computes a fresh key exactly once', pr['execs'] == 1)


def conc_witness(ctx, model, item, d):
    def ev(t):
        if is_conc(t): return int(t)
        v = model.eval(t, model_completion=True)
        if z3.is_int_value(v): return v.as_long()
        if z3.is_true(v): return True
        if z3.is_false(v): return False
        return str(v)
    ttl = d['subj'].rec['intended']['ttl']; sleep_ms = 0
    if ttl:
        A = d['subj'].rec['flavour'] == 'A'
        clk = ctx.sys_vars if A else ctx.now_vars
        if len(clk) >= 2:
            span = ev(clk[-1]) - ev(clk[0])
            if isinstance(span, int) and span >= (ttl if A else ttl * 1000000000): sleep_ms = min(ttl, 5) * 1000 + 150
    return dict(execs_conc=sum(len(r['execs']) for rs in d['rs'] for r in rs if r['op'] == 'call'), sleep_ms=sleep_ms, subject=item['subject'], progs=item['progs'], nfill=item.get('nfill', 0), fills=[[ev(x) for x in t] for t in d['fills']], fresh=[[ev(x) for x in v] for k, v in d['fresh']],
                fresh_keys=[list(k) for k, v in d['fresh']], pred=[(cn, render_key(k, ev), ev(b)) for cn, k, b in d['env']['pred'].memo], sched=d['sched'],
                locks=[[str(x) for x in e] for e in d['locks']], keys=[render_key(k, ev) for k in d['snap']['keys']], queue=[render_key(k, ev) for k in d['snap']['queue']],
                keys2=[render_key(k, ev) for k in d['snap'].get('keys2', [])], nlookups=d.get('nlookups'), nfound=d.get('nfound'), stats_delta=(ev((d['stats1'][0] + d['stats1'][1]) - (d['stats0'][0] + d['stats0'][1])) if d.get('stats0') is not None and d.get('stats1') is not None else None), probe=[ev(x) for x in d['probe'][0]['args']] if d['probe'] else None)


def replay(f, w):
    from . import replay_conc
    return replay_conc.replay(f, w)
