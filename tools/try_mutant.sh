#!/bin/sh
# try_mutant.sh <patch.diff> <property ids...>: apply a seeded change to /repo, run the given checks (quick), undo it.
P=$1; shift
cd /repo && git apply "$P" || exit 2
cd /verif
for c in "$@"; do ./check "$c" --tier quick > /tmp/try_$c.log 2>&1; rc=$?; tail -6 /tmp/try_$c.log; echo "-- exit $rc ($c)"; done
git -C /repo checkout -- . 
git -C /repo status --short | head -3
