#!/bin/sh
# try_benign.sh <patch.diff> [property ids...]: apply a behaviour-preserving change to /repo, run the checks (quick; default all 20), undo it.
# Every check must exit 0: anything else is a false alarm (exit 1) or a robustness gap (exit 2) of the machinery.
P=$1; shift
[ $# -eq 0 ] && set -- C01 C02 C03 C04 C05 C06 C07 C08 C09 C10 C11 C12 C13 C14 C15 C16 C17 C18 C19 C20
cd /repo && git apply "$P" || exit 2
cd /verif
for c in "$@"; do ./check "$c" --tier quick > /tmp/ben_$c.log 2>&1; rc=$?; [ $rc -ne 0 ] && { echo "-- $c exit $rc"; grep -m3 "^VIOLATION\|^INCONCLUSIVE\|^UNCONFIRMED\|^  " /tmp/ben_$c.log | cut -c1-300; } ; done
echo "-- done $(basename $P)"
git -C /repo checkout -- .
git -C /repo status --short | head -3
