import sys, time, z3
from mirsym2 import *
P = Program()
P.load('/tmp/mirprobe/core_full.mir', '/tmp/mirprobe/core_fv.mir', 'core')
P.load('/tmp/subj/subj_f.mir', '/tmp/subj/subj_fv.mir', 'subj')
I = Interp(P)
print('fns', len(P.fns), 'statics', len(P.statics), 'consts', len(P.consts), 'closure-typed locals', len(P.clo_of_local))

def seq_calls(ctx, fn, keys):
    res = []
    for k in keys:
        r = run_single(ctx, I.call_fn(ctx, P.fns[fn], [k])); res.append(r)
    return res

def scenario_seq(ctx):
    I.reset()
    k = [z3.BitVec(f'k{i}', 32) for i in range(3)]
    ctx.add(z3.Distinct(k))
    r = seq_calls(ctx, 'g_lru2', [k[0], k[1], k[0], k[2], k[1]])
    execs = [e for e in ctx.events if e[0] == 'exec']
    return r, len(execs)

t = time.time()
out, nchecks, tsolve = explore(scenario_seq)
for status, res, ctx in out:
    print(status, (res if status != 'ok' else ('execs=%d' % res[1])), 'choices', ctx.trace)
print('seq scenario: paths', len(out), 'checks', nchecks, 'wall %.2fs' % (time.time() - t))

def scenario_conc(ctx):
    I.reset()
    k = [z3.BitVec(f'k{i}', 32) for i in range(3)]
    ctx.add(z3.Distinct(k))
    seq_calls(ctx, 'g_lru2', [k[0], k[1]])          # fill the cache (limit 2)
    pred = EnvPred('p')
    inv = P.resolve('cachelito::invalidate_with')
    assert inv is not None
    progs = [lambda c: I.call_fn(c, P.fns['g_lru2'], [k[2]]),
             lambda c: I.call_fn(c, inv, [Str('g_lru2'), pred])]
    return run_threads(ctx, I, progs, preempt_bound=2)

t = time.time()
out, nchecks, tsolve = explore(scenario_conc)
from collections import Counter
print('conc scenario: paths', len(out), Counter(s for s, _, _ in out), 'checks', nchecks, 'wall %.2fs' % (time.time() - t))
for status, res, ctx in out:
    if status == 'deadlock':
        print('DEADLOCK', res); print('  schedule', ctx.sched_trace); print('  lock events', [e for e in ctx.events if e[0] in ('lock', 'unlock')][-8:]); break
for status, res, ctx in out:
    if status not in ('ok', 'deadlock'): print(status, res); break
