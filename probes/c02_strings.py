import subprocess, time, sys
INT = '(re.++ (re.opt (str.to_re "-")) (re.+ (re.range "0" "9")))'
# Debug string: quote, then (any char except quote/backslash | backslash followed by any char)*, quote
DSTR = '(re.++ (str.to_re "\\u{22}") (re.* (re.union (re.diff re.allchar (re.union (str.to_re "\\u{22}") (str.to_re "\\u{5c}"))) (re.++ (str.to_re "\\u{5c}") re.allchar))) (str.to_re "\\u{22}"))'
ANY = 're.all'
def q(L1, L2, sep, maxlen):
    return f"""
(set-logic ALL)
(declare-const x1 String)(declare-const y1 String)(declare-const x2 String)(declare-const y2 String)
(assert (str.in_re x1 {L1}))(assert (str.in_re x2 {L1}))
(assert (str.in_re y1 {L2}))(assert (str.in_re y2 {L2}))
(assert (<= (str.len x1) {maxlen}))(assert (<= (str.len x2) {maxlen}))(assert (<= (str.len y1) {maxlen}))(assert (<= (str.len y2) {maxlen}))
(assert (= (str.++ x1 "{sep}" y1) (str.++ x2 "{sep}" y2)))
(assert (or (not (= x1 x2)) (not (= y1 y2))))
(check-sat)
(get-value (x1 y1 x2 y2))
"""
for name,(L1,L2,sep) in {"int|int":(INT,INT,"|"),"int int nosep":(INT,INT,""),"dstr|dstr":(DSTR,DSTR,"|"),"display|display":(ANY,ANY,"|"),"dstr nosep":(DSTR,DSTR,""),"int|dstr":(INT,DSTR,"|")}.items():
    for solver in (["cvc5","--lang","smt2","--strings-exp","--produce-models"],["z3","-in"]):
        t=time.time()
        try:
            r=subprocess.run(solver,input=q(L1,L2,sep,8),capture_output=True,text=True,timeout=60)
            out=r.stdout.strip().replace("\n"," ")[:160]
        except subprocess.TimeoutExpired:
            out="TIMEOUT"
        print(f"{name:18s} {solver[0]:5s} {time.time()-t:6.2f}s {out}")
