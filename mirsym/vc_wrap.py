"""Wrapper-level verification conditions: the real `#[cache]` / `#[cache_async]` expansions of the subjects corpus.

WCALL(subject, n, thread pattern): the subject's own statics are brought into a state with n stored argument tuples by
running the real wrapper n times (registration closures, registries, key building all interpreted), then ONE call with
symbolic arguments (which may coincide with a stored tuple), a symbolic thread, and a symbolic environment (the body's
Result outcome, the cache_if verdict, the invalidate_on verdict are solver variables) is executed and the composition
key -> get -> [invalidate_on] -> body -> [cache_if] -> insert* -> return is checked against the attribute list."""
import time, json, re, os
import z3
from .engine import (Interp, Ctx, Agg, Cell, Ref, Str, MapM, SeqM, LockM, LazyM, OnceM, RefCellM, TlsKey, Coroutine, explore, run_single,
                     Unsupported, Panic, Deadlock, Infeasible, is_conc, is_z3, simp, b_and, b_or, b_not, deref_all, load, term_eq, str_eq, strip_generics)
from .models import struct_fields, POLICIES
from . import wrap

CACHE_METHODS = ('get', 'insert', 'insert_with_memory', 'insert_result', 'insert_result_with_memory')
U32 = 2 ** 32


def install_cache_hook(I, ctx, log):
    """log every call of a cache method made by the wrapper: (method, cache object, key Str, value, result)"""
    orig = I.call_fn
    targets = {}
    for ty in ('GlobalCache', 'ThreadLocalCache', 'AsyncGlobalCache'):
        for m in CACHE_METHODS:
            for f in I.p.methods.get((ty, m), []): targets[f.name] = (ty, m)
    depth = {}
    def hooked(ctx_, f, a):
        tm = targets.get(f.name); me = ctx_.tid
        if tm is None or depth.get(me, 0) > 0 or me in getattr(ctx_, 'nolog', ()):
            r = yield from orig(ctx_, f, a); return r
        depth[me] = depth.get(me, 0) + 1
        try:
            r = yield from orig(ctx_, f, a)
        finally:
            depth[me] -= 1
        log.append(dict(ty=tm[0], method=tm[1], cache=deref_all(a[0]), key=deref_all(a[1]), value=(deref_all(a[2]) if len(a) > 2 else None), ret=r, tid=ctx_.tid))
        return r
    I.call_fn = hooked
    return orig


def cache_parts(P, cacheobj, ty, tid):
    """(store MapM, queue SeqM, config dict) reachable from a cache object"""
    names = struct_fields(P, ty)
    f = dict(zip(names, cacheobj.fields))
    def unlazy(x):
        x = deref_all(x)
        if isinstance(x, LazyM): x = x.inner.v
        if isinstance(x, TlsKey): x = x.per_thread[tid].v if tid in x.per_thread else None
        if isinstance(x, (LockM, RefCellM)): x = x.inner.v
        return x
    store = unlazy(f.get('map') if 'map' in f else f.get('cache')); queue = unlazy(f['order'])
    from .engine import MapM as _MapM, SeqM as _SeqM
    if not isinstance(store, _MapM): store = None            # a storage static that has never been touched
    if not isinstance(queue, _SeqM): queue = None
    def optval(o):
        o = deref_all(o)
        return None if o.variant == 0 else o.fields[0]
    cfg = dict(limit=optval(f['limit']), max_memory=optval(f['max_memory']), ttl=optval(f['ttl']), frequency_weight=optval(f['frequency_weight']),
               policy=POLICIES[f['policy'].variant] if isinstance(f['policy'].variant, int) else str(f['policy'].variant))
    return store, queue, cfg


def cache_stats(P, cacheobj, ty):
    """(hits term, misses term) of the statistics object a cache object points to"""
    from .engine import LazyM
    names = struct_fields(P, ty); f = dict(zip(names, cacheobj.fields))
    x = deref_all(f['stats'])
    if isinstance(x, LazyM): x = x.inner.v
    sf = struct_fields(P, 'CacheStats')
    return x.fields[sf.index('hits')].fields[0], x.fields[sf.index('misses')].fields[0]


def arg_tuple(ctx, name, arity):
    xs = [z3.Int(f'{name}_{j}') for j in range(arity)]
    for x in xs: ctx.add(z3.And(x >= 0, x < U32))
    return xs


def subject_args(ctx, rec, nm):
    """(arguments to pass to the subject, flat list of the symbolic integers that identify the tuple incl. the receiver)"""
    xs = arg_tuple(ctx, nm, len(rec['args']))
    if rec['recv']:
        rid = z3.Int(nm + '_recv'); ctx.add(z3.And(rid >= 0, rid < 1000))
        return [Ref(Cell(Agg('Svc', 0, [rid]), 'self'))] + xs, [rid] + xs
    return xs, xs


def tuple_eq(a, b): return b_and(*[simp(x == y) for x, y in zip(a, b)]) if a else True


def render_key(term, ev):
    """concrete key string of a key term under a model-evaluation function (the text the real code builds: template literals,
    separators, Debug quoting of strings, std's renderings of the aggregate shapes the corpus uses)"""
    from .vc_keys import decode_template
    def val(v, kind):
        v = deref_all(v) if not isinstance(v, (Str, Agg)) else v
        if isinstance(v, Str):
            inner = render_key(v, ev); return '"' + inner + '"' if kind == 'debug' else inner
        if isinstance(v, Agg) and v.ty == 'Svc': return 'Svc { id: %d }' % ev(v.fields[0])
        if isinstance(v, Agg) and v.ty == 'tuple': return '(' + ', '.join(val(x, 'debug') for x in v.fields) + (',)' if len(v.fields) == 1 else ')')
        if isinstance(v, Agg) and v.ty == 'Option': return 'None' if v.variant == 0 else 'Some(' + val(v.fields[0], 'debug') + ')'
        if isinstance(v, bool): return 'true' if v else 'false'
        return str(ev(v))
    def fill(tmpl, args):
        try: pieces = decode_template(tmpl[1] if isinstance(tmpl, tuple) else tmpl)
        except Exception: pieces = [('arg',)] * len(args)
        out = ''; i = 0
        for p in pieces:
            if p[0] == 'lit': out += p[1]
            elif i < len(args): out += val(args[i][1], args[i][0]); i += 1
        return out
    t = term.t
    if isinstance(t, str): return t
    if isinstance(t, tuple) and t[0] == 'join': return t[1].join(render_key(x, ev) for x in t[2])
    if isinstance(t, tuple) and t[0] == 'concat': return ''.join(render_key(x, ev) for x in t[1])
    if isinstance(t, tuple) and t[0] == 'fmt': return fill(t[2], [(t[1], t[3])])
    if isinstance(t, tuple) and t[0] == 'fmtn': return fill(t[1], [(k, v) for k, v, ty in t[2]])
    return '?'


def expected_variant(rec):
    it = rec['intended']
    if rec['flavour'] == 'A': return 'insert_with_memory' if it['max_memory'] is not None else 'insert'
    base = 'insert_result' if it['result'] else 'insert'
    return base + ('_with_memory' if it['max_memory'] is not None else '')


def run(P, item):
    name = item['subject']; n = item['n']; props = set(item['props']); pattern = item.get('pattern', 'same')
    subj = wrap.Subject(P, name); rec = subj.rec; it = rec['intended']
    arity = len(rec['args']); has_recv = bool(rec['recv'])
    fl = rec['flavour']; ty = {'G': 'GlobalCache', 'T': 'ThreadLocalCache', 'A': 'AsyncGlobalCache'}[fl]
    t0 = time.time()
    res = dict(paths=0, claims=0, failed=[], classes=set(), funcs=set(), builtins=set())
    impure = bool(it['invalidate_on']) and not it['result']

    def run_path(ctx):
        I = Interp(P); E = wrap.Env(I)
        log = []
        install_cache_hook(I, ctx, log)
        if impure: E.mode[rec['id']] = 'fresh'
        def mkargs(nm):
            xs = arg_tuple(ctx, nm, arity)
            if has_recv:
                rid = z3.Int(nm + '_recv'); ctx.add(z3.And(rid >= 0, rid < 1000))
                return [Ref(Cell(Agg('Svc', 0, [rid]), 'self'))] + xs, [rid] + xs
            return xs, xs
        setup = [mkargs(f's{i}') for i in range(n)]
        if n > 1:
            for i in range(n):
                for j in range(i):
                    if setup[i][1]: ctx.add(b_not(tuple_eq(setup[i][1], setup[j][1])))
                    else: raise Infeasible()
        # ---- setup calls: everything is stored (forced environment), on thread 0
        forced = {'on': True}; E.strcap_max = 64
        orig_pred, orig_stale, orig_res = I.env['pred'], I.env['stale'], I.env['body_res']
        def f_pred(c, A):
            if forced['on']:
                c.events.append(('pred', c.tid, A[0], deref_all(A[1]), deref_all(A[2]), True)); return True
            return orig_pred(c, A)
        def f_stale(c, A):
            if forced['on']:
                c.events.append(('stale', c.tid, A[0], deref_all(A[1]), deref_all(A[2]), False)); return False
            return orig_stale(c, A)
        def f_res(c, A):
            if forced['on']:
                v = c.fresh_int(f'resval{A[0]}', 0, 2 ** 63); r = Agg('Result', 0, [v]); c.events.append(('exec', c.tid, A[0], tuple(E._args(A)), r)); return r
            return orig_res(c, A)
        I.env['pred'] = I.env['pred_res'] = f_pred; I.env['stale'] = f_stale; I.env['body_res'] = f_res
        stored_vals = []
        for (cargs, flat) in setup:
            r = wrap.call_subject(I, ctx, subj, cargs, 0); stored_vals.append(r)
        forced['on'] = False; E.strcap_max = 2 ** 36
        pre_log = list(log); del log[:]
        # thread 0's storage before the call under test (for the isolation claims of thread-scoped subjects)
        t0_pre = None
        g_pre = [c for c in pre_log if c['method'] == 'get']
        if g_pre:
            st0, q0, _c = cache_parts(P, g_pre[-1]['cache'], g_pre[-1]['ty'], 0)
            if st0 is not None and q0 is not None: t0_pre = ([k for k, v in st0.items], [v for k, v in st0.items], list(q0.items), st0, q0)
        nev = len(ctx.events)
        # ---- the call under test
        tid = 1 if pattern == 'other-thread' else 0
        cargs, flat = mkargs('x')
        r = wrap.call_subject(I, ctx, subj, cargs, tid)
        ev = ctx.events[nev:]
        keys_after = None
        g0 = [c for c in log if c['method'] == 'get']
        if g0:
            st_, q_, c_ = cache_parts(P, g0[0]['cache'], g0[0]['ty'], tid)
            keys_after = [k for k, v in st_.items] if st_ is not None else None
        # ---- an optional second call with the same arguments on the same thread (observability / refresh)
        r2 = None; ev2 = None; log2 = None
        if item.get('second'):
            nev2 = len(ctx.events); l1 = list(log); del log[:]
            r2 = wrap.call_subject(I, ctx, subj, cargs, tid); ev2 = ctx.events[nev2:]; log2 = list(log); log[:] = l1
        return dict(I=I, setup=setup, stored_vals=stored_vals, flat=flat, r=r, ev=ev, log=list(log), pre_log=pre_log, tid=tid, r2=r2, ev2=ev2, log2=log2, keys_after=keys_after, t0_pre=t0_pre)

    outs, st = explore(run_path, seed=item.get('seed', 0), timeout_ms=20000 if item.get('tier') != 'thorough' else 120000)
    for o in outs:
        ctx = o.ctx; res['paths'] += 1; res['funcs'] |= ctx.funcs_used; res['builtins'] |= ctx.builtins_used
        if o.status in ('panic', 'deadlock'):
            res['classes'].add(o.status)
            if 'C16' in props or 'C17' in props or True:
                res['failed'].append(dict(prop='C16' if o.status == 'panic' else 'C17', clause='no panic' if o.status == 'panic' else 'no self-deadlock', kind='wrap', msg=str(o.res), cfg=f"{fl}/{it['policy']}/{name}", op='call', witness=None))
            continue
        d = o.res
        claims = []
        oracle_call(P, ctx, subj, d, claims, res['classes'], n, pattern)
        for cond, prop, clause, f in claims:
            if prop not in props: continue
            res['claims'] += 1
            ff = f
            if cond is not True: ff = z3.Implies(cond, f) if f is not False else z3.Not(cond)
            okk, model = ctx.prove(ff)
            if not okk:
                res['failed'].append(dict(prop=prop, clause=clause, kind='wrap', cfg=f"{fl}/{it['policy']}/{name}", op='call/' + pattern + (f'/n{n}'),
                                          witness=wrap_witness(ctx, model, subj, d, n, pattern, bool(item.get('second')))))
    return dict(paths=res['paths'], claims=res['claims'], failed=res['failed'], classes=sorted(res['classes']), funcs=sorted(res['funcs']), builtins=sorted(res['builtins']),
                checks=st['checks'], solver_s=st['solver_s'], blocks=st['blocks'], infeasible=st['infeasible'], tag=f"WCALL {name} n={n} {pattern}{' +second' if item.get('second') else ''}")


def oracle_call(P, ctx, subj, d, claims, classes, n, pattern):
    rec = subj.rec; it = rec['intended']; fl = rec['flavour']; sid = rec['id']
    ty = {'G': 'GlobalCache', 'T': 'ThreadLocalCache', 'A': 'AsyncGlobalCache'}[fl]
    log = d['log']; ev = d['ev']; flat = d['flat']; r = d['r']; tid = d['tid']
    execs = [e for e in ev if e[0] == 'exec']; preds = [e for e in ev if e[0] == 'pred']; stales = [e for e in ev if e[0] == 'stale']
    def add(prop, clause, f, cond=True): claims.append((cond, prop, clause, f))
    gets = [c for c in log if c['method'] == 'get']; ins = [c for c in log if c['method'] != 'get']
    # ---- C19: the cache flavour and constants are the ones written in the attribute list
    add('C19', 'the wrapper consults its cache exactly once per call, first of all', len(gets) == 1 and log and log[0]['method'] == 'get')
    add('C14', 'scope attribute selects the storage (thread-local vs global/async engine)', all(c['ty'] == ty for c in log))
    add('C19', 'scope attribute selects the cache engine', all(c['ty'] == ty for c in log))
    if gets:
        store, queue, cfg = cache_parts(P, gets[0]['cache'], gets[0]['ty'], tid)
        want = dict(limit=it['limit'], max_memory=it['max_memory'], ttl=it['ttl'], policy=it['policy'])
        got = dict(limit=simp(cfg['limit']) if cfg['limit'] is not None else None, max_memory=simp(cfg['max_memory']) if cfg['max_memory'] is not None else None,
                   ttl=simp(cfg['ttl']) if cfg['ttl'] is not None else None, policy=cfg['policy'])
        add('C19', f'limit / max_memory / ttl / policy constants passed to the cache constructor are the attribute values (want {want})', got == want)
        fw = cfg['frequency_weight']
        if it['frequency_weight'] is None: add('C19', 'frequency_weight absent', fw is None)
        else:
            def asfloat(t):
                t = simp(t)
                return float(t.numerator_as_long()) / float(t.denominator_as_long()) if is_z3(t) and z3.is_rational_value(t) else None
            add('C19', 'frequency_weight constant is the attribute value', fw is not None and asfloat(fw) == float(it['frequency_weight']))
    else:
        store = queue = None
    key = gets[0]['key'] if gets else None
    g = gets[0]['ret'] if gets else None
    hit = (g is not None and g.variant == 1)
    classes.add(f"wcall/{'hit' if hit else 'miss'}/{'stale' if stales else ''}{'pred' if preds else ''}/{len(execs)}exec/{len(ins)}ins")
    # which stored tuple (if any) the call's arguments equal: decided by the solver per case
    cases = [(i, tuple_eq(flat, s[1])) for i, s in enumerate(d['setup'])]
    cases.append((None, b_and(*[b_not(tuple_eq(flat, s[1])) for s in d['setup']]) if d['setup'] else True))
    same_thread = (tid == 0) or fl != 'T'
    for case, cond in cases:
        if not ctx.feasible(cond): continue
        # (only when the stored entries cannot have been displaced: every setup entry plus the newcomer fits the limit / the budget of 8-byte values)
        roomy = (it['limit'] is None or it['limit'] >= n) and (it['max_memory'] is None or (rec['ret'] == 'u64' and it['max_memory'] >= 8 * (n + 1)) or it['max_memory'] >= 1024)
        if case is not None and same_thread and it['ttl'] is None and roomy:
            add('C03', 'arguments that were stored before are found (the lookup key is a function of the arguments only)', hit, cond)
            add('C14' if tid != 0 else 'C03', 'a value stored by one thread is served to every thread (global / async)' if tid != 0 else 'a stored result is found again', hit, cond)
        if case is not None and not same_thread:
            add('C14', 'a value stored by one thread is never served to another thread (thread scope)', not hit, cond)
        if case is None:
            add('C01', 'a lookup with arguments never stored finds nothing (distinct arguments, distinct keys)', not hit, cond)
            add('C19', 'every argument and the receiver take part in the key: arguments never stored are not found', not hit, cond)
            add('C02', 'every argument and the receiver take part in the key: arguments never stored are not found', not hit, cond)
        if case is not None and hit:
            add('C01', 'a hit serves the value stored for the same arguments', simp(term_eq(g.fields[0], d['stored_vals'][case])), cond)
    if fl == 'T' and tid != 0 and d.get('t0_pre') is not None:
        ks0, vs0, qs0, st0, q0 = d['t0_pre']
        ks1 = [k for k, v in st0.items]; qs1 = list(q0.items)
        add('C14', 'a call on another thread neither evicts nor adds entries of this thread (per-thread limit and storage)',
            len(ks0) == len(ks1) and len(qs0) == len(qs1) and simp(b_and(*[str_eq(a, b) for a, b in zip(ks0, ks1)])) is True and simp(b_and(*[str_eq(a, b) for a, b in zip(qs0, qs1)])) is True)
    # ---- the composition after the lookup
    served_from_cache = False
    if hit:
        if it['invalidate_on']:
            add('C11', 'the invalidate_on check is consulted exactly once per hit, with the key and the cached value',
                len(stales) == 1 and simp(b_and(str_eq(stales[0][3], key), term_eq(stales[0][4], g.fields[0]))))
            if stales:
                sv = stales[0][5]
                served_from_cache = 'maybe'
                # not stale: served without running the body
                add('C11', 'an entry the check accepts is served without running the body', z3.Implies(b_not(sv), b_and(len(execs) == 0, simp(term_eq(r, g.fields[0])), len(ins) == 0)) if is_z3(sv) else ((len(execs) == 0 and len(ins) == 0) if not sv else True))
                add('C11', 'a stale entry is never returned: the body runs again', z3.Implies(sv, len(execs) == 1) if is_z3(sv) else (len(execs) == 1 if sv else True))
                if execs:
                    add('C11', 'the fresh result replaces the stale entry (store called with the new value)',
                        len(ins) == 1 and simp(b_and(str_eq(ins[0]['key'], key), term_eq(deref_all(ins[0]['value']), execs[0][4]))) if not it['cache_if'] else True)
                    add('C11', 'after a refresh the call returns the fresh result', simp(term_eq(r, execs[0][4])))
        else:
            add('C11', 'no invalidate_on configured: no check is consulted', len(stales) == 0)
            add('C03', 'a hit is served without running the body', len(execs) == 0)
            add('C01', 'a hit returns the cached value', simp(term_eq(r, g.fields[0])))
            add('C19', 'a hit stores nothing', len(ins) == 0)
            add('C10', 'the cache_if predicate is not consulted on a hit', len(preds) == 0)
    else:
        add('C03', 'a miss runs the body exactly once', len(execs) == 1)
        add('C11', 'the invalidate_on check is only consulted on hits', len(stales) == 0)
        if execs: add('C01', 'a miss returns what the body returned', simp(term_eq(r, execs[0][4])))
    if execs and not (hit and it['invalidate_on'] and False):
        res_v = execs[0][4]
        is_res = it['result']
        okv = (res_v.variant == 0) if (is_res and isinstance(res_v, Agg)) else True
        want_variant = expected_variant(rec)
        if it['cache_if']:
            add('C10', 'the predicate is consulted exactly once per execution of the body, with the key and the result',
                len(preds) == 1 and simp(b_and(str_eq(preds[0][3], key), term_eq(preds[0][4], res_v))))
            if preds:
                pv = preds[0][5]
                must_store = pv if (fl == 'A' or not is_res) else (b_and(pv, okv))
                stored_call = len(ins) == 1 and simp(b_and(str_eq(ins[0]['key'], key), term_eq(_insval(ins[0], res_v, fl, is_res), res_v if not (is_res and fl != 'A') else res_v)))
                # effective store: for sync Result functions insert_result* drops Err itself
                eff = stored_call if not (is_res and fl != 'A') else (stored_call and okv)
                add('C10', 'a result the predicate rejects is not stored', z3.Implies(b_not(pv), len(ins) == 0) if is_z3(pv) else (len(ins) == 0 if not pv else True))
                add('C10', 'a result the predicate accepts is stored (sync Result: if it is Ok)', z3.Implies(must_store, stored_call) if is_z3(must_store) else (stored_call if must_store else True))
        else:
            add('C10', 'no cache_if configured: no predicate is consulted', len(preds) == 0)
            if is_res:
                if fl == 'A':
                    add('C09', 'an Err result is not stored (async: store guarded by is_ok)', (len(ins) == 0) if not okv else True)
                    add('C09', 'an Ok result is stored', (len(ins) == 1 and simp(b_and(str_eq(ins[0]['key'], key), term_eq(deref_all(ins[0]['value']), res_v)))) if okv else True)
                else:
                    # either the Result-aware store (which keeps only Ok; decided by the insert_result VCs of this property) or a plain store guarded by is_ok
                    via_res = len(ins) == 1 and ins[0]['method'].startswith('insert_result')
                    right = len(ins) == 1 and simp(b_and(str_eq(ins[0]['key'], key), term_eq(deref_all(ins[0]['value']), res_v if via_res or not isinstance(res_v, Agg) else res_v.fields[0])))
                    add('C09', 'Result functions store through insert_result* (which keeps only Ok)', right if (via_res or okv) else len(ins) == 0)
            else:
                add('C03', 'the result of an executed body is stored under the call\'s key', len(ins) == 1 and simp(b_and(str_eq(ins[0]['key'], key), term_eq(deref_all(ins[0]['value']), res_v))))
        if ins:
            add('C19', f'the store goes through {want_variant} (memory-aware iff max_memory, Result-aware iff Result)', ins[0]['method'] == want_variant)
            add('C05', 'with max_memory the memory-aware store is used', ins[0]['method'].endswith('with_memory') == (it['max_memory'] is not None))
    # ---- store-level effect (what the next lookup will see)
    if d.get('keys_after') is not None and key is not None:
        keys_after = d['keys_after']
        present = b_or(*[simp(str_eq(k, key)) for k in keys_after]) if keys_after else False
        if execs:
            res_v = execs[0][4]
            if it['result'] and not it['cache_if']:
                okv = res_v.variant == 0
                if not okv: add('C09', 'after an Err outcome the key is not cached (the next call runs the body again)', b_not(present) if not hit else True)
                else: add('C09', 'after an Ok outcome the key is cached', present)
            if it['cache_if'] and preds and not it['result'] and not hit:
                pv = preds[0][5]
                add('C10', 'stored iff the predicate accepted', simp(present == pv) if is_z3(pv) else (simp(present) == pv))
    # ---- second call with the same arguments (optional)
    if d.get('ev2') is not None:
        ex2 = [e for e in d['ev2'] if e[0] == 'exec']; st2 = [e for e in d['ev2'] if e[0] == 'stale']
        g2 = [c for c in d['log2'] if c['method'] == 'get']
        hit2 = bool(g2) and g2[0]['ret'].variant == 1
        if it['invalidate_on'] and execs and not it['cache_if'] and it['ttl'] is None:
            add('C11', 'after a refresh the following call finds the fresh value (and is served from the cache if the check accepts it)',
                hit2 and simp(term_eq(g2[0]['ret'].fields[0], execs[0][4])))
        if it['result'] and not it['cache_if'] and execs and it['ttl'] is None:
            okv = execs[0][4].variant == 0
            if not okv and not hit: add('C09', 'a call that failed is executed again by the next call', len(ex2) == 1)
            if okv: add('C09', 'after the first Ok the next call is served without running the body', len(ex2) == 0 and hit2)
        if not it['result'] and not it['cache_if'] and not it['invalidate_on'] and it['ttl'] is None and it['max_memory'] is None and not (it['limit'] is not None and it['policy'] == 'Random'):
            add('C03', 'once stored, the same arguments are served without running the body', len(ex2) == 0)
            add('C01', 'the second call returns the same value', simp(term_eq(d['r2'], r)))


def _insval(c, res_v, fl, is_res):
    return deref_all(c['value'])


def wrap_witness(ctx, model, subj, d, n, pattern, second):
    def ev(t):
        if is_conc(t): return int(t)
        v = model.eval(t, model_completion=True)
        if z3.is_int_value(v): return v.as_long()
        if z3.is_true(v): return True
        if z3.is_false(v): return False
        return str(v)
    rec = subj.rec
    def outcome(e):
        if e[0] == 'exec':
            v = e[4]
            if isinstance(v, Agg) and v.ty == 'Result': return dict(kind='exec', ok=(v.variant == 0), val=ev(v.fields[0]))
            if isinstance(v, Str): return dict(kind='exec', val=None)
            return dict(kind='exec', val=ev(v))
        return dict(kind=e[0], verdict=ev(e[5]))
    def rv(x):
        if isinstance(x, Agg) and x.ty == 'Result': return ('Ok(%d)' if x.variant == 0 else 'Err(%d)') % ev(x.fields[0])
        if isinstance(x, Str): return '<string>'
        return str(ev(x))
    w = dict(subject=rec['name'], id=rec['id'], flavour=rec['flavour'], n=n, pattern=pattern, second=second, recv=bool(rec['recv']),
             setup=[[ev(x) for x in s[1]] for s in d['setup']], setup_rets=[rv(x) for x in d['stored_vals']], call=[ev(x) for x in d['flat']], tid=d['tid'],
             env=[outcome(e) for e in d['ev'] if e[0] in ('exec', 'pred', 'stale')], env2=[outcome(e) for e in (d.get('ev2') or []) if e[0] in ('exec', 'pred', 'stale')],
             predicted=dict(ret=rv(d['r']), execs=len([e for e in d['ev'] if e[0] == 'exec']), ret2=rv(d['r2']) if d.get('r2') is not None else None,
                            execs2=len([e for e in (d.get('ev2') or []) if e[0] == 'exec']) if d.get('ev2') is not None else None),
             impure=bool(rec['intended']['invalidate_on']) and not rec['intended']['result'])
    return w


# ------------------------------------------------------------------ native replay
M64 = 2 ** 64 - 1


def f_default(sid, a): return ((sid << 40) & M64) ^ ((a * 0x9E3779B97F4A7C15) & M64)
def rotl(x, k): return ((x << k) | (x >> (64 - k))) & M64


def native_body(rec, args):
    sid = rec['id']; a = args
    if rec['recv']: return f_default(sid, (a[0] ^ rotl(a[1] if len(a) > 1 else 0, 17)) & M64)
    if len(a) == 0: return f_default(sid, 0)
    if len(a) == 1: return f_default(sid, a[0])
    if len(a) == 2: return f_default(sid, a[0] ^ rotl(a[1], 17))
    return f_default(sid, a[0] ^ rotl(a[1], 17) ^ rotl(a[2], 34))


def replay(f, w):
    """run the witness history natively; the violated claim is confirmed if the native observations deviate from what the
    attribute list prescribes (expected behaviour computed here from the intended configuration, not from the model)"""
    from . import replay as R
    if w is None: return False, 'no witness', []
    rec = wrap.subjects()[w['subject']]; it = rec['intended']; sid = rec['id']
    L = ['scenario subj']
    # environment script: setup calls store everything; then the outcomes of the witness
    vals = []; oks = []; preds = []; stales = []
    for _ in w['setup']:
        if it['result']: oks.append(1)
        if it['cache_if']: preds.append(1)
    for e in w['env'] + w['env2']:
        if e['kind'] == 'exec':
            if it['result']: oks.append(1 if e.get('ok') else 0)
        elif e['kind'] == 'pred': preds.append(1 if e['verdict'] else 0)
        elif e['kind'] == 'stale': stales.append(1 if e['verdict'] else 0)
    if oks: L.append(f"script oks {sid} " + ' '.join(map(str, oks)))
    if preds: L.append(f"script preds {sid} " + ' '.join(map(str, preds)))
    if stales: L.append(f"script stales {sid} " + ' '.join(map(str, stales)))
    if w.get('impure'):
        # an impure body: every execution returns a different value
        L.append(f"script vals {sid} " + ' '.join(str(1000 + i) for i in range(len(w['setup']) + 4)))
    def callline(tid, a):
        recv = a[0] if w['recv'] else 0; rest = a[1:] if w['recv'] else a
        return f"call {tid} {w['subject']} {recv} " + ' '.join(map(str, rest))
    for a in w['setup']: L.append(callline(0, a))
    L.append(callline(w['tid'], w['call']))
    cname = it['cache_name']
    if rec['flavour'] != 'T': L.append('keys ' + cname)
    if w.get('second'): L.append(callline(w['tid'], w['call']))
    L += ['log', 'end']
    outs, err = R.run_scenarios('\n'.join(L) + '\n', timeout=90)
    if not outs: return False, 'no output from the replay binary: ' + err[-300:], []
    lines = outs[0]
    rets = [l[4:] for l in lines if l.startswith('ret ')]; ex = [int(l[6:]) for l in lines if l.startswith('execs ')]
    npred = len([l for l in lines if l.startswith('ev pred')]); nstale = len([l for l in lines if l.startswith('ev stale')])
    keyl = [l.split()[2:] for l in lines if l.startswith('keys ')]
    ns = len(w['setup'])
    if any('<panic' in r for r in rets): return (f['clause'] == 'no panic'), 'native panic: ' + str(rets), lines
    if len(rets) < ns + 1: return False, 'native run incomplete', lines
    ex_before = ex[ns - 1] if ns else 0
    d_exec = ex[ns] - ex_before
    d_exec2 = (ex[ns + 1] - ex[ns]) if w.get('second') and len(ex) > ns + 1 else None
    pred = w['predicted']
    cl = f.get('clause', '')
    detail = f"native: executions in the call under test = {d_exec} (interpreter predicted {pred['execs']})" + (f", second call {d_exec2} (predicted {pred['execs2']})" if d_exec2 is not None else '') + f"; predicate consultations {npred}, staleness checks {nstale}; returns {rets}"
    # ---- claims about the returned value: compared with what the body produces for these arguments (the environment is scripted)
    if any(x in cl for x in ('serves the value', 'returns the cached value', 'returns what the body returned', 'returns the same value', 'returns the fresh result')):
        okflags = [e.get('ok', True) for e in w['env'] if e['kind'] == 'exec']; okflags2 = [e.get('ok', True) for e in w['env2'] if e['kind'] == 'exec']
        def want(nexec, ex0, okf, prev):
            if w.get('impure'):
                if nexec: return str(1000 + ex0)
                if prev is not None: return prev
                same = [j for j, a in enumerate(w['setup']) if a == w['call']]
                return str(1000 + same[-1]) if same else None
            if rec['ret'] not in ('u64', 'Result<u64, u8>'): return None
            v = native_body(rec, w['call']); ok = okf[0] if (nexec and okf) else True
            if it['result']: return f'Ok({v})' if ok else f'Err({v & 255})'
            return str(v)
        exp1 = want(d_exec, ex_before, okflags, None)
        devs = []
        if exp1 is not None and rets[ns].strip() != exp1: devs.append(f'the call returned {rets[ns]}, the body produces {exp1} for these arguments')
        if d_exec2 is not None and 'same value' in cl:
            exp2 = want(d_exec2, ex[ns], okflags2, rets[ns].strip())
            if exp2 is not None and rets[ns + 1].strip() != exp2: devs.append(f'the second call returned {rets[ns + 1]}, expected {exp2}')
        if exp1 is None: return (d_exec == pred['execs']), 'return type not comparable natively; ' + detail, lines
        return (len(devs) > 0), ('; '.join(devs) + '; ' + detail) if devs else ('native returns are what the body produces; ' + detail), lines
    # ---- claims about what is stored: key listing after the call under test (global / async engines)
    kx = '|'.join(map(str, w['call'])) if False else None
    pres_want = None
    execs_env = [e for e in w['env'] if e['kind'] == 'exec']; preds_env = [e for e in w['env'] if e['kind'] == 'pred']
    okv = execs_env[0].get('ok', True) if execs_env else True
    if 'Err result is not stored' in cl or 'after an Err outcome' in cl or 'rejects is not stored' in cl: pres_want = False
    elif 'Ok result is stored' in cl or 'after an Ok outcome' in cl or 'is stored under the call' in cl: pres_want = True
    elif 'insert_result' in cl: pres_want = bool(okv)
    elif 'predicate accepts is stored' in cl or 'stored iff' in cl:
        pres_want = bool(preds_env and preds_env[0]['verdict']) and (bool(okv) if rec['flavour'] != 'A' else True)
    if pres_want is not None and keyl and ns + 1 <= len(ex):
        before = None
        # the key text is not reconstructed here: presence = the listing grew by one entry / a further call is a hit
        n_before = len(set(map(tuple, w['setup'])))
        n_after = len(keyl[0])
        fresh_args = w['call'] not in w['setup']
        if fresh_args and it['limit'] is None and it['max_memory'] is None and it['ttl'] is None:
            present = n_after == n_before + 1
            ok_dev = present != pres_want
            return ok_dev, (f"after the call the cache lists {n_after} keys ({n_before} before): the result was {'stored' if present else 'not stored'}, the attribute list prescribes {'stored' if pres_want else 'not stored'}; " + detail), lines
    # ---- everything else: the native run must take the interpreted path on which the claim fails (same executions / consultations)
    agrees = (d_exec == pred['execs'])
    if d_exec2 is not None and pred['execs2'] is not None: agrees = agrees and (d_exec2 == pred['execs2'])
    want_np = len([e for e in w['env'] + w['env2'] if e['kind'] == 'pred']) + (len(w['setup']) if it['cache_if'] else 0)
    want_nst = len([e for e in w['env'] + w['env2'] if e['kind'] == 'stale'])
    if 'consulted' in cl: agrees = agrees and npred == want_np and nstale == want_nst
    return agrees, ('native run follows the interpreted path on which the claim fails: ' if agrees else 'native run does NOT follow the interpreted path: ') + detail, lines
