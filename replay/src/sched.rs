//! Schedule controller: makes real threads follow the lock-acquisition order of a witness found by the symbolic
//! executor.  It is address-agnostic: each registered thread has a sequence of expected acquisitions (kind + how many
//! native acquisitions the model event stands for, e.g. DashMap::len() = one per shard); the global order of those
//! events is enforced by gating every acquisition in the vendored, instrumented `lock_api`.
use std::cell::Cell;
use std::sync::atomic::{AtomicBool, AtomicUsize, Ordering::SeqCst};
use std::sync::Mutex;
use std::time::{Duration, Instant};

#[derive(Clone, Copy, Debug)]
pub struct Ev {
    pub tid: usize,
    pub kind: u8, // 0 mutex, 1 read, 2 write
    pub mult: usize,
    /// the acquisition is only *issued* at this point of the witness and never completes (a blocked request of a deadlock
    /// configuration): the turn passes on at once, the next event waits until this request has had time to queue
    pub attempt: bool,
}
static ATTEMPT_AT: Mutex<Option<Instant>> = Mutex::new(None);
static SCHED: Mutex<Vec<Ev>> = Mutex::new(Vec::new());
static STEP: AtomicUsize = AtomicUsize::new(0);
pub static STUCK: AtomicBool = AtomicBool::new(false);
pub static MISMATCH: AtomicUsize = AtomicUsize::new(0);
thread_local! {
    static TID: Cell<usize> = Cell::new(usize::MAX);
    static SKIP: Cell<usize> = Cell::new(0);
    static PENDING: Cell<usize> = Cell::new(usize::MAX);   // global index of the event whose lock is being acquired
}

pub fn install(sched: Vec<Ev>) {
    *SCHED.lock().unwrap() = sched;
    STEP.store(0, SeqCst);
    *ATTEMPT_AT.lock().unwrap() = None;
    STUCK.store(false, SeqCst);
    MISMATCH.store(0, SeqCst);
    lock_api::verif_sched::install(hook);
}
pub fn uninstall() {
    lock_api::verif_sched::uninstall();
}
pub fn register(tid: usize) {
    TID.with(|t| t.set(tid));
    SKIP.with(|s| s.set(0));
    PENDING.with(|p| p.set(usize::MAX));
}
pub fn progress() -> (usize, usize) {
    (STEP.load(SeqCst), SCHED.lock().unwrap().len())
}

fn next_event_of(tid: usize, from: usize) -> Option<(usize, Ev)> {
    let s = SCHED.lock().unwrap();
    let mut i = from;
    while i < s.len() {
        if s[i].tid == tid {
            return Some((i, s[i]));
        }
        i += 1;
    }
    None
}

fn hook(_addr: usize, kind: u8) {
    let me = TID.with(|t| t.get());
    if me == usize::MAX {
        return;
    }
    if kind & 0x80 != 0 {
        // lock obtained: the event is complete, the next thread may go
        let p = PENDING.with(|p| p.replace(usize::MAX));
        if p != usize::MAX {
            STEP.store(p + 1, SeqCst);
        }
        return;
    }
    let skip = SKIP.with(|s| s.get());
    if skip > 0 {
        SKIP.with(|s| s.set(skip - 1));
        return;
    }
    // my next expected event: the first event of mine at or after STEP that has not been consumed
    let start = MYPOS.with(|m| m.get());
    let (gi, ev) = match next_event_of(me, start) {
        Some(x) => x,
        None => {
            // my part of the witness is done: hold further acquisitions back until every witness event has happened
            // (otherwise this thread could race ahead of the witness's final configuration), then run freely
            let total = SCHED.lock().unwrap().len();
            let t0 = Instant::now();
            while STEP.load(SeqCst) < total && t0.elapsed() < Duration::from_secs(4) {
                std::thread::sleep(Duration::from_micros(50));
            }
            return;
        }
    };
    if ev.kind != kind {
        MISMATCH.fetch_add(1, SeqCst);
        return; // an acquisition the model does not have: let it pass
    }
    let t0 = Instant::now();
    while STEP.load(SeqCst) != gi {
        if t0.elapsed() > Duration::from_secs(4) {
            STUCK.store(true, SeqCst);
            // give up gating for this thread
            TID.with(|t| t.set(usize::MAX));
            return;
        }
        std::thread::sleep(Duration::from_micros(50));
    }
    // an earlier blocked request must be queued at its lock before this one is issued
    let at = *ATTEMPT_AT.lock().unwrap();
    if let Some(t) = at {
        let need = Duration::from_millis(60);
        if t.elapsed() < need {
            std::thread::sleep(need - t.elapsed());
        }
    }
    MYPOS.with(|m| m.set(gi + 1));
    if ev.attempt {
        *ATTEMPT_AT.lock().unwrap() = Some(Instant::now());
        STEP.store(gi + 1, SeqCst);
        TID.with(|t| t.set(usize::MAX)); // nothing further is expected of this thread
        return;
    }
    SKIP.with(|s| s.set(ev.mult.saturating_sub(1)));
    PENDING.with(|p| p.set(gi));
}
thread_local! { static MYPOS: Cell<usize> = Cell::new(0); }
pub fn reset_thread() {
    MYPOS.with(|m| m.set(0));
}
