"""Statistics registry VCs (C15, naming clause): after real wrapper calls, `stats_registry::get(name)` (the real MIR)
resolves exactly the caches that have been used, under their `name` attribute or function name, to their own counters;
`reset(name)` zeroes that cache's counters only."""
import time
import z3
from .engine import (Interp, Ctx, Agg, Cell, Ref, Str, explore, run_single, Unsupported, is_conc, is_z3, simp, deref_all, b_and)
from . import wrap
from .models import struct_fields
from .vc_wrap import arg_tuple, tuple_eq, install_cache_hook, cache_stats
from .engine import b_not


def run(P, item):
    props = set(item['props']); names = item['subjects']; t0 = time.time()
    res = dict(paths=0, claims=0, failed=[], classes=set(), funcs=set(), builtins=set())

    def run_path(ctx):
        I = Interp(P); E = wrap.Env(I)
        log = []; install_cache_hook(I, ctx, log)
        subjs = {n: wrap.Subject(P, n) for n in names}
        pattern = item['calls']          # list of (subject, argument index)
        args = {}
        for n, ai in pattern:
            S = subjs[n]; ar = len(S.rec['args'])
            key = (n, ai)
            if key not in args:
                xs = arg_tuple(ctx, f'{n}_{ai}', ar)
                for (n2, a2), prev in args.items():
                    if n2 == n and ar: ctx.add(b_not(tuple_eq(xs, prev)))
                args[key] = xs
            n0 = len(log)
            wrap.call_subject(I, ctx, S, args[key], 0)
            for e in log[n0:]: e['subject'] = n
        sf = struct_fields(P, 'CacheStats')
        def counters(n):
            c = [e for e in log if e.get('subject') == n and e['ty'] != 'ThreadLocalCache']
            if not c: return None
            return cache_stats(P, c[-1]['cache'], c[-1]['ty'])
        def get(name):
            r = run_single(ctx, I.call_fn(ctx, P.resolve('stats_registry::get'), [Ref(Cell(Str(name), 'n'))]))
            if r.variant == 0: return None
            st = r.fields[0]
            return st.fields[sf.index('hits')].fields[0], st.fields[sf.index('misses')].fields[0]
        obs = {}
        for q in item['queries']: obs[q] = get(q)
        own = {n: counters(n) for n in names}
        rs = None; after = None
        if item.get('reset'):
            rs = run_single(ctx, I.call_fn(ctx, P.resolve('stats_registry::reset'), [Ref(Cell(Str(item['reset']), 'n'))]))
            after = {n: counters(n) for n in names}
        return dict(subjs=subjs, obs=obs, own=own, rs=rs, after=after, log=log)

    outs, st = explore(run_path, seed=item.get('seed', 0))
    for o in outs:
        ctx = o.ctx; res['paths'] += 1; res['funcs'] |= ctx.funcs_used; res['builtins'] |= ctx.builtins_used
        if o.status != 'ok':
            res['failed'].append(dict(prop='C16', clause='no panic', kind='stats', msg=str(o.res), cfg='STATS', op='registry', witness=None)); continue
        d = o.res; claims = []
        S = wrap.subjects()
        used = {n for n, _ in item['calls']}
        byname = {}
        for n in used:
            if S[n]['flavour'] != 'T': byname[S[n]['intended']['cache_name']] = n
        # expected lookups / hits per subject from the call pattern (no limit / ttl pressure in these subjects)
        exp = {}
        seen = set()
        for n, ai in item['calls']:
            h, m = exp.get(n, (0, 0))
            if (n, ai) in seen: h += 1
            else: m += 1; seen.add((n, ai))
            exp[n] = (h, m)
        for q in item['queries']:
            ob = d['obs'][q]
            if q in byname:
                n = byname[q]; own = d['own'][n]
                claims.append(('C15', f'statistics of a used cache are retrievable under its name attribute / function name ({q})', ob is not None))
                if ob is not None:
                    claims.append(('C15', f'the registry entry reports that cache\'s own counters ({q})', simp(b_and(ob[0] == own[0], ob[1] == own[1]))))
                    claims.append(('C15', f'hits and misses equal the hits and misses of the call history ({q})', simp(b_and(ob[0] == exp[n][0], ob[1] == exp[n][1]))))
            else:
                claims.append(('C15', f'no statistics are registered under a name no used global/async cache carries ({q})', ob is None))
        if item.get('reset'):
            tgt = byname.get(item['reset'])
            claims.append(('C15', 'reset returns whether the name is registered', (d['rs'] is (tgt is not None)) or simp(d['rs']) == (tgt is not None)))
            for n in used:
                if S[n]['flavour'] == 'T' or d['after'][n] is None: continue
                a = d['after'][n]; b = d['own'][n]
                if n == tgt: claims.append(('C15', 'reset zeroes the named cache\'s counters', simp(b_and(a[0] == 0, a[1] == 0))))
                else: claims.append(('C15', 'reset leaves every other cache\'s counters unchanged', simp(b_and(a[0] == b[0], a[1] == b[1]))))
        for prop, clause, f in claims:
            if prop not in props: continue
            res['claims'] += 1
            okk, model = ctx.prove(f)
            if not okk:
                res['failed'].append(dict(prop=prop, clause=clause, kind='stats', cfg='STATS/' + '+'.join(names), op='registry',
                                          witness=dict(calls=item['calls'], queries=item['queries'], reset=item.get('reset'), observed={q: (None if v is None else [str(simp(v[0])), str(simp(v[1]))]) for q, v in d['obs'].items()})))
    return dict(paths=res['paths'], claims=res['claims'], failed=res['failed'], classes=sorted(res['classes'] | {'stats/registry'}), funcs=sorted(res['funcs']), builtins=sorted(res['builtins']),
                checks=st['checks'], solver_s=st['solver_s'], blocks=st['blocks'], infeasible=st['infeasible'], tag=f"STATS {names} queries={item['queries']} reset={item.get('reset')}")


def replay(f, w):
    from . import replay as R
    if w is None: return False, 'no witness', []
    S = wrap.subjects()
    L = ['scenario subj']
    for n, ai in w['calls']: L.append(f"call 0 {n} 0 " + ' '.join(str(1000 + ai) for _ in S[n]['args']))
    for q in w['queries']: L.append('stats ' + q)
    if w.get('reset'):
        L.append('stats_reset ' + w['reset'])
        for q in w['queries']: L.append('stats ' + q)
    L.append('end')
    outs, err = R.run_scenarios('\n'.join(L) + '\n')
    if not outs: return False, 'no output', []
    lines = outs[0]
    st = [l for l in lines if l.startswith('stats ')]
    # expected from the call pattern
    exp = {}; seen = set()
    for n, ai in w['calls']:
        h, m = exp.get(n, (0, 0))
        if (n, ai) in seen: h += 1
        else: m += 1; seen.add((n, ai))
        exp[n] = (h, m)
    byname = {S[n]['intended']['cache_name']: n for n, _ in w['calls'] if S[n]['flavour'] != 'T'}
    dev = []
    for q, l in zip(w['queries'], st):
        want = 'stats none' if q not in byname else 'stats %d %d' % exp[byname[q]]
        if l != want: dev.append(f'{q}: native "{l}" expected "{want}"')
    if w.get('reset') and len(st) >= 2 * len(w['queries']):
        for q, l in zip(w['queries'], st[len(w['queries']):]):
            want = 'stats none' if q not in byname else ('stats 0 0' if q == w['reset'] else 'stats %d %d' % exp[byname[q]])
            if l != want: dev.append(f'after reset {q}: native "{l}" expected "{want}"')
    return (len(dev) > 0), ('; '.join(dev) if dev else 'native statistics as prescribed'), lines
