"""Core-level concurrency VCs (C18, C17): 2 simulated threads run core operations (get / insert / insert_with_memory /
clear) of GlobalCache or AsyncGlobalCache from a *symbolic Inv pre-state*; every interleaving at lock granularity within
the preemption bound is explored.  At quiescence every stored key must be tracked by the queue and the bounds must hold,
also after one more sequential store.  Witnesses are replayed on harness-owned statics along the witness schedule."""
import time
import z3
from .engine import (Interp, Ctx, Str, Agg, Ref, Cell, explore, run_threads, run_single, Unsupported, Panic, Deadlock, is_conc, is_z3, simp, b_and, b_or, b_not)
from .models import Harness, Cfg, NS
from .vc_core import model_witness, nice_model


def run(P, item):
    props = set(item['props']); fl = item['flavour']; pol = item['policy']; n = item['n']; progs = item['progs']; pb = item.get('preempt', 2)
    cfg = Cfg(fl, pol, limit=item.get('limit', True), ttl=item.get('ttl', False), mem=item.get('mem', False), fw=None)
    cfg.real = (pol == 'TLRU' and cfg.has_ttl)       # TLRU scores with an age factor: decided over the reals (see vc_core.run_step)
    res = dict(paths=0, claims=0, failed=[], classes=set(), funcs=set(), builtins=set())
    I = Interp(P)

    def run_path(ctx):
        I.reset()
        h = Harness(P, I, ctx, cfg, n, nmax=max(n, 1) + 1)
        newk = [z3.Int(f'newkey{i}') for i in range(3)]; newv = [z3.Int(f'newval{i}') for i in range(6)]
        for i, k in enumerate(newk):
            for e in h.pre: ctx.add(k != e.key)
            for k2 in newk[:i]: ctx.add(k != k2)
            ctx.add(k >= 0)
        def keyof(spec): return h.pre[spec[1]].key if spec[0] == 'pre' else newk[spec[1]]
        vi = [0]
        def mk(ops):
            def gen(c):
                out = []
                for op in ops:
                    if op[0] == 'clear': r = yield from I.call_fn(c, h.method('clear'), [h.cache_ref]); out.append(('clear', None, None, r)); continue
                    k = keyof(op[1]); ks = Ref(Cell(Str(k), 'key'))
                    if op[0] == 'get': r = yield from I.call_fn(c, h.method('get'), [h.cache_ref, ks]); out.append(('get', k, None, r))
                    else:
                        v = newv[vi[0]]; vi[0] += 1
                        sz = h.SIZE(v); c.add(z3.And(sz >= 0, sz <= 2 ** 40, v >= 0))
                        r = yield from I.call_fn(c, h.method(op[0]), [h.cache_ref, ks, v]); out.append((op[0], k, v, r))
                return out
            return gen
        ctx.events.append(('conc-start',)); n0 = len(ctx.events)
        ctx.stash = dict(h=h, n0=n0, newk=newk)
        rs = run_threads(ctx, [mk(ops) for ops in progs], preempt_bound=pb)
        ctx.tid = 0
        snap = dict(store=[(k, v) for (k, v, b, hh) in h.store_view()], queue=list(h.queue_view()))
        # sequential probe: one more store of a fresh key
        pk = z3.Int('probekey'); pvv = z3.Int('probeval')
        for e in h.pre: ctx.add(pk != e.key)
        for k in newk: ctx.add(pk != k)
        ctx.add(z3.And(pk >= 0, pvv >= 0, h.SIZE(pvv) >= 0, h.SIZE(pvv) <= 2 ** 40))
        h.call('insert_with_memory' if cfg.has_mem else 'insert', Ref(Cell(Str(pk), 'key')), pvv)
        snap2 = dict(store=[(k, v) for (k, v, b, hh) in h.store_view()], queue=list(h.queue_view()))
        locks = [e for e in ctx.events[n0:] if e[0] in ('lock', 'unlock')]
        return dict(h=h, rs=rs, snap=snap, snap2=snap2, locks=locks, newk=newk, pk=pk, pv=pvv)

    outs, st = explore(run_path, seed=item.get('seed', 0), max_paths=item.get('max_paths', 8000))
    nd = 0
    for o in outs:
        ctx = o.ctx; res['paths'] += 1; res['funcs'] |= ctx.funcs_used; res['builtins'] |= ctx.builtins_used
        if 'C17' in props: res['claims'] += 1
        if o.status == 'deadlock':
            res['classes'].add('deadlock'); nd += 1
            if 'C17' in props and nd <= 3 and ctx.check():
                hh = ctx.stash['h']; m = nice_model(ctx, z3.BoolVal(False), hh, ctx.solver.model())
                w = model_witness(ctx, m, hh, dict(op='conc'))
                w.update(progs=progs, newkeys=[_ev(m, k) for k in ctx.stash['newk']], locks=[[str(x) for x in e] for e in ctx.events[ctx.stash['n0']:] if e[0] in ('lock', 'unlock')], deadlock=str(o.res), attempts=[list(b) for b in ctx.blocked])
                res['failed'].append(dict(prop='C17', clause='no interleaving of core operations leaves every unfinished caller blocked', kind='cconc', msg=str(o.res), cfg=cfg.tag(), op=_ps(progs), witness=w))
            continue
        if o.status == 'panic':
            w = None
            if ctx.check() and getattr(ctx, 'stash', None):
                hh = ctx.stash['h']; m = nice_model(ctx, z3.BoolVal(False), hh, ctx.solver.model())
                if m is not None:
                    w = model_witness(ctx, m, hh, dict(op='conc'))
                    w.update(progs=progs, newkeys=[_ev(m, k) for k in ctx.stash['newk']], locks=[[str(x) for x in e] for e in ctx.events[ctx.stash['n0']:] if e[0] in ('lock', 'unlock')], panic=str(o.res))
            res['failed'].append(dict(prop='C16', clause='no panic', kind='cconc', msg=str(o.res), cfg=cfg.tag(), op=_ps(progs), witness=w)); continue
        d = o.res; h = d['h']; claims = []
        def tracked(sn):
            ks = [k for k, v in sn['store']]; q = sn['queue']
            return b_and(*[b_or(*[simp(k == x) for x in q]) if q else False for k in ks]) if ks else True
        res['classes'].add('quiescent/%d/%d' % (len(d['snap']['store']), len(d['snap']['queue'])))
        claims.append(('C18', 'at quiescence every stored key is tracked by the eviction queue', tracked(d['snap'])))
        claims.append(('C18', 'after one more sequential store every stored key is tracked by the eviction queue', tracked(d['snap2'])))
        if cfg.has_limit:
            claims.append(('C18', 'at quiescence the cache holds at most `limit` entries', simp(len(d['snap']['store']) <= cfg.limit)))
            claims.append(('C18', 'after one more sequential store the cache holds at most `limit` entries', simp(len(d['snap2']['store']) <= cfg.limit)))
        if cfg.has_mem:
            # memory bound at quiescence (sizes of the values actually stored)
            def total(sn): return sum([h.SIZE(v) for k, v in sn['store']], z3.IntVal(0)) if sn['store'] else z3.IntVal(0)
            claims.append(('C18', 'at quiescence the stored values take at most max_memory bytes', simp(total(d['snap']) <= cfg.mem)))
            claims.append(('C05', 'at quiescence the stored values take at most max_memory bytes', simp(total(d['snap']) <= cfg.mem)))
        # values: a lookup returns only a value that was stored for that key at some point
        for rs in d['rs']:
            for (opn, k, v, r) in rs:
                if opn != 'get' or r.variant != 1: continue
                cands = [e.val for e in h.pre if True] + [v2 for rs2 in d['rs'] for (o2, k2, v2, r2) in rs2 if o2.startswith('insert')]
                pairs = [simp(b_and(k == e.key, r.fields[0] == e.val)) for e in h.pre] + [simp(b_and(k == k2, r.fields[0] == v2)) for rs2 in d['rs'] for (o2, k2, v2, r2) in rs2 if o2.startswith('insert')]
                claims.append(('C18', 'a concurrent lookup returns only a value stored for that key', b_or(*pairs)))
        # recency (LRU): a lookup that found its key is a use - afterwards that key is not older in the eviction order than a
        # stored key that no operation of the concurrent phase touched (true in every linearisation of the two programs)
        c07 = None
        if pol == 'LRU' and (cfg.has_limit or cfg.has_mem):
            touched = [op[1] for pr in progs for op in pr if len(op) > 1]
            untouched = [e for i, e in enumerate(h.pre) if ('pre', i) not in [tuple(t) for t in touched]]
            q = d['snap']['queue']
            for rs in d['rs']:
                for (opn, k, v, r) in rs:
                    if opn != 'get' or r.variant != 1: continue
                    for e in untouched:
                        wrong = b_or(*[b_and(simp(q[i] == k), simp(q[j] == e.key)) for i in range(len(q)) for j in range(i + 1, len(q))]) if len(q) > 1 else False
                        claims.append(('C07', 'LRU: a key found by a concurrent lookup is afterwards more recent than a stored key nobody touched', b_not(wrong)))
                        c07 = (k, e.key)
        for prop, clause, f in claims:
            if prop not in props: continue
            res['claims'] += 1
            okk, model = ctx.prove(f)
            if not okk:
                model = nice_model(ctx, f, h, model)
                if model is None: continue
                w = model_witness(ctx, model, h, dict(op='conc'))
                w.update(progs=progs, newkeys=[_ev(model, k) for k in d['newk']], newvals=[_ev(model, v) for rs in d['rs'] for (o2, k2, v, r2) in rs if v is not None],
                         newsizes=[_ev(model, h.SIZE(v)) for rs in d['rs'] for (o2, k2, v, r2) in rs if v is not None],
                         locks=[[str(x) for x in e] for e in d['locks']], probe=[_ev(model, d['pk']), _ev(model, d['pv'])],
                         keys=[_ev(model, k) for k, v in d['snap']['store']], queue=[_ev(model, k) for k in d['snap']['queue']],
                         c07=[_ev(model, c07[0]), _ev(model, c07[1])] if c07 else None)
                res['failed'].append(dict(prop=prop, clause=clause, kind='cconc', cfg=cfg.tag(), op=_ps(progs), witness=w))
    return dict(paths=res['paths'], claims=res['claims'], failed=res['failed'], classes=sorted(res['classes']), funcs=sorted(res['funcs']), builtins=sorted(res['builtins']),
                checks=st['checks'], solver_s=st['solver_s'], blocks=st['blocks'], infeasible=st['infeasible'], tag=f"CCONC {cfg.tag()} n={n} preempt<={pb} {_ps(progs)}")


def _ev(m, t):
    if is_conc(t): return int(t)
    v = m.eval(t, model_completion=True)
    return v.as_long() if z3.is_int_value(v) else str(v)


def _ps(progs): return ' || '.join(';'.join(op[0] + (str(tuple(op[1])) if len(op) > 1 else '') for op in p) for p in progs)


def replay(f, w):
    from . import replay as R
    L = R.core_scenario(dict(w, op='none')).split('\n')
    L = [l for l in L if l and l != 'end']
    vi = 0
    for ti, prog in enumerate(w['progs']):
        ops = []
        for op in prog:
            if op[0] == 'clear': ops.append('clear'); continue
            spec = op[1]; k = w['entries'][spec[1]]['key'] if spec[0] == 'pre' else w['newkeys'][spec[1]]
            if op[0] == 'get': ops.append(f'get k{k}')
            else:
                v = (w.get('newvals') or [0] * 8)[vi] if vi < len(w.get('newvals') or []) else 900 + vi
                sz = (w.get('newsizes') or [])[vi] if vi < len(w.get('newsizes') or []) else 0
                vi += 1
                ops.append(f'{op[0]} k{k} {v} {sz if isinstance(sz, int) else 0}')
        L.append(f'cthread {ti} ' + ' / '.join(ops))
    ev = [e for e in w['locks'] if e[0] == 'lock']
    L.append('csched ' + ' '.join([f"{e[1]}:{e[4]}:{e[5]}" for e in ev] + [f"{b[0]}:{b[3]}:1:a" for b in (w.get('attempts') or [])]))
    L.append('op crun'); L.append('op dump')
    pk = (w.get('probe') or [987654, 1])[0]
    L.append(f"op {'insert_with_memory' if w['max_memory'] is not None else 'insert'} k{pk} 1 0")
    L.append('end')
    outs, err = R.run_scenarios('\n'.join(L) + '\n', timeout=60)
    if not outs: return False, 'no output: ' + err[-200:], []
    lines = outs[0]
    info = ' '.join(l for l in lines if l.startswith('conc_progress'))
    if f.get('clause') == 'no panic' or 'panic' in w:
        pl = [l for l in lines if '<panic' in l]
        if pl: return True, 'native thread driven along the witness schedule panicked: ' + pl[0][:200] + ' ' + info, lines
        return False, 'no native panic ' + info, lines
    if any(l.startswith('conc_blocked') for l in lines):
        return (f['prop'] == 'C17'), 'native threads driven along the witness schedule never return ' + info, lines
    if f['prop'] == 'C17': return False, 'native threads all returned ' + info, lines
    # segments: dump after the concurrent phase, final dump after the probe
    segs = []; cur = None
    for l in lines:
        if l.startswith('store '):
            cur = cur if cur is not None else dict(store=[], queue=[], bytes=0); cur['store'].append(l.split()[1]); cur['bytes'] = cur.get('bytes', 0) + int(l.split()[5])
        elif l.startswith('queue '):
            cur = cur if cur is not None else dict(store=[], queue=[], bytes=0); cur['queue'] = l.split()[1:]; segs.append(cur); cur = None
    dev = []
    if 'max_memory bytes' in f.get('clause', ''):
        if segs and w.get('max_memory') is not None and segs[0].get('bytes', 0) > w['max_memory']:
            return True, f"natively the values stored after the concurrent phase take {segs[0]['bytes']} bytes with max_memory = {w['max_memory']} (keys {segs[0]['store']}) " + info, lines
        return False, f"natively the stored values take {segs[0].get('bytes', 0) if segs else '?'} bytes (max_memory {w.get('max_memory')}) " + info, lines
    if f['prop'] == 'C07':
        if segs and w.get('c07'):
            q = segs[0]['queue']; hit, other = 'k%d' % w['c07'][0], 'k%d' % w['c07'][1]
            if hit in q and other in q and q.index(hit) < q.index(other):
                return True, f"natively the eviction queue after the concurrent phase is {q}: {hit} was found by a lookup, {other} was not touched, yet {hit} is the older one " + info, lines
            return False, f"native queue {q} keeps the looked-up key behind the untouched one " + info, lines
        return False, 'queue not observable ' + info, lines
    for i, sgm in enumerate(segs):
        un = [k for k in sgm['store'] if k not in sgm['queue']]
        if un: dev.append(f"{'at quiescence' if i == 0 else 'after the probe store'}: stored but untracked {un} (queue {sgm['queue']})")
        if w['limit'] is not None and len(sgm['store']) > w['limit']: dev.append(f"{'at quiescence' if i == 0 else 'after the probe store'}: {len(sgm['store'])} entries with limit {w['limit']}")
    return (len(dev) > 0), ('; '.join(dev) + ' ' + info) if dev else ('native run consistent ' + info), lines
