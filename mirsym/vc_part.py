"""Thread-partition VCs (C14): a sequential call history over symbolic, pairwise distinct argument values is run twice on
the real expansion of a subject - once with its calls distributed over two threads (run one after the other, never
overlapping), once as the property says it must be equivalent to:
  * global / async subjects: the same history with every call on one thread (which thread issues a call must not matter);
  * thread-scoped subjects:  only thread 0's calls (the other thread's calls must be invisible to thread 0).
Call by call the body must run in the one run iff it runs in the other; at the end the stores and eviction queues of
the compared caches must list the same keys in the same order.  Witnesses are replayed natively (two processes, real threads)."""
import time
import z3
from .engine import (Interp, Ctx, Str, Agg, Ref, Cell, explore, Unsupported, Panic, Deadlock, is_conc, is_z3, simp, b_and, b_or, b_not, str_eq)
from . import wrap
from .vc_wrap import install_cache_hook, cache_parts, subject_args, tuple_eq

U32 = 2 ** 32


def run(P, item):
    name = item['subject']; seq = item['seq']; nfill = item.get('nfill', 2); props = set(item['props'])
    subj = wrap.Subject(P, name); rec = subj.rec; it = rec['intended']; fl = rec['flavour']
    thread_scope = fl == 'T'
    res = dict(paths=0, claims=0, failed=[], classes=set(), funcs=set(), builtins=set())
    vals = sorted(set(a for t, a in seq) | set(f'k{i}' for i in range(nfill)))

    def one_run(ctx, calls, args):
        """calls: [(tid, argname)] -> per call (executions, result), final (keys, queue) of thread 0's / the shared cache"""
        I = Interp(P); E = wrap.Env(I); log = []
        install_cache_hook(I, ctx, log)
        obs = []
        for tid, a in calls:
            n0 = len(ctx.events)
            r = wrap.call_subject(I, ctx, subj, args[a][0], tid)
            obs.append((len([e for e in ctx.events[n0:] if e[0] == 'exec']), r))
        g0 = [c for c in log if c['method'] == 'get']
        st_, q_, c_ = cache_parts(P, g0[0]['cache'], g0[0]['ty'], 0)
        keys = [k for k, v in st_.items] if st_ is not None else []
        queue = list(q_.items) if q_ is not None else []
        ctx.funcs_used |= set(); return obs, keys, queue

    def run_path(ctx):
        args = {}
        for v in vals: args[v] = subject_args(ctx, rec, 'p_' + v)
        for i, a in enumerate(vals):
            for b in vals[:i]: ctx.add(b_not(tuple_eq(args[a][1], args[b][1])))
        fills = [(0, f'k{i}') for i in range(nfill)]
        probes = [(0, v) for v in vals]
        split = fills + list(seq) + probes
        ref = fills + ([(0, a) for t, a in seq] if not thread_scope else [(0, a) for t, a in seq if t == 0]) + probes
        oa = one_run(ctx, split, args)
        ob = one_run(ctx, ref, args)
        return dict(args=args, split=split, ref=ref, oa=oa, ob=ob)

    outs, st = explore(run_path, seed=item.get('seed', 0), max_paths=200)
    for o in outs:
        ctx = o.ctx; res['paths'] += 1; res['funcs'] |= ctx.funcs_used; res['builtins'] |= ctx.builtins_used
        if o.status != 'ok':
            res['failed'].append(dict(prop='C16' if o.status == 'panic' else 'C17', clause='no panic' if o.status == 'panic' else 'no self-deadlock', kind='part', msg=str(o.res), cfg=f"PART/{name}", op=_ss(seq), witness=None)); continue
        d = o.res; (obs_a, keys_a, q_a) = d['oa']; (obs_b, keys_b, q_b) = d['ob']
        res['classes'].add('partition/%s/%d-threads' % ('isolated' if thread_scope else 'shared', len(set(t for t, a in seq))))
        # align the calls of the reference run with the calls of the split run
        idx_b = 0; pairs = []
        for i, (tid, a) in enumerate(d['split']):
            if thread_scope and tid != 0: continue
            pairs.append((i, idx_b)); idx_b += 1
        claims = []
        what = ('thread scope: a call on thread 0 runs its body iff it does when the other thread\'s calls never happened' if thread_scope
                else 'global / async scope: a call runs its body iff it does when the whole history is issued by one thread')
        bad = [(i, j) for i, j in pairs if obs_a[i][0] != obs_b[j][0]]
        claims.append(('C14', what, len(bad) == 0, bad))
        same_keys = len(keys_a) == len(keys_b) and b_and(*[b_or(*[simp(str_eq(k, k2)) for k2 in keys_b]) for k in keys_a]) if keys_a or keys_b else True
        claims.append(('C14', ('thread scope: thread 0\'s cache holds the same entries as if the other thread had not run' if thread_scope else 'the shared cache holds the same entries whichever threads issued the calls'), same_keys, None))
        same_q = len(q_a) == len(q_b) and b_and(*[simp(str_eq(x, y)) for x, y in zip(q_a, q_b)]) if q_a or q_b else True
        claims.append(('C14', ('thread scope: thread 0\'s eviction order is untouched by the other thread' if thread_scope else 'the eviction order of the shared cache does not depend on which threads issued the calls'), same_q, None))
        for prop, clause, f, extra in claims:
            if prop not in props: continue
            res['claims'] += 1
            okk, model = ctx.prove(f)
            if okk: continue
            def ev(t):
                if is_conc(t): return int(t)
                v = model.eval(t, model_completion=True)
                return v.as_long() if z3.is_int_value(v) else str(v)
            w = dict(subject=name, seq=[list(x) for x in seq], nfill=nfill, split=[list(x) for x in d['split']], ref=[list(x) for x in d['ref']],
                     args={a: [ev(x) for x in d['args'][a][1]] for a in d['args']}, execs_split=[x[0] for x in obs_a], execs_ref=[x[0] for x in obs_b], differ=extra)
            res['failed'].append(dict(prop=prop, clause=clause, kind='part', cfg=f"PART/{name}", op=_ss(seq), witness=w))
    return dict(paths=res['paths'], claims=res['claims'], failed=res['failed'], classes=sorted(res['classes']), funcs=sorted(res['funcs']), builtins=sorted(res['builtins']),
                checks=st['checks'], solver_s=st['solver_s'], blocks=st['blocks'], infeasible=st['infeasible'], tag=f"PART {name} fills={nfill} {_ss(seq)}")


def _ss(seq): return ' '.join(f"T{t}:{a}" for t, a in seq)


def replay(f, w):
    """both histories natively (fresh process each, real threads for tid 1): the executions per call must differ as predicted"""
    from . import replay as R
    subs = wrap.subjects(); rec = subs[w['subject']]; name = w['subject']
    def script(calls):
        L = ['scenario subj']
        for tid, a in calls:
            t = w['args'][a]; recv = t[0] if rec['recv'] else 0; rest = t[1:] if rec['recv'] else t
            L.append(f"call {tid} {name} {recv} " + ' '.join(map(str, rest)))
        L.append('end')
        outs, err = R.run_scenarios('\n'.join(L) + '\n', timeout=60)
        if not outs: return None, []
        ex = [int(l.split()[1]) for l in outs[0] if l.startswith('execs ')]
        return [ex[i] - (ex[i - 1] if i else 0) for i in range(len(ex))], outs[0]
    a, la = script(w['split']); b, lb = script(w['ref'])
    if a is None or b is None or len(a) != len(w['split']) or len(b) != len(w['ref']): return False, 'native run incomplete', la + lb
    thread_scope = rec['flavour'] == 'T'
    j = 0; dev = []
    for i, (tid, arg) in enumerate(w['split']):
        if thread_scope and tid != 0: continue
        if a[i] != b[j]:
            dev.append(f"call #{i + 1} ({arg} on thread {tid}) {'runs the body' if a[i] else 'is served from the cache'} in the split history but {'runs the body' if b[j] else 'is served from the cache'} in the reference history")
        j += 1
    lines = la + ['--- reference history ---'] + lb
    return (len(dev) > 0), ('; '.join(dev) if dev else 'native: both histories execute the body in the same calls') + f" (split {w['split']}, reference {w['ref']})", lines
