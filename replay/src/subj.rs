//! Replay of wrapper-level scenarios: calls the decorated subjects natively with a scripted environment.
pub fn run(lines: &[String]) -> Vec<String> {
    let mut out = Vec::new();
    out.push(format!("unsupported subject scenario ({} lines)", lines.len()));
    out
}
