"""Which verification conditions decide which property, per tier (DESIGN.md sections 4 and 5)."""
from .models import POLICIES

FLAVOURS = ['G', 'T', 'A']
FW_SET = [None, 0.1, 0.3, 1.0, 1.5, 3.0]


def _n_range(policy, tier, op):
    if tier == 'quick':
        hi = 2 if (policy in ('TLRU',) and op != 'get') else 3
        if op == 'insert_with_memory' and policy in ('ARC', 'TLRU', 'LFU', 'Random'): hi = 2
        if op == 'get': hi = 4          # lookups are cheap: one more entry exposes order bugs that need a 'middle' position
    else:
        hi = 3 if (policy == 'TLRU' and op != 'get') else 4
        if op == 'insert_with_memory' and policy in ('ARC', 'LFU', 'Random'): hi = 3
        if op == 'insert_with_memory' and policy == 'TLRU': hi = 2
    return range(0, hi + 1)


def step_items(props, tier, flavours=FLAVOURS, policies=POLICIES, ops=('get', 'insert', 'insert_with_memory'), need=None):
    """the shape product of STEP VCs.  need: optional predicate on (flavour, policy, op, L, T, M, fw)"""
    out = []
    for fl in flavours:
        for pol in policies:
            for op in ops:
                if op == 'get': corners = [(1, 1, 0), (0, 0, 0), (0, 1, 1), (1, 0, 1)]
                elif op == 'insert': corners = [(1, 0, 0), (0, 0, 0), (1, 1, 0)]
                else: corners = [(1, 0, 1), (0, 0, 1), (1, 1, 1)]
                if tier == 'thorough':
                    corners = sorted(set(corners + [(l, t, m) for l in (0, 1) for t in (0, 1) for m in ((0, 1) if op != 'insert_with_memory' else (1,))]))
                    if op == 'insert': corners = [c for c in corners if c[2] == 0]
                fws = [None]
                if pol == 'TLRU': fws = [None, 1.5] if tier == 'quick' else FW_SET
                for (L, T, M) in corners:
                    for fw in fws:
                        if fw is not None and op == 'get': continue
                        if need and not need(fl, pol, op, L, T, M, fw): continue
                        ns = list(_n_range(pol, tier, op))
                        # two victims out of three residents (ranks shift between the evictions): rank-based scores under memory pressure
                        if op == 'insert_with_memory' and pol in ('ARC', 'TLRU') and (L, T, M) == (0, 0, 1) and fw is None and 3 not in ns: ns.append(3)
                        for n in ns:
                            if L == 0 and M == 0 and n > 2 and tier == 'quick' and op != 'get': continue
                            out.append(dict(kind='step', flavour=fl, policy=pol, limit=bool(L), ttl=bool(T), mem=bool(M), fw=fw, n=n, op=op, props=list(props)))
    return out


def inv_step_items(prop, tier):
    """Inv-preservation obligations of the core operations, discharged under `prop` (see vc_core.INV_CLAUSES)"""
    out = []
    for it in step_items([], tier):
        if tier == 'quick' and (it['n'] > 2 or it['fw'] is not None): continue
        it = dict(it); it['inv_for'] = prop; out.append(it)
    return out


def extra_step_items(props, tier):
    """insert_result (sync engines) and clear (GlobalCache) steps"""
    out = []
    for fl in ('G', 'T'):
        for pol in POLICIES:
            for op in ('insert_result_ok', 'insert_result_err'):
                for n in (0, 1, 2):
                    out.append(dict(kind='step', flavour=fl, policy=pol, limit=True, ttl=False, mem=False, fw=None, n=n, op=op, props=list(props)))
    for pol in ('FIFO', 'LFU'):
        for n in (0, 2): out.append(dict(kind='step', flavour='G', policy=pol, limit=True, ttl=False, mem=False, fw=None, n=n, op='clear', props=list(props)))
    return out


def saturation_items(props):
    """hit on an entry whose use counter is already u64::MAX (LFU/ARC/TLRU): no overflow panic, the counter stays put"""
    return [dict(kind='step', flavour=fl, policy=pol, limit=True, ttl=False, mem=False, fw=None, n=n, op=op, hits_max=True, props=list(props))
            for fl in FLAVOURS for pol in ('LFU', 'ARC', 'TLRU') for n in (1, 2) for op in ('get', 'insert')]


def extreme_items(props, tier):
    """configuration values at the top of their type (C16: "for every combination of ... limit, ttl, max_memory"): a ttl of 2^62..u64::MAX
    seconds on caches that do evict, and limit / max_memory of usize::MAX"""
    out = []
    for fl in FLAVOURS:
        for pol in POLICIES:
            for n in ((1, 2) if tier == 'quick' else (1, 2, 3)):
                out.append(dict(kind='step', flavour=fl, policy=pol, limit=True, ttl=True, mem=False, fw=None, n=n, op='insert', extreme='ttl', props=list(props)))
                out.append(dict(kind='step', flavour=fl, policy=pol, limit=True, ttl=True, mem=False, fw=None, n=n, op='get', extreme='ttl', props=list(props)))
                if n <= 2: out.append(dict(kind='step', flavour=fl, policy=pol, limit=False, ttl=True, mem=True, fw=None, n=n, op='insert_with_memory', extreme='ttl', props=list(props)))
            for n in (0, 2):
                out.append(dict(kind='step', flavour=fl, policy=pol, limit=True, ttl=False, mem=False, fw=None, n=n, op='insert', extreme='limit', props=list(props)))
                out.append(dict(kind='step', flavour=fl, policy=pol, limit=True, ttl=False, mem=True, fw=None, n=n, op='insert_with_memory', extreme='mem', props=list(props)))
        for fw in (0.0, 1000000.0):
            for op in ('insert', 'insert_with_memory'):
                out.append(dict(kind='step', flavour=fl, policy='TLRU', limit=(op == 'insert'), ttl=True, mem=(op != 'insert'), fw=fw, n=2, op=op, props=list(props)))
    return out


def wrap_items(props, tier, pred=None, patterns=('same',), second=(False,)):
    from .wrap import subjects
    out = []
    for name, r in subjects().items():
        if any(t != 'u64' for a, t in r['args']): continue
        if r['group'] in ('key', 'gate', 'method2'): continue
        if pred and not pred(r): continue
        if tier == 'quick' and r['group'] == 'cfg' and r['intended']['policy'] not in ('FIFO', 'LFU', 'TLRU') and 'C19' not in props: continue
        for n in (0, 1, 2):
            if len(r['args']) == 0 and not r['recv'] and n > 1: continue
            for pat in patterns:
                if pat == 'other-thread' and n == 0: continue
                for sec in second:
                    if sec and pat != 'same': continue
                    if tier == 'quick' and n == 2 and (r['intended']['max_memory'] is not None and r['intended']['result']): continue
                    out.append(dict(kind='wrap', subject=name, n=n, pattern=pat, second=sec, props=list(props)))
    return out


def inv_items(props, tier):
    from .vc_inv import NAMES
    out = []
    for kind in ('tag', 'event', 'dep', 'cache'):
        for name in NAMES:
            out.append(dict(kind='inv', mode='group', kind2=kind, name=name, props=list(props)))
    for kind, name in [('tag', 't1'), ('tag', 't2'), ('event', 'e1'), ('dep', 'g_tag1'), ('dep', 'custom_g'), ('cache', 'g_tag1'), ('cache', 'custom_a')]:
        out.append(dict(kind='inv', mode='group', kind2=kind, name=name, repeat=True, props=list(props)))
    for kind, name, late in [('dep', 'g_tag1', ['a_dep_tag2']), ('tag', 't1', ['g_tag1', 'a_tag1_ev1']), ('event', 'e1', ['g_ev1']), ('cache', 'custom_g', ['g_named']), ('tag', 't2', ['a_dep_tag2'])]:
        out.append(dict(kind='inv', mode='group', kind2=kind, name=name, late=late, repeat=True, props=list(props)))
    # user code that registers a cache through the public registry API as well: before its first use with the rules its attribute declares
    # (the macro registers again on first use), or after use with those rules plus a run-time tag
    for kind, name, pre, re_ in [('tag', 't1', ['g_tag1', 'a_tag1_ev1'], []), ('event', 'e1', ['g_ev1', 'a_tag1_ev1'], []), ('dep', 'g_tag1', ['a_dep_tag2'], []),
                                 ('tag', 't1', [], ['g_tag1', 'a_tag1_ev1']), ('event', 'e1', [], ['a_tag1_ev1']), ('dep', 'g_tag1', [], ['a_dep_tag2']), ('tag', 't2', ['g_tag12'], ['a_dep_tag2'])]:
        out.append(dict(kind='inv', mode='group', kind2=kind, name=name, prereg=pre, rereg=re_, repeat=True, props=list(props)))
    # the same name requested under two different kinds, one after the other (a name may be a tag of one cache and an event of another)
    for k1, k2, name in [('tag', 'event', 't1'), ('event', 'tag', 't1'), ('tag', 'dep', 'g_tag1'), ('dep', 'cache', 'g_tag1'), ('cache', 'dep', 'g_tag1')]:
        out.append(dict(kind='inv', mode='group', kind2=k1, kind2b=k2, name=name, repeat=True, props=list(props)))
    for kind, name, unused in [('tag', 't1', ['g_tag1']), ('tag', 't1', ['a_tag1_ev1', 'g_tag12']), ('dep', 'g_tag1', ['a_dep_tag2']), ('cache', 'custom_g', ['g_named']),
                               ('event', 'e1', ['g_ev1']), ('tag', 't2', ['g_tag1', 'a_dep_tag2'])]:
        out.append(dict(kind='inv', mode='group', kind2=kind, name=name, unused=unused, props=list(props)))
    # caches that were used but whose calls stored nothing (Err / rejected): they count, and stay registered
    for kind, name, M2 in [('tag', 't1', ['a_res_tag1', 'g_res_tag1', 'g_tag1']), ('event', 'e1', ['a_cif_ev1', 'g_cif_ev1', 'g_tag1']), ('dep', 'g_tag1', ['a_res_dep', 'g_tag1']),
                           ('cache', 'a_res_tag1', ['a_res_tag1', 'g_tag1']), ('cache', 'res_dep_a', ['a_res_dep']), ('cache', 'a_cif_ev1', ['a_cif_ev1', 'g_res_tag1'])]:
        out.append(dict(kind='inv', mode='group', kind2=kind, name=name, subjects=M2, nfill=1, props=list(props)))
    withs = [('g_tag12', ['g_tag12', 'g_tag1', 'a_nometa'], 3), ('g_tag1', ['g_tag1', 'g_nometa'], 2), ('a_nometa', ['g_tag12', 'a_nometa'], 2), ('a_tag1_ev1', ['a_tag1_ev1', 'g_ev1'], 2),
             ('custom_g', ['g_named', 'a_named'], 2), ('g_named', ['g_named', 'a_named'], 2), ('nothing_registered', ['g_tag1', 'a_nometa'], 2), ('t_tag1', ['t_tag1', 'g_tag1'], 2),
             ('g_fifo_l2', ['g_fifo_l2'], 2), ('a_lru_l2', ['a_lru_l2'], 2), ('g_ttl60_fifo_l3', ['g_ttl60_fifo_l3'], 3), ('a_ttl60_fifo_l3', ['a_ttl60_fifo_l3'], 3),
             ('a_arc_l4', ['a_arc_l4'], 4), ('g_arc_l4', ['g_arc_l4'], 4), ('a_tlru_l4', ['a_tlru_l4'], 3), ('g_lfu_l4', ['g_lfu_l4'], 3),
             ('a_mem32_arc', ['a_mem32_arc'], 3), ('a_mem32_tlru', ['a_mem32_tlru'], 3), ('g_mem32_arc', ['g_mem32_arc'], 3), ('a_res_tag1', ['a_res_tag1', 'g_cif_ev1'], 2),
             ('g_ttl1_lru_l3', ['g_ttl1_lru_l3'], 3), ('a_ttl1_lru_l3', ['a_ttl1_lru_l3'], 3)]
    if tier == 'thorough':
        withs += [('g_tag12', ['g_tag12'], 3), ('a_arc_ttl9_l3', ['a_arc_ttl9_l3'], 3), ('g_mem1kb', ['g_mem1kb'], 3), ('a_mem1kb', ['a_mem1kb'], 3), ('m_ref', ['m_ref'], 3)]
    for name, subs, nf in withs:
        out.append(dict(kind='inv', mode='with', name=name, subjects=subs, nfill=nf, props=list(props)))
    out.append(dict(kind='inv', mode='with', name='g_tag1', subjects=['g_tag1', 'a_nometa'], unused=['g_tag1'], nfill=2, props=list(props)))
    out.append(dict(kind='inv', mode='all_with', subjects=['g_tag1', 'a_nometa', 'g_named'], nfill=2, props=list(props)))
    out.append(dict(kind='inv', mode='all_with', subjects=['a_tag1_ev1', 'g_tag12'], nfill=2, props=list(props)))
    if tier == 'thorough': out.append(dict(kind='inv', mode='all_with', subjects=['g_tag12', 'a_nometa'], nfill=3, props=list(props)))
    return out


CONC_SUBJECTS = ['g_plain', 'a_plain', 'g_lru_l2', 'g_lfu_l2', 'g_random_l2', 'g_tag1', 'g_ttl1', 'g_mem1kb', 'a_lru_l2', 'a_lfu_l2', 'a_arc_l2', 'a_tag1_ev1', 'a_ttl1', 'a_mem1kb']


def conc_items(props, tier, want=None):
    from .wrap import subjects
    S = subjects(); out = []
    for name in CONC_SUBJECTS:
        it = S[name]['intended']
        progs = {'call|inv_with': [[('call', ('new', 0))], [('inv_with',)]], 'call|call': [[('call', ('new', 0))], [('call', ('new', 1))]],
                 'same|same': [[('call', ('fill', 0))], [('call', ('fill', 0))]], 'call|inv_all_with': [[('call', ('new', 0))], [('inv_all_with',)]],
                 'call|inv_cache': [[('call', ('new', 0))], [('inv_cache', it['cache_name'])]], 'call|stats_get': [[('call', ('new', 0))], [('stats_get',)]],
                 'call|stats_reset': [[('call', ('fill', 0))], [('stats_reset',)]], 'inv_with|inv_cache': [[('inv_with',)], [('inv_cache', it['cache_name'])]],
                 'fill|inv_with': [[('call', ('fill', 0))], [('inv_with',)]], 'fill|inv_cache': [[('call', ('fill', 0))], [('inv_cache', it['cache_name'])]],
                 'fill|new': [[('call', ('fill', 0))], [('call', ('new', 0))]], 'dup|dupdup': [[('call', ('new', 0))], [('call', ('new', 0)), ('call', ('new', 0))]]}
        if it['tags']: progs['call|inv_tag'] = [[('call', ('new', 0))], [('inv_tag', it['tags'][0])]]
        # another function's first call (self-registration: writers of the registries) while this cache is being invalidated / queried
        other = ('a_fifo_l2' if name != 'a_fifo_l2' else 'a_arc_l2') if S[name]['flavour'] == 'A' else ('g_fifo_l2' if name != 'g_fifo_l2' else 'g_arc_l2')
        if name in ('g_lru_l2', 'a_lru_l2', 'g_tag1', 'a_tag1_ev1') or tier == 'thorough':
            progs['first|inv_all_with'] = [[('call_first', other)], [('inv_all_with',)]]
            progs['first|inv_with'] = [[('call_first', other)], [('inv_with',)]]
            progs['first|stats_get'] = [[('call_first', other)], [('stats_get',)]]
            if it['tags']: progs['first|inv_tag'] = [[('call_first', other)], [('inv_tag', it['tags'][0])]]
        for pname, pg in progs.items():
            if want and not want(pname, it): continue
            for nf in (1, 2):
                if nf == 2 and (pname in ('same|same', 'call|stats_get', 'call|stats_reset', 'inv_with|inv_cache', 'dup|dupdup', 'fill|inv_cache') or pname.startswith('first|')) and tier == 'quick': continue
                out.append(dict(kind='conc', subject=name, nfill=nf, progs=pg, preempt=2 if tier == 'quick' else 3, props=list(props)))
        if name in ('g_lru_l2', 'a_lru_l2', 'g_plain', 'a_plain', 'g_lfu_l2') and (not want or want('tri-same', it)):
            out.append(dict(kind='conc', subject=name, nfill=1, progs=[[('call', ('new', 0))], [('call', ('new', 0))], [('call', ('new', 0))]], preempt=2, props=list(props), max_paths=20000))
        if tier == 'thorough':
            out.append(dict(kind='conc', subject=name, nfill=1, progs=[[('call', ('new', 0))], [('inv_with',)], [('call', ('new', 1))]], preempt=2, props=list(props), max_paths=20000))
    return out


def key_items(props, tier):
    from .wrap import subjects
    out = []
    for name, r in subjects().items():
        if r['group'] in ('key', 'method', 'method2', 'sig') or name in ('g_plain', 't_plain', 'a_plain', 'g_res', 'a_res', 'g_cif', 'a_inv', 't_mem1kb'):
            out.append(dict(kind='keys', subject=name, maxlen=8 if tier == 'quick' else 10, props=list(props)))
    return out


def susp_items(props, tier):
    from .wrap import subjects
    out = []
    for name, r in subjects().items():
        if r['group'] != 'gate': continue
        inters = ['none', 'call_same', 'call_other', 'call_fill', 'inv_cache', 'inv_with'] + (['inv_tag'] if r['intended']['tags'] else [])
        for g in range(r['gates']):
            for inter in inters:
                for end in ('resume', 'drop'):
                    for nf in ((1,) if tier == 'quick' else (0, 1, 2)):
                        if nf == 0 and inter == 'call_fill': continue
                        out.append(dict(kind='susp', subject=name, suspend_at=g, inter=inter, end=end, nfill=nf, props=list(props)))
                        if r['intended']['invalidate_on'] and nf >= 1: out.append(dict(kind='susp', subject=name, suspend_at=g, inter=inter, end=end, nfill=nf, target='fill', props=list(props)))
    return out


def part_items(props, tier):
    """C14: histories of 2 fills + 4 calls over {k0, k1, n0} distributed over two threads vs. the equivalent one-thread history"""
    import itertools
    subs = ['g_lru_l2', 't_lru_l2', 'a_lru_l2'] + (['g_arc_l2', 'g_lfu_l2', 'g_fifo_l2', 'g_tlru_l2', 'a_arc_l2', 't_lfu_l2', 'g_plain', 't_plain'] if tier == 'thorough' else [])
    out = []
    for name in subs:
        L = 5 if (tier == 'thorough' and name in ('g_lru_l2', 't_lru_l2')) else 4
        for keys in itertools.product(('k0', 'k1', 'n0'), repeat=L):
            if tier == 'quick' and sum(1 for k in keys if k == 'n0') > 1: continue      # at most one overflow in the quick tier
            for tids in itertools.product((0, 1), repeat=L):
                if not any(tids): continue
                if tier == 'quick' and tids[0] == 1 and tids[1] == 1: continue
                out.append(dict(kind='part', subject=name, seq=[list(x) for x in zip(tids, keys)], nfill=2, props=list(props)))
    return out


def stats_items(props, tier):
    out = []
    out.append(dict(kind='stats', subjects=['g_named', 'a_named', 'g_lru_l2'], calls=[('g_named', 0), ('g_named', 0), ('a_named', 0), ('g_named', 1)], queries=['custom_g', 'g_named', 'custom_a', 'a_named', 'g_lru_l2', 'nothing'], reset='custom_g', props=list(props)))
    out.append(dict(kind='stats', subjects=['g_plain', 'a_plain', 't_plain'], calls=[('g_plain', 0), ('a_plain', 0), ('a_plain', 0), ('t_plain', 0), ('t_plain', 0)], queries=['g_plain', 'a_plain', 't_plain'], reset='a_plain', props=list(props)))
    out.append(dict(kind='stats', subjects=['g_named_nometa', 'm_ref0', 'a_arity0'], calls=[('g_named_nometa', 0), ('a_arity0', 0), ('a_arity0', 0), ('g_named_nometa', 1), ('g_named_nometa', 0)], queries=['other_name', 'g_named_nometa', 'a_arity0'], reset='unknown_name', props=list(props)))
    return out


def cconc_items(props, tier):
    out = []
    pols = ['FIFO', 'LRU', 'LFU', 'Random'] + (['ARC', 'TLRU'] if tier == 'thorough' else [])
    for fl in ('G', 'A'):
        for pol in pols:
            for n in ((1, 2) if tier == 'quick' else (1, 2, 3)):
                P_ = [('ins|ins', [[('insert', ('new', 0))], [('insert', ('new', 1))]], {}),
                      ('ins|get', [[('insert', ('new', 0))], [('get', ('pre', 0))]], dict(ttl=True)),
                      ('reins|get', [[('insert', ('pre', 0))], [('get', ('pre', 0))]], dict(ttl=True)),
                      ('get|get', [[('get', ('pre', 0))], [('get', ('pre', 0))]], dict(ttl=True)),
                      ('reins|reins', [[('insert', ('pre', 0))], [('insert', ('pre', 0))]], {})]
                if fl == 'G': P_.append(('ins|clear', [[('insert', ('new', 0))], [('clear',)]], {}))
                if n == 1: P_.append(('insmem|get', [[('insert_with_memory', ('new', 0))], [('get', ('pre', 0))]], dict(ttl=True, mem=True)))
                # two stores under a memory budget: the byte total they act on must be the one inside the critical section
                if n == 1 and pol in ('FIFO', 'LRU', 'LFU'): P_.append(('insmem|insmem', [[('insert_with_memory', ('new', 0))], [('insert_with_memory', ('new', 1))]], dict(mem=True, limit=False)))
                # a decision taken before the critical section (is the key present? is the cache full?) must not be acted on after
                # another thread has removed the key and refilled the slot
                if n == 2 and (tier == 'thorough' or pol in ('FIFO', 'LRU')):
                    P_.append(('reins|get;ins', [[('insert', ('pre', 0))], [('get', ('pre', 0)), ('insert', ('new', 0))]], dict(ttl=True)))
                    if fl == 'A': P_.append(('reinsmem|get;insmem', [[('insert_with_memory', ('pre', 0))], [('get', ('pre', 0)), ('insert_with_memory', ('new', 0))]], dict(ttl=True, mem=True)))
                    if fl == 'G': P_.append(('reins|clear;ins', [[('insert', ('pre', 0))], [('clear',), ('insert', ('new', 0)), ('insert', ('new', 1))]], {}))
                for nm, pg, kw in P_:
                    if pol in ('LFU', 'Random') and nm in ('get|get',) and tier == 'quick': continue
                    if pol == 'TLRU' and n == 3 and kw.get('ttl'): continue        # score with an age fraction over 3 residents and 3 preemptions: z3 does not finish within the cap
                    if pol == 'TLRU' and nm == 'reinsmem|get;insmem': continue         # same cap (non-linear age fraction x three memory-loop stores x 3 preemptions); ARC keeps this program
                    out.append(dict(kind='cconc', flavour=fl, policy=pol, n=n, progs=pg, preempt=2 if tier == 'quick' else 3, props=list(props), **kw))
    return out


def items_for(prop, tier):
    p = prop
    if p == 'C01': return step_items(['C01'], tier) + extra_step_items(['C01'], tier) + wrap_items(['C01'], tier, second=(False, True))
    if p == 'C03': return step_items(['C03'], tier, ops=('get', 'insert'), need=lambda fl, pol, op, L, T, M, fw: not L and not T and not M) + wrap_items(['C03'], tier, pred=lambda r: not r['intended']['cache_if'] and not r['intended']['invalidate_on'], second=(False, True)) + conc_items(['C03'], tier, want=lambda pn, it: pn in ('same|same', 'call|call', 'dup|dupdup', 'tri-same'))
    if p == 'C04': return step_items(['C04'], tier, need=lambda fl, pol, op, L, T, M, fw: L or op == 'get')
    if p == 'C05':
        from .vc_est import CASES
        return step_items(['C05'], tier, ops=('insert_with_memory',)) + [dict(kind='est', case=c, n=n, props=['C05']) for c in CASES for n in ((0, 2) if c in ('Vec', 'slice') else (2,))] + wrap_items(['C05'], tier, pred=lambda r: r['group'] in ('mem', 'res', 'cif') ) + [x for x in cconc_items(['C05'], tier) if x.get('mem')]
    if p == 'C06': return step_items(['C06'], tier, ops=('get', 'insert'), need=lambda fl, pol, op, L, T, M, fw: T or op == 'insert')
    if p == 'C07': return step_items(['C07'], tier, policies=['FIFO', 'LRU']) + [x for x in cconc_items(['C07'], tier) if x['policy'] == 'LRU' and any(op[0] == 'get' for pr in x['progs'] for op in pr)]
    if p == 'C08': return step_items(['C08'], tier, policies=['LFU', 'ARC', 'TLRU']) + saturation_items(['C08'])
    if p == 'C15':
        c = conc_items(['C15'], tier, want=lambda pn, it: pn in ('same|same', 'call|call', 'fill|inv_with', 'fill|inv_cache'))
        for x in c: x['atomics'] = True
        return step_items(['C15'], tier, flavours=['G', 'A'], ops=('get',)) + c + stats_items(['C15'], tier)
    if p == 'C16': return step_items(['C16'], tier) + saturation_items(['C16']) + extreme_items(['C16'], tier) + extra_step_items(['C16'], tier) + wrap_items(['C16'], tier, pred=lambda r: r['group'] in ('cfg', 'mem', 'res', 'cif', 'inv', 'method', 'sig')) + [x for x in inv_items(['C16'], tier) if x['mode'] != 'group' or x['name'] in ('t1', 'custom_g')]
    if p == 'C09': return inv_step_items('C09', tier) + extra_step_items(['C09'], tier) + wrap_items(['C09'], tier, pred=lambda r: r['intended']['result'], second=(False, True))
    if p == 'C10': return inv_step_items('C10', tier) + wrap_items(['C10'], tier, pred=lambda r: r['intended']['cache_if'] or r['group'] in ('plain', 'res'), second=(False,))
    if p == 'C11': return inv_step_items('C11', tier) + wrap_items(['C11'], tier, pred=lambda r: r['intended']['invalidate_on'] or r['group'] in ('plain',), second=(False, True))
    if p == 'C02': return key_items(['C02'], tier) + wrap_items(['C02'], tier, pred=lambda r: r['group'] in ('sig', 'method', 'plain'))
    if p == 'C20': return susp_items(['C20'], tier)
    if p in ('C17', 'C18'): return conc_items([p], tier) + cconc_items([p], tier)
    if p == 'C13':
        return inv_items([p], tier) + [x for x in conc_items(['C13'], tier, want=lambda pn, it: pn in ('call|inv_with', 'fill|inv_with', 'call|inv_all_with'))
                                       if len(x['progs']) == 2 and (x['subject'] in ('g_lru_l2', 'a_lru_l2', 'g_fifo_l2', 'a_fifo_l2', 'a_arc_l2', 'g_tag1', 'a_tag1_ev1')
                                                                    or (tier == 'thorough' and x['subject'] in ('g_lfu_l2', 'a_lfu_l2', 'g_mem1kb', 'a_mem1kb', 'g_ttl1', 'a_ttl1')))]
    if p in ('C12', 'C13'): return inv_items([p], tier)
    if p == 'C14': return wrap_items(['C14'], tier, pred=lambda r: r['group'] in ('cfg', 'plain', 'sig', 'method', 'meta', 'mem'), patterns=('same', 'other-thread')) + part_items(['C14'], tier) + conc_items(['C14'], tier, want=lambda pn, it: pn in ('same|same', 'fill|new'))
    if p == 'C19': return wrap_items(['C19'], tier)
    return []
