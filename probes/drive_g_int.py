"""Probe driver: STEP(G, policy, op) on GlobalCache with symbolic pre-state."""
import sys, time, z3, re
from mirparse import parse_file
from interp_int import *

items, allocs = parse_file(sys.argv[1] if len(sys.argv) > 1 else '/tmp/mirprobe/core.mir')
I = Interp(items, allocs)
GET = [f for n, f in I.fns.items() if n.endswith('::get') and 'GlobalCache<R>' in f.locals[1].ty and 'Async' not in f.locals[1].ty][0]
INS = [f for n, f in I.fns.items() if n.endswith('::insert') and 'GlobalCache<R>' in f.locals[1].ty and 'Async' not in f.locals[1].ty][0]
POL = {'FIFO': 0, 'LRU': 1, 'LFU': 2, 'ARC': 3, 'Random': 4, 'TLRU': 5}

def mk_state(ctx, n, policy, with_ttl, with_limit):
    keys = [z3.Int(f'key{i}') for i in range(n)]
    if n > 1: ctx.add(z3.Distinct(keys))
    now0 = z3.Int('now0'); ctx.add(now0 >= 0); ctx.now_vars.append(now0)
    ents = []
    for i in range(n):
        birth = z3.Int(f'birth{i}'); ctx.add(z3.And(birth >= 0, birth <= now0))
        hits = z3.BitVec(f'hits{i}', 64)
        if policy in ('FIFO', 'LRU', 'Random'): ctx.add(hits == 0)
        else: ctx.add(z3.ULT(hits, z3.BitVecVal(2**20, 64)))
        val = z3.BitVec(f'val{i}', 64)
        ents.append([Str(keys[i]), Agg('CacheEntry', 0, [val, Instant(birth), hits])])
    mapm = MapM(ents); dq = DequeM([Str(k) for k in keys])
    limit = z3.BitVec('limit', 64)
    if with_limit: ctx.add(z3.And(z3.UGE(limit, 1), z3.ULE(limit, 4), z3.UGE(limit, n)))
    ttl = z3.Int('ttl')
    if with_ttl: ctx.add(z3.And(ttl >= 1, ttl <= 2**32))
    stats = Agg('CacheStats', 0, [Agg('Atomic', 0, [z3.BitVec('h0', 64)]), Agg('Atomic', 0, [z3.BitVec('m0', 64)])])
    maplock = LockM(mapm, 'store'); qlock = LockM(dq, 'queue')
    cache = Agg('GlobalCache', 0, [Ref(Cell(LazyM(maplock), 'MAP')), Ref(Cell(LazyM(qlock), 'ORDER')),
                                  some(limit) if with_limit else none(), none(), Agg('EvictionPolicy', POL[policy], []),
                                  some(ttl) if with_ttl else none(), none(), Ref(Cell(LazyM(stats), 'STATS'))])
    return dict(cache=cache, mapm=mapm, dq=dq, keys=keys, limit=limit, ttl=ttl, stats=stats, now0=now0, maplock=maplock, qlock=qlock)

def explore(run):
    """run(ctx) -> result; DFS over choice logs"""
    work = [[]]; paths = []; npaths = 0; nchecks = 0; tsolve = 0
    while work:
        forced = work.pop()
        ctx = Ctx(forced)
        try:
            res = run(ctx); status = 'ok'
        except Infeasible: status = 'infeasible'; res = None
        except Panic as p: status = 'panic'; res = p.msg
        work.extend(ctx.new_alts); nchecks += ctx.nchecks; tsolve += ctx.tsolve
        if status != 'infeasible': paths.append((status, res, ctx)); npaths += 1
    return paths, nchecks, tsolve

def prove(ctx, claim, what):
    """claim must hold under ctx.pc"""
    if claim is True: return True
    if claim is False:
        print('   VIOLATION (structural):', what); return False
    r = ctx.solver.check(z3.Not(claim))
    if r == z3.sat:
        print('   VIOLATION:', what, '\n     model:', {str(d): ctx.solver.model()[d] for d in ctx.solver.model().decls()}); return False
    return r == z3.unsat

def step_insert(n, policy, with_ttl=False):
    viol = 0
    def run(ctx):
        st = mk_state(ctx, n, policy, with_ttl, True)
        k = Str(z3.Int('argkey')); v = z3.BitVec('argval', 64)
        pre_keys = list(st['keys'])
        I.call_fn(ctx, INS, [Ref(Cell(st['cache'], 'cache')), k, v])
        return st, k, v, pre_keys
    t = time.time(); paths, nchecks, tsolve = explore(run)
    for status, res, ctx in paths:
        if status == 'panic':
            print('   PANIC path:', res); viol += 1; continue
        st, k, v, pre_keys = res
        mp, dq = st['mapm'], st['dq']
        # C04: size bound
        if not prove(ctx, z3.ULE(z3.BitVecVal(len(mp.items), 64), st['limit']), f'|store|={len(mp.items)} <= limit'): viol += 1
        # I1/I2: queue == keys(store) as lists of terms (structural, same term objects)
        qk = [x.t for x in dq.items]; mk = [it[0].t for it in mp.items]
        same = len(qk) == len(mk) and all(ctx.solver.check(z3.Not(z3.Or([a == b for b in mk]))) == z3.unsat for a in qk) and (len(qk) < 2 or ctx.solver.check(z3.Not(z3.Distinct(qk))) == z3.unsat)
        if not same: print('   VIOLATION: queue/store mismatch', qk, mk); viol += 1
        # no locks left held
        if st['maplock'].state != 0 or st['qlock'].state != 0: print('   VIOLATION: lock leaked'); viol += 1
        # C07: FIFO/LRU victim = queue front when overflow
        if policy in ('FIFO', 'LRU') and n >= 1:
            # overflow iff key new and n == limit
            newkey = z3.And([k.t != pk for pk in pre_keys])
            overflow = z3.And(newkey, st['limit'] == n)
            front_gone = ctx.solver.check(z3.Or([pre_keys[0] == a for a in mk])) == z3.unsat if mk else True
            # if overflow then front is gone and all others stay
            if ctx.solver.check(overflow) == z3.sat and ctx.solver.check(z3.Not(overflow)) == z3.unsat:
                if not front_gone: print('   VIOLATION: overflow but queue front survived'); viol += 1
            if ctx.solver.check(z3.Not(overflow)) == z3.sat and ctx.solver.check(overflow) == z3.unsat:
                if len(mk) < len([1 for pk in pre_keys]) : print('   VIOLATION: eviction without overflow'); viol += 1
    return len(paths), nchecks, tsolve, time.time() - t, viol

def step_get(n, policy, with_ttl=True):
    viol = 0
    def run(ctx):
        st = mk_state(ctx, n, policy, with_ttl, True)
        k = Str(z3.Int('argkey'))
        pre = [(it[0].t, it[1].fields[0], it[1].fields[1].t, it[1].fields[2]) for it in st['mapm'].items]
        h0, m0 = st['stats'].fields[0].fields[0], st['stats'].fields[1].fields[0]
        r = I.call_fn(ctx, GET, [Ref(Cell(st['cache'], 'cache')), k])
        return st, k, r, pre, h0, m0
    t = time.time(); paths, nchecks, tsolve = explore(run)
    for status, res, ctx in paths:
        if status == 'panic': print('   PANIC path:', res); viol += 1; continue
        st, k, r, pre, h0, m0 = res
        h1, m1 = st['stats'].fields[0].fields[0], st['stats'].fields[1].fields[0]
        now = ctx.now_vars[-1]
        if r.variant == 1:
            # hit: exists i: key == k and value equal and age < ttl ; stats +1 hit
            cl = z3.Or([z3.And(k.t == pk, r.fields[0] == pv) for pk, pv, pb, ph in pre]) if pre else False
            if not prove(ctx, cl, 'hit returns stored value of that key'): viol += 1
            if with_ttl:
                # C06: served entry must have whole-second age < ttl at *some* clock reading during the call (the read one)
                cl = z3.Or([z3.And(k.t == pk, (ctx.now_vars[min(1,len(ctx.now_vars)-1)] - pb) < st['ttl'] * 1000000000) for pk, pv, pb, ph in pre])
                if not prove(ctx, cl, 'served entry younger than ttl'): viol += 1
            if not prove(ctx, z3.And(h1 == h0 + 1, m1 == m0), 'hit counted once'): viol += 1
        else:
            if not prove(ctx, z3.And(h1 == h0, m1 == m0 + 1), 'miss counted once'): viol += 1
            # miss: key absent, or expired (and then removed)
            absent = z3.And([k.t != pk for pk, pv, pb, ph in pre]) if pre else True
            mk = [it[0].t for it in st['mapm'].items]
            gone = z3.And([k.t != a for a in mk]) if mk else True
            if not prove(ctx, gone, 'after a miss the key is not in the store (expired entry purged)'): viol += 1
            if with_ttl:
                exp = z3.Or([z3.And(k.t == pk, (ctx.now_vars[min(1,len(ctx.now_vars)-1)] - pb) >= st['ttl'] * 1000000000) for pk, pv, pb, ph in pre]) if pre else False
                if not prove(ctx, z3.Or(absent, exp), 'miss only if absent or expired'): viol += 1
            else:
                if not prove(ctx, absent, 'miss only if absent'): viol += 1
        if st['maplock'].state != 0 or st['qlock'].state != 0: print('   VIOLATION: lock leaked'); viol += 1
    return len(paths), nchecks, tsolve, time.time() - t, viol

if __name__ == '__main__':
    for pol in []:
        for n in range(0, 4):
            try:
                r = step_insert(n, pol, with_ttl=(pol=='TLRU'))
                print(f'insert {pol:6s} n={n}: paths={r[0]} checks={r[1]} solve={r[2]:.2f}s wall={r[3]:.2f}s viol={r[4]}')
            except Unsupported as e:
                print(f'insert {pol} n={n}: UNSUPPORTED {e}'); break
    for pol in ['FIFO', 'LRU', 'LFU', 'ARC']:
        for n in range(0, 4):
            try:
                r = step_get(n, pol)
                print(f'get    {pol:6s} n={n}: paths={r[0]} checks={r[1]} solve={r[2]:.2f}s wall={r[3]:.2f}s viol={r[4]}')
            except Unsupported as e:
                print(f'get {pol} n={n}: UNSUPPORTED {e}'); break
