"""Wrapper-level machinery: running the real macro expansions (the decorated functions of /verif/subjects) symbolically.

* environment models for `vsubjects::env::*` (body / predicates / gates),
* discovery and seeding of a subject's own statics with a symbolic Inv pre-state,
* dry runs that read the key term and the configuration constants off the wrapper's MIR."""
import json, os, re
import z3
from .engine import (Interp, Ctx, Agg, Cell, Ref, Str, MapM, SeqM, LockM, LazyM, OnceM, RefCellM, TlsKey, Instant, Closure, Coroutine, FnItem, Opaque,
                     Unsupported, Panic, Deadlock, run_single, some, none, ok, err, unit, is_conc, is_z3, deref_all, load, simp, b_and, b_or, b_not, term_eq, str_eq)
from .models import struct_fields, POLICIES, POL_IDX, NS
from .front import VERIF

SUBJECTS = None


def subjects():
    global SUBJECTS
    if SUBJECTS is None:
        SUBJECTS = {r['name']: r for r in json.load(open(os.path.join(VERIF, 'subjects', 'subjects.json')))}
    return SUBJECTS


class StopDry(Exception):
    def __init__(s, payload): s.payload = payload


class Env:
    """models of vsubjects::env::* ; the event log is ctx.events"""
    def __init__(s, I):
        s.I = I
        s.F = {}
        s.mode = {}          # per id: 'fresh' => body returns a fresh value on every execution (impure body)
        s.strcap_max = 2 ** 36
        s.gate = None        # callable(ctx, gate_id) -> True (Ready) / False (Pending)
        I.env = {'body': s.body, 'body2': s.body, 'body3': s.body, 'body_any': s.body_any, 'body_res': s.body_res, 'body_str': s.body_str,
                 'pred': s.pred, 'pred_res': s.pred, 'stale': s.stale, 'gate': s.gate_new, 'Gate::poll': s.gate_poll, 'f_default': s.fdef, 'with': s.unsup}
    def unsup(s, ctx, A): raise Unsupported('env internals are not interpreted')
    def fdef(s, ctx, A): return s.Ffun(int(A[0]) if is_conc(A[0]) else 0, 1)(A[1])
    def Ffun(s, sid, arity):
        k = (sid, arity)
        if k not in s.F: s.F[k] = z3.Function(f'F{sid}', *([z3.IntSort()] * arity + [z3.IntSort()]))
        return s.F[k]
    def _args(s, A):
        return [z3.IntVal(a) if is_conc(a) else a for a in A[1:]]
    def body(s, ctx, A):
        sid = A[0]; args = s._args(A)
        if s.mode.get(sid) == 'fresh': v = ctx.fresh_int(f'bodyval{sid}', 0, 2 ** 63)
        else: v = s.Ffun(sid, len(args))(*args) if args else s.Ffun(sid, 1)(z3.IntVal(0))
        ctx.events.append(('exec', ctx.tid, sid, tuple(args), v))
        return v
    def body_any(s, ctx, A):
        v = ctx.fresh_int(f'anyval{A[0]}', 0, 2 ** 63); ctx.events.append(('exec', ctx.tid, A[0], (), v)); return v
    def body_res(s, ctx, A):
        sid = A[0]; args = s._args(A)
        v = ctx.fresh_int(f'resval{sid}', 0, 2 ** 63)
        is_ok = ctx.choose_free(2) == 0
        r = ok(v) if is_ok else Agg('Result', 1, [ctx.fresh_int(f'reserr{sid}', 0, 255)])
        ctx.events.append(('exec', ctx.tid, sid, tuple(args), r))
        return r
    def body_str(s, ctx, A):
        sid = A[0]; args = s._args(A)
        v = Str(ctx.fresh_int(f'strval{sid}', 0, 2 ** 62)); v.cap = ctx.fresh_int(f'strcap{sid}', 0, s.strcap_max)
        ctx.events.append(('exec', ctx.tid, sid, tuple(args), v)); return v
    def pred(s, ctx, A):
        b = ctx.fresh_bool(f'pred{A[0]}')
        ctx.events.append(('pred', ctx.tid, A[0], deref_all(A[1]), deref_all(A[2]), b)); return b
    def stale(s, ctx, A):
        b = ctx.fresh_bool(f'stale{A[0]}')
        ctx.events.append(('stale', ctx.tid, A[0], deref_all(A[1]), deref_all(A[2]), b)); return b
    def gate_new(s, ctx, A): return Agg('Gate', 0, [A[0]])
    def gate_poll(s, ctx, A):
        g = deref_all(A[0].fields[0]) if isinstance(A[0], Agg) else deref_all(A[0])
        gid = g.fields[0]
        ready = True if s.gate is None else s.gate(ctx, gid)
        ctx.events.append(('gate', ctx.tid, gid, ready))
        return Agg('Poll', 0, [unit()]) if ready else Agg('Poll', 1, [])


class Subject:
    """one decorated function: its MIR items, statics, intended configuration"""
    def __init__(s, P, name):
        s.P = P; s.name = name; s.rec = subjects()[name]
        fl = s.rec['flavour']
        s.fn = P.fns.get(name) or P.fns.get('Svc::' + name) or next((f for n, f in P.fns.items() if n.endswith('::' + name) and f.tag == 'subj' and '{closure' not in n), None)
        if s.fn is None: raise Unsupported('subject function not in the MIR: ' + name)
        s.fname = s.fn.name
        pref = s.fname + '::'
        s.statics = {n: f for n, f in P.statics.items() if n.startswith(pref) and f.tag == 'subj'}
        s.tls_consts = {n: f for n, f in P.consts.items() if n.startswith(pref) and 'LocalKey<' in f.ret and 'promoted' not in n and f.tag == 'subj'}
    def static_named(s, pat, tysub):
        c = [n for n, f in s.statics.items() if tysub in f.ret and re.search(pat, n.split('::')[-1])]
        return c
    def roles(s):
        """static name per role for the global / async branch"""
        r = {}
        for n, f in s.statics.items():
            t = f.ret; last = n.split('::')[-1]
            if 'LazyStorage' in t or '__RUST_STD_INTERNAL' in last: continue
            if 'DashMap<' in t: r['store'] = n
            elif 'HashMap<std::string::String, cachelito::CacheEntry<' in t and 'RwLock' in t: r['store'] = n
            elif 'VecDeque<std::string::String>' in t and 'Mutex' in t: r['queue'] = n
            elif 'Lazy<cachelito::CacheStats>' in t: r['stats'] = n
            elif 'Once' in t: r.setdefault('onces', []).append(n)
        return r


def call_subject(I, ctx, subj, args, tid=0):
    """one complete (synchronous, or polled-to-completion) call of the subject on thread tid"""
    r = run_single(ctx, I.call_fn(ctx, subj.fn, list(args)), tid)
    if isinstance(r, Coroutine):
        cell = Cell(r, 'fut')
        pf = I.p.fns[r.fname]
        for _ in range(64):
            pr = run_single(ctx, I.call_fn(ctx, pf, [Agg('Pin', 0, [Ref(cell)]), Opaque('cx')]), tid)
            if pr.variant == 0: return pr.fields[0]
        raise Unsupported('future did not complete in 64 polls')
    return r


def dry_run(I, ctx, subj, args, stop_at=('get',), tid=0):
    """run the wrapper until it calls one of `stop_at` on a cache object; returns (cache object, call args)"""
    orig = I.call_fn
    targets = set()
    for ty in ('GlobalCache', 'ThreadLocalCache', 'AsyncGlobalCache'):
        for m in stop_at:
            for f in I.p.methods.get((ty, m), []): targets.add(f.name)
    def hooked(ctx_, f, a):
        if f.name in targets: raise StopDry((f.name, a))
        return orig(ctx_, f, a)
    I.call_fn = hooked
    try:
        call_subject(I, ctx, subj, args, tid)
    except StopDry as e:
        return e.payload
    finally:
        I.call_fn = orig
    return None
