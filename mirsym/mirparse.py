"""Parser for rustc `-Zunpretty=mir` text (the subset of MIR syntax that occurs in cachelito and the subjects crate).
A statement the parser does not understand does not abort the parse: the enclosing function is marked
`parse_error` and executing it raises Unsupported (=> INCONCLUSIVE), never a verdict."""
import re, sys, json

class Fn:
    def __init__(s, name, kind):
        s.parse_error=None; s.cleanup=set()
        s.name=name; s.kind=kind; s.args=[]; s.ret=None; s.locals={}; s.blocks={}; s.debug={}; s.text_lines=0
class Local: 
    def __init__(s, idx, ty, mut=False): s.idx=idx; s.ty=ty; s.mut=mut

def match_paren_back(s, end):
    """s[end] == ')' ; return index of matching '('"""
    assert s[end]==')', s
    d=0; i=end
    instr=False
    while i>=0:
        c=s[i]
        if c=='"' and (i==0 or s[i-1]!='\\'): instr=not instr
        if not instr:
            if c==')': d+=1
            elif c=='(':
                d-=1
                if d==0: return i
        i-=1
    raise ValueError('unbalanced: '+s)

def split_top(s, sep=','):
    out=[]; d=0; cur=''; instr=False; i=0
    while i<len(s):
        c=s[i]
        if c=='"' and (i==0 or s[i-1]!='\\'): instr=not instr
        if not instr:
            if c in '([{': d+=1
            elif c in ')]}': d-=1
            elif c=='<' : 
                d+=1
            elif c=='>' :
                if i>0 and s[i-1]=='-': pass
                else: d-=1
            elif c==sep and d==0:
                out.append(cur.strip()); cur=''; i+=1; continue
        cur+=c; i+=1
    if cur.strip(): out.append(cur.strip())
    return out

# ---------- places
class Place:
    def __init__(s, local, proj=()): s.local=local; s.proj=tuple(proj)
    def __repr__(s): return f"P(_{s.local}{''.join(map(str,s.proj))})"

def parse_place(s):
    s=s.strip()
    p,i=_pp(s,0)
    # trailing index projections
    while i<len(s) and s[i]=='[':
        j=s.index(']',i); idx=s[i+1:j]
        p=Place(p.local,p.proj+(('index',idx),)); i=j+1
    assert i==len(s), (s,i)
    return p
def _pp(s,i):
    if s[i]=='_':
        m=re.match(r'_(\d+)',s[i:]); return Place(int(m.group(1))), i+m.end()
    assert s[i]=='(', (s,i)
    if s[i+1]=='*':
        inner,j=_pp(s,i+2)
        assert s[j]==')',(s,j)
        return Place(inner.local, inner.proj+(('deref',),)), j+1
    inner,j=_pp(s,i+1)
    while s[j]=='[':
        k=s.index(']',j); inner=Place(inner.local,inner.proj+(('index',s[j+1:k]),)); j=k+1
    if s.startswith(' as ',j):
        k=s.index(')',j)
        return Place(inner.local, inner.proj+(('downcast',s[j+4:k]),)), k+1
    assert s[j]=='.',(s,j)
    m=re.match(r'\.(\d+): ',s[j:])
    fld=int(m.group(1)); k=j+m.end()
    # type runs to matching ')'
    d=1; t=k
    while True:
        c=s[t]
        if c=='(': d+=1
        elif c==')':
            d-=1
            if d==0: break
        t+=1
    return Place(inner.local, inner.proj+(('field',fld,s[k:t]),)), t+1

# ---------- operands / rvalues
def parse_operand(s):
    s=s.strip()
    if s.startswith('copy '): return ('copy',parse_place(s[5:]))
    if s.startswith('move '): return ('move',parse_place(s[5:]))
    if s.startswith('no_retag copy '): return ('copy',parse_place(s[14:]))
    if s.startswith('const '): return ('const',s[6:])
    return ('const',s)  # bare fn item or literal

BINOPS={'Add','Sub','Mul','Div','Rem','BitXor','BitAnd','BitOr','Shl','Shr','Eq','Lt','Le','Ne','Ge','Gt','Cmp','Offset',
        'AddWithOverflow','SubWithOverflow','MulWithOverflow','AddUnchecked','SubUnchecked','MulUnchecked','ShlUnchecked','ShrUnchecked'}
UNOPS={'Not','Neg','PtrMetadata'}
def parse_rvalue(s):
    s=s.strip()
    if s.startswith('&raw const (fake) '): return ('rawref',False,parse_place(s[18:]))
    if s.startswith('&raw const '): return ('rawref',False,parse_place(s[11:]))
    if s.startswith('&raw mut '): return ('rawref',True,parse_place(s[9:]))
    if s.startswith('&mut '): return ('ref',True,parse_place(s[5:]))
    if s.startswith('&/*tls*/ '): return ('tlsref',s[9:])
    if s.startswith('&'): 
        r=s[1:].strip()
        if r.startswith('fake '): r=r.split(' ',2)[2]
        return ('ref',False,parse_place(r))
    if s.startswith('discriminant('): return ('discr',parse_place(s[13:-1]))
    if s.startswith('deref_copy '): return ('use',('copy',parse_place(s[11:])))
    if s.startswith('Len('): return ('len',parse_place(s[4:-1]))
    m=re.match(r'^([A-Za-z]+)\((.*)\)$',s)
    if m and m.group(1) in BINOPS:
        a,b=split_top(m.group(2)); return ('binop',m.group(1),parse_operand(a),parse_operand(b))
    if m and m.group(1) in UNOPS:
        return ('unop',m.group(1),parse_operand(m.group(2)))
    m=re.match(r'^((?:copy|move|const) .*) as (.*) \((\w+)(?:\(.*\))?(?:, \w+)?\)$',s)
    if m: return ('cast',m.group(3),parse_operand(m.group(1)),m.group(2))
    # a function item reified into a function pointer: `path::f as fn(..) -> T (PointerCoercion(ReifyFnPointer(Safe), Implicit))`
    m=re.match(r'^(.*?) as ((?:for<[^>]*> )?(?:unsafe )?(?:extern "[^"]*" )?fn\(.*) \((PointerCoercion)\(.*\)(?:, \w+)?\)$',s)
    if m: return ('cast',m.group(3),parse_operand(m.group(1)),m.group(2))
    if s.startswith(('copy ','move ','const ','no_retag copy ')): return ('use',parse_operand(s))
    # aggregates
    if s.startswith('[') and s.endswith(']'):
        inner=s[1:-1]
        if '; ' in inner and not inner.startswith(('copy','move')) or re.search(r'; [^,]*$',inner) and len(split_top(inner))==1 and ';' in inner:
            a,n=inner.rsplit('; ',1); return ('repeat',parse_operand(a),n)
        return ('agg','array',None,[parse_operand(x) for x in split_top(inner)])
    if s.startswith('(') and s.endswith(')'):
        return ('agg','tuple',None,[parse_operand(x) for x in split_top(s[1:-1])])
    # closure / coroutine aggregate:  {closure@..} { a: move _1 }   or bare {closure@...}
    m=re.match(r'^(\{(?:closure|coroutine|async block|async fn body)[^}]*\})(?: \{ (.*) \})?$',s)
    if m:
        flds=[] 
        if m.group(2):
            for f in split_top(m.group(2)):
                n,v=f.split(': ',1); flds.append((n,parse_operand(v)))
        return ('agg','closure',m.group(1),flds)
    # struct  Path { f: op, .. }
    m=re.match(r'^(.*?) \{ (.*) \}$',s)
    if m and not m.group(1).startswith(('copy','move','const')):
        flds=[]
        for f in split_top(m.group(2)):
            n,v=f.split(': ',1); flds.append((n,parse_operand(v)))
        return ('agg','struct',m.group(1),flds)
    # tuple-variant  Path::Variant(op, ..)
    if s.endswith(')'):
        i=match_paren_back(s,len(s)-1)
        return ('agg','variant',s[:i],[parse_operand(x) for x in split_top(s[i+1:-1])])
    # unit variant / unit struct
    if re.match(r'^[A-Za-z_][\w:<>, &\'\[\];()]*$',s): return ('agg','variant',s,[])
    raise ValueError('rvalue? '+s)

def parse_targets(t):
    # "[return: bb1, unwind: bb2]" / "[0: bb1, otherwise: bb3]" / "unwind continue" / "bb3"
    t=t.strip()
    if t.startswith('['):
        d={}
        for part in split_top(t[1:-1]):
            if ': ' in part:
                k,v=part.split(': ',1); d[k.strip()]=v.strip()
            else:
                k,v=part.split(' ',1); d[k.strip()]=v.strip()
        return d
    return {'_':t}

def parse_stmt(s):
    s=s.strip()
    assert s.endswith(';'),s
    s=s[:-1]
    if s in('return','unreachable','resume','ConstEvalCounter','nop','coroutine_drop','terminate(cleanup)','terminate(abi)'): return (s,)
    if s.startswith(('StorageLive(','StorageDead(','Retag(','PlaceMention(','FakeRead(','Deinit(','Coverage','AscribeUserType','BackwardIncompatibleDropHint')): return ('nop',)
    if s.startswith('goto -> '): return ('goto',s[8:])
    if s.startswith('switchInt('):
        head,t=s.rsplit(' -> ',1)
        return ('switch',parse_operand(head[10:-1]),parse_targets(t))
    if s.startswith('drop('):
        head,t=s.split(' -> ',1)
        return ('drop',parse_place(head[5:-1]),parse_targets(t))
    if s.startswith('assert('):
        head,t=s.rsplit(' -> ',1)
        inner=head[7:-1]; parts=split_top(inner)
        c=parts[0]; neg=c.startswith('!')
        return ('assert',neg,parse_operand(c.lstrip('!')),parts[1] if len(parts)>1 else '',parse_targets(t))
    if s.startswith('falseEdge') or s.startswith('falseUnwind'):
        return ('goto',re.search(r'real: (bb\d+)',s).group(1))
    m=re.match(r'^discriminant\((.*)\) = (\d+)$',s)
    if m: return ('setdiscr',parse_place(m.group(1)),int(m.group(2)))
    # call or assign
    if ' -> [' in s or s.endswith(' -> unwind continue') or re.search(r' -> (unwind [a-z()]+|bb\d+)$',s):
        head,t=s.rsplit(' -> ',1)
        if ' = ' in head and re.match(r'^[_(]',head):
            dest,call=head.split(' = ',1); dest=parse_place(dest)
        else: dest=None; call=head
        i=match_paren_back(call,len(call)-1)
        func=call[:i]; args=[parse_operand(a) for a in split_top(call[i+1:-1])]
        return ('call',dest,func,args,parse_targets(t))
    dest,rv=s.split(' = ',1)
    return ('assign',parse_place(dest),parse_rvalue(rv))

def parse_file(path):
    items={}; allocs={}
    lines=open(path).read().split('\n')
    i=0; n=len(lines)
    cur=None
    while i<n:
        l=lines[i]
        m=re.match(r'^(fn|static|static mut|const) (.*) \{$',l) if l and not l.startswith((' ','/','}')) else None
        if m and not l.startswith('alloc'):
            kind=m.group(1); sig=m.group(2)
            if kind=='fn':
                j=match_paren_back(sig, sig.rindex(') -> ') if ') -> ' in sig else len(sig)-1)
                name=sig[:j]; args=sig[j+1: (sig.rindex(') -> ') if ') -> ' in sig else len(sig)-1)]
                ret=sig[sig.rindex(') -> ')+5:] if ') -> ' in sig else '()'
                f=Fn(name,'fn'); f.ret=ret
                for a in split_top(args):
                    mm=re.match(r'(?:mut )?_(\d+): (.*)$',a)
                    f.args.append(int(mm.group(1))); f.locals[int(mm.group(1))]=Local(int(mm.group(1)),mm.group(2))
            else:
                masked=re.sub(r'<impl at [^>]*>', lambda m_: 'X'*len(m_.group(0)), sig)
                cut=masked.index(': ')
                name,rest=sig[:cut],sig[cut+2:]; ty=rest.rsplit(' = ',1)[0]
                f=Fn(name,kind); f.ret=ty
            i+=1; blk=None; start=i
            while i<n and lines[i]!='}':
                s=lines[i].strip()
                mm=re.match(r'^let (mut )?_(\d+): (.*);$',s)
                if mm: f.locals[int(mm.group(2))]=Local(int(mm.group(2)),mm.group(3),bool(mm.group(1)))
                elif s.startswith('debug '):
                    mm=re.match(r'^debug (\S+) => (.*);$',s)
                    if mm: f.debug[mm.group(1)]=mm.group(2)
                elif re.match(r'^bb\d+( \(cleanup\))?: \{$',s):
                    blk=s.split(':')[0].split(' ')[0]; f.blocks[blk]=[]
                    if '(cleanup)' in s: f.cleanup.add(blk)
                elif s=='}' : 
                    if lines[i].startswith('    }') and len(lines[i])==5: blk=None
                elif blk is not None and s and not s.startswith('//'):
                    try: f.blocks[blk].append((i+1,parse_stmt(s)))
                    except Exception as e:
                        f.parse_error=f'line {i+1}: {s[:120]} ({type(e).__name__}: {e})'
                        f.blocks[blk].append((i+1,('unparsed',s)))
                i+=1
            f.text_lines=(start,i)
            items.setdefault((f.kind,f.name),f)
            if f.kind!='fn' or True: items[f.name if f.kind=='fn' else f.kind+' '+f.name]=f
        elif l.startswith('alloc'):
            m=re.match(r'^(alloc\d+) \((.*)\) \{$',l)
            if m:
                body=[]; i+=1
                while i<n and lines[i]!='}': body.append(lines[i]); i+=1
                hexs=[]
                for b in body:
                    b=b.split('│')
                    part=b[1] if len(b)==3 else b[0]
                    hexs+= [x for x in part.split() if re.match(r'^[0-9a-f]{2}$|^__$',x)]
                allocs[m.group(1)]=(m.group(2),hexs)
        i+=1
    return items,allocs

if __name__=='__main__':
    import collections
    items,allocs=parse_file(sys.argv[1])
    fns=[v for k,v in items.items() if isinstance(k,str)]
    print(len(fns),'items',len(allocs),'allocs')
    kinds=collections.Counter()
    for f in fns:
        for b,sts in f.blocks.items():
            for ln,st in sts:
                kinds[st[0]+(':'+st[2][0] if st[0]=='assign' else '')]+=1
    print(dict(kinds))
