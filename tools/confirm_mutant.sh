#!/bin/sh
# confirm_mutant.sh <worktree> <cargo -p package> <test target name>
# Confirms: (1) existing suite passes with the change (only the demo target may fail), (2) demo fails with the change,
# (3) demo passes without the change.  Leaves the worktree with the change applied.
WT=$1; PKG=$2; T=$3
cd "$WT" || exit 2
export CARGO_NET_OFFLINE=true CARGO_TARGET_DIR="$WT/target"
git apply --check -R _mutant/patch.diff 2>/dev/null || { echo "patch not applied in worktree"; exit 2; }
echo "== suite with change"
cargo test --workspace --no-fail-fast --offline 2>&1 | grep -E "^test result|FAILED|failed|error(\[|:)" | sort | uniq -c | sort -rn | head -12
echo "== demo with change (expected to FAIL)"
cargo test --offline -p "$PKG" --test "$T" 2>&1 | grep -E "^test result|panicked" | head -5
git apply -R _mutant/patch.diff
echo "== demo without change (expected to PASS)"
cargo test --offline -p "$PKG" --test "$T" 2>&1 | grep -E "^test result|panicked" | head -5
git apply _mutant/patch.diff
