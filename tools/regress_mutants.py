#!/usr/bin/env python3
"""Applies every seeded change of /verif/seeded to /repo in turn (undoing it straight afterwards), runs the checks named in
its meta.json and prints one line per (change, check): exit status and whether a VIOLATION was reported."""
import json, os, subprocess, sys, glob
os.chdir('/verif')
only = sys.argv[1:]
rows = []
for d in sorted(glob.glob('seeded/m*')):
    name = os.path.basename(d)
    if only and not any(o in name for o in only): continue
    meta = json.load(open(os.path.join(d, 'meta.json')))
    patch = os.path.abspath(os.path.join(d, 'patch.diff'))
    if subprocess.run(['git', '-C', '/repo', 'apply', '--check', patch], capture_output=True).returncode != 0:
        rows.append((name, '-', 'patch no longer applies to the repaired tree')); print(rows[-1], flush=True); continue
    subprocess.run(['git', '-C', '/repo', 'apply', patch], check=True)
    try:
        for c in meta['reported_by']:
            p = subprocess.run(['./check', c, '--tier', 'quick'], capture_output=True, text=True)
            nv = p.stdout.count('\nVIOLATION') + (1 if p.stdout.startswith('VIOLATION') else 0)
            rows.append((name, c, f'exit {p.returncode}, {nv} VIOLATION line(s)')); print(rows[-1], flush=True)
    finally:
        subprocess.run(['git', '-C', '/repo', 'checkout', '--', '.'], check=True)
bad = [r for r in rows if r[1] != '-' and not r[2].startswith('exit 1')]
print('MISSED:' if bad else 'all applicable seeded changes are reported', bad)
