#!/usr/bin/env python3
"""Generates src/gen.rs (the corpus of decorated functions) and subjects.json (the intended
configuration of each subject, used as the oracle of C19 and to pick subjects for the
wrapper-level VCs).  Deterministic; the two outputs are committed."""
import json, os, sys, re

POL = ['fifo', 'lru', 'lfu', 'arc', 'random', 'tlru']
S = []          # subject records
_id = [100]


def mem_bytes(m):
    if m is None: return None
    if isinstance(m, int): return m
    u = m.upper()
    for suf, k in (('GB', 1024 ** 3), ('MB', 1024 ** 2), ('KB', 1024)):
        if u.endswith(suf): return int(u[:-2]) * k
    return int(u)


def add(name, flav, *, policy=None, limit=None, ttl=None, mem=None, fw=None, cname=None, tags=(), events=(), deps=(),
        inv=False, cif=False, ret='u64', args=(('a', 'u64'),), recv=None, gates=0, body=None, group='cfg', fw_lit=None, rev=False, via_macro=False, mem_lit=None):
    """flav: G (sync global), T (sync thread), A (async)"""
    _id[0] += 1
    sid = _id[0]
    attrs = []
    if flav == 'T': attrs.append('scope = "thread"')
    if limit is not None: attrs.append(f'limit = {limit}')
    if policy is not None: attrs.append(f'policy = "{policy}"')
    if ttl is not None: attrs.append(f'ttl = {ttl}')
    if mem is not None: attrs.append(f'max_memory = {mem_lit if mem_lit is not None else (json.dumps(mem) if isinstance(mem, str) else mem)}')
    if fw is not None: attrs.append(f'frequency_weight = {fw_lit if fw_lit is not None else repr(float(fw))}')
    if cname is not None: attrs.append(f'name = "{cname}"')
    if tags: attrs.append('tags = [' + ', '.join(json.dumps(t) for t in tags) + ']')
    if events: attrs.append('events = [' + ', '.join(json.dumps(t) for t in events) + ']')
    if deps: attrs.append('dependencies = [' + ', '.join(json.dumps(t) for t in deps) + ']')
    if inv: attrs.append(f'invalidate_on = stale_{name}')
    if cif: attrs.append(f'cache_if = pred_{name}')
    if rev: attrs.reverse()          # the same attribute list written in the opposite order
    is_res = ret.replace(' ', '').startswith(('Result<', 'std::result::Result<'))
    default_pol = 'fifo'
    rec = dict(name=name, id=sid, flavour=flav, macro='cache_async' if flav == 'A' else 'cache', attrs=attrs, group=group,
               intended=dict(limit=limit, policy=(policy or default_pol).upper() if (policy or default_pol) != 'random' else 'Random',
                             ttl=ttl, max_memory=mem_bytes(mem), frequency_weight=(float(fw) if fw is not None else None),
                             cache_name=cname or name, tags=list(tags), events=list(events), dependencies=list(deps),
                             invalidate_on=inv, cache_if=cif, result=is_res),
               ret=ret, args=[list(a) for a in args], recv=recv, gates=gates, body=body, via_macro=via_macro)
    S.append(rec)
    return rec


def render(r):
    name, sid = r['name'], r['id']
    out = []
    ret = r['ret']
    valty = ret
    if r['intended']['invalidate_on']:
        fn = {'u64': 'stale'}.get(valty, 'stale')
        out.append(f'pub fn stale_{name}(key: &String, v: &{valty}) -> bool {{ env::{fn}({sid}, key, v) }}')
    if r['intended']['cache_if']:
        fn = 'pred_res' if r['intended']['result'] else 'pred'
        out.append(f'pub fn pred_{name}(key: &String, v: &{valty}) -> bool {{ env::{fn}({sid}, key, v) }}')
    params = []
    if r['recv']: params.append(r['recv'])
    params += [f'{a}: {t}' for a, t in r['args']]
    # body expression
    intargs = [a for a, t in r['args'] if t in ('u64',)]
    if r['body']:
        body = r['body'].replace('{id}', str(sid))
    else:
        allint = len(intargs) == len(r['args']) and not r['recv']
        if r['intended']['result']:
            assert allint and len(intargs) == 1
            body = f'env::body_res({sid}, {intargs[0]})'
        elif ret == 'String':
            body = f'env::body_str({sid}, {intargs[0]})'
        elif allint and len(intargs) == 1: body = f'env::body({sid}, a)'
        elif allint and len(intargs) == 0: body = f'env::body({sid}, 0)'
        elif allint and len(intargs) == 2: body = f'env::body2({sid}, {intargs[0]}, {intargs[1]})'
        elif allint and len(intargs) == 3: body = f'env::body3({sid}, {intargs[0]}, {intargs[1]}, {intargs[2]})'
        else: body = f'env::body_any({sid})'
    gates = ''.join(f'env::gate({sid * 10 + g}).await; ' for g in range(r['gates']))
    attr = ', '.join(r['attrs'])
    mac = f'#[{r["macro"]}({attr})]' if attr else f'#[{r["macro"]}]'
    asy = 'async ' if r['flavour'] == 'A' else ''
    if r.get('via_macro'):
        # the item is produced by a macro_rules! macro whose fragments (`$ret:ty`, `$t:ty`) reach the attribute macro wrapped in invisible groups
        out.append(f'mk_item! {{ {mac} pub {asy}fn {name}({", ".join(params)}) -> {ret} {{ {gates}{body} }} }}')
        return out
    out.append(mac)
    out.append(f'pub {asy}fn {name}({", ".join(params)}) -> {ret} {{ {gates}{body} }}')
    return out


def main():
    # ---- configuration product: every flavour x policy, with limit 2
    for f in 'GTA':
        for p in POL:
            add(f'{f.lower()}_{p}_l2', f, policy=p, limit=2)
    # ---- defaults / no limit
    for f in 'GTA':
        add(f'{f.lower()}_plain', f, group='plain')
        add(f'{f.lower()}_lru_nolimit', f, policy='lru')
    # ---- ttl
    for f in 'GTA':
        add(f'{f.lower()}_ttl5_lru_l2', f, policy='lru', limit=2, ttl=5)
        add(f'{f.lower()}_ttl1', f, ttl=1)
        add(f'{f.lower()}_ttl60_fifo_l3', f, policy='fifo', limit=3, ttl=60)
        add(f'{f.lower()}_tlru_ttl10_w15_l2', f, policy='tlru', limit=2, ttl=10, fw=1.5)
        add(f'{f.lower()}_tlru_w03_l2', f, policy='tlru', limit=2, fw=0.3)
        add(f'{f.lower()}_tlru_ttl7_wint2_l3', f, policy='tlru', limit=3, ttl=7, fw=2, fw_lit='2')
        add(f'{f.lower()}_arc_ttl9_l3', f, policy='arc', limit=3, ttl=9)
    add('g_tlru_w01_l2', 'G', policy='tlru', limit=2, fw=0.1)
    add('a_tlru_w3_l2', 'A', policy='tlru', limit=2, fw=3.0)
    add('a_tlru_w1_l2', 'A', policy='tlru', limit=2, fw=1.0)
    # ---- max_memory
    for f in 'GTA':
        add(f'{f.lower()}_mem1kb', f, mem='1KB', group='mem')
        add(f'{f.lower()}_mem2mb_lru_l2', f, policy='lru', limit=2, mem='2MB', group='mem')
        add(f'{f.lower()}_mem512_lfu', f, policy='lfu', mem=512, group='mem')
        add(f'{f.lower()}_mem4096s_arc_l3', f, policy='arc', limit=3, mem='4096', group='mem')
        add(f'{f.lower()}_mem_str_lru', f, policy='lru', mem='1kb', ret='String', group='mem')
    add('g_mem1gb_random_l2', 'G', policy='random', limit=2, mem='1GB', group='mem')
    add('a_mem_lru_nolimit', 'A', policy='lru', mem='1KB', group='mem')
    add('a_mem_tlru_ttl4', 'A', policy='tlru', mem='3KB', ttl=4, group='mem')
    add('t_mem_tlru_ttl4_l2', 'T', policy='tlru', mem='3KB', ttl=4, limit=2, group='mem')
    # ---- other spellings of the same byte count (integer literals with separators / radix / suffix, lower-case units)
    add('g_mem_lit_us', 'G', mem=1048576, mem_lit='1_048_576', group='mem')
    add('a_mem_lit_us', 'A', mem=1048576, mem_lit='1_048_576', policy='lru', group='mem')
    add('t_mem_lit_hex', 'T', mem=4096, mem_lit='0x1000', group='mem')
    add('g_mem_lit_usize', 'G', mem=4096, mem_lit='4096usize', limit=2, group='mem')
    add('a_mem_lit_gb', 'A', mem='2gb', group='mem')
    # ---- Result
    for f in 'GTA':
        add(f'{f.lower()}_res', f, ret='Result<u64, u8>', group='res')
        add(f'{f.lower()}_res_std', f, ret='std::result::Result<u64, u8>', group='res')
        add(f'{f.lower()}_res_mem_l2', f, ret='Result<u64, u8>', limit=2, mem='1KB', policy='lru', group='res')
        add(f'{f.lower()}_res_std_mem', f, ret='std::result::Result<u64, u8>', mem='1KB', group='res')
        add(f'{f.lower()}_res_lfu_l2', f, ret='Result<u64, u8>', limit=2, policy='lfu', group='res')
    # ---- a memory budget that the value fits into but the value plus per-entry bookkeeping would not
    for f in 'GTA':
        add(f'{f.lower()}_res_mem32', f, ret='Result<u64, u8>', mem=32, group='res')
        add(f'{f.lower()}_mem8', f, mem=8, group='mem')
        add(f'{f.lower()}_mem16_lru_l2', f, mem=16, limit=2, policy='lru', group='mem')
    # ---- cache_if
    for f in 'GTA':
        add(f'{f.lower()}_cif', f, cif=True, group='cif')
        add(f'{f.lower()}_cif_l2_lru', f, cif=True, limit=2, policy='lru', group='cif')
        add(f'{f.lower()}_cif_mem', f, cif=True, mem='1KB', group='cif')
        add(f'{f.lower()}_cif_res', f, cif=True, ret='Result<u64, u8>', group='cif')
        add(f'{f.lower()}_cif_res_mem_l2', f, cif=True, ret='Result<u64, u8>', mem='1KB', limit=2, group='cif')
    # ---- invalidate_on
    for f in 'GTA':
        add(f'{f.lower()}_inv', f, inv=True, group='inv')
        add(f'{f.lower()}_inv_l2_lru', f, inv=True, limit=2, policy='lru', group='inv')
        add(f'{f.lower()}_inv_mem', f, inv=True, mem='1KB', group='inv')
        add(f'{f.lower()}_inv_cif', f, inv=True, cif=True, group='inv')
    for f in 'GTA':
        add(f'{f.lower()}_inv_fifo_l2', f, inv=True, limit=2, policy='fifo', group='inv')
        add(f'{f.lower()}_inv_lru_l1', f, inv=True, limit=1, policy='lru', group='inv')
        add(f'{f.lower()}_res_ttl1', f, ret='Result<u64, u8>', ttl=1, group='res')
        add(f'{f.lower()}_cif_ttl1_l2', f, cif=True, ttl=1, limit=2, policy='lru', group='cif')
    # ---- invalidation metadata layouts (sync + async mixed)
    add('g_tag1', 'G', tags=['t1'], limit=2, policy='lru', group='meta')
    add('g_tag12', 'G', tags=['t1', 't2'], limit=3, group='meta')
    add('g_ev1', 'G', events=['e1'], group='meta')
    add('g_ev_t1', 'G', events=['t1'], group='meta')                     # a name that is a tag elsewhere and an event here
    add('a_dep_tag2', 'A', deps=['g_tag1'], tags=['t2'], group='meta')
    add('a_tag1_ev1', 'A', tags=['t1'], events=['e1'], limit=2, policy='lfu', group='meta')
    add('g_named', 'G', cname='custom_g', tags=['t3'], group='meta')
    add('a_named', 'A', cname='custom_a', deps=['custom_g'], group='meta')
    add('g_nometa', 'G', group='meta')
    add('a_nometa', 'A', group='meta')
    add('g_named_nometa', 'G', cname='other_name', limit=2, group='meta')
    add('t_tag1', 'T', tags=['t1'], group='meta')
    # used caches whose calls may all end without a store (Err outcome / rejected by cache_if): they are registered all the same
    add('a_res_tag1', 'A', tags=['t1'], ret='Result<u64, u8>', group='meta2')
    add('g_res_tag1', 'G', tags=['t1'], ret='Result<u64, u8>', group='meta2')
    add('a_cif_ev1', 'A', events=['e1'], cif=True, group='meta2')
    add('g_cif_ev1', 'G', events=['e1'], cif=True, group='meta2')
    add('a_res_dep', 'A', deps=['g_tag1'], ret='Result<u64, u8>', cname='res_dep_a', group='meta2')
    # memory-bounded caches without an entry limit (they evict too) for invalidation followed by memory pressure
    for f in 'GA':
        add(f'{f.lower()}_mem32_arc', f, policy='arc', mem=32, group='mem')
        add(f'{f.lower()}_mem32_tlru', f, policy='tlru', mem=32, group='mem')
    # ---- signature shapes
    add('g_arity0', 'G', args=(), group='sig')
    add('a_arity0', 'A', args=(), group='sig')
    add('g_arity2', 'G', args=(('a', 'u64'), ('b', 'u64')), group='sig')
    add('t_arity2', 'T', args=(('a', 'u64'), ('b', 'u64')), limit=2, policy='lru', group='sig')
    add('a_arity2', 'A', args=(('a', 'u64'), ('b', 'u64')), group='sig')
    add('g_arity3', 'G', args=(('a', 'u64'), ('b', 'u64'), ('c', 'u64')), group='sig')
    add('a_arity3', 'A', args=(('a', 'u64'), ('b', 'u64'), ('c', 'u64')), group='sig')
    add('g_arity4', 'G', args=(('a', 'u64'), ('b', 'u32'), ('c', 'bool'), ('d', 'char')), group='sig')
    add('a_arity4', 'A', args=(('a', 'u64'), ('b', 'u32'), ('c', 'bool'), ('d', 'char')), group='sig')
    # key shapes for C02 (body value irrelevant)
    shapes = {
        'u8u8': (('a', 'u8'), ('b', 'u8')), 'u32u32': (('a', 'u32'), ('b', 'u32')), 'i32i32': (('a', 'i32'), ('b', 'i32')),
        'i64u16': (('a', 'i64'), ('b', 'u16')),
        'strstr': (('a', 'String'), ('b', 'String')), 'refstr2': (('a', '&str'), ('b', '&str')), 'stru32': (('a', 'String'), ('b', 'u32')),
        'charchar': (('a', 'char'), ('b', 'char')), 'boolbool': (('a', 'bool'), ('b', 'bool')), 'charstr': (('a', 'char'), ('b', 'String')),
        'tupu32': (('a', '(u32, u32)'), ('b', 'u32')), 'optu32': (('a', 'Option<u32>'), ('b', 'u32')), 'vecu32': (('a', 'Vec<u32>'), ('b', 'u32')),
        'optstr': (('a', 'Option<String>'), ('b', 'String')), 'vecstr': (('a', 'Vec<String>'), ('b', 'String')),
        'u32x3': (('a', 'u32'), ('b', 'u32'), ('c', 'u32')), 'strx3': (('a', 'String'), ('b', 'String'), ('c', 'String')),
        'f64f64': (('a', 'f64'), ('b', 'f64')), 'pt': (('p', 'Pt'), ('b', 'u32')), 'one_str': (('a', 'String'),), 'one_u32': (('a', 'u32'),),
        'slice': (('a', "&'static [u32]"), ('b', 'u32')),
        # Option nesting, and an Option around a user enum that has a variant called `None`
        'optopt': (('a', 'Option<Option<u32>>'), ('b', 'u32')), 'optmaybe': (('a', 'Option<Maybe>'), ('b', 'u32')), 'opttup': (('a', 'Option<(u32, u32)>'),),
        'u32x5': (('a', 'u32'), ('b', 'u32'), ('c', 'u32'), ('d', 'u32'), ('e', 'u32')),
        'tup1': (('a', '(u32,)'), ('b', 'u32')), 'tup3': (('a', '(u32, u32, u32)'),), 'tup4': (('a', '(i32, i32, i32, i32)'), ('b', 'u32')),
        'tup5': (('a', '(u32, u32, u32, u32, u32)'),), 'tup5b': (('a', 'u32'), ('t', '(u32, u32, u32, u32, u32)')),
        # destructured parameters: the pattern is what the macro sees
        'pat2': (('(a, b)', '(u64, u64)'), ('c', 'u64')), 'pat3': (('x', 'u32'), ('(a, b, c)', '(u32, u32, u32)')),
    }
    for k, a in shapes.items():
        add(f'gk_{k}', 'G', args=a, group='key')
        add(f'ak_{k}', 'A', args=a, group='key')
    add('tk_strstr', 'T', args=shapes['strstr'], group='key')
    # ---- bodies that leave through an explicit `return` (the wrapper must still see the result)
    RET = 'if a % 2 == 0 {{ return env::body({id}, a); }} env::body({id}, a)'.replace('{{', '{').replace('}}', '}')
    RETRES = 'if a % 2 == 0 {{ return env::body_res({id}, a); }} env::body_res({id}, a)'.replace('{{', '{').replace('}}', '}')
    for f in 'GTA':
        add(f'{f.lower()}_ret_early', f, body=RET, group='plain')
        add(f'{f.lower()}_ret_cif', f, cif=True, body=RET, group='cif')
        add(f'{f.lower()}_ret_res', f, ret='Result<u64, u8>', body=RETRES, group='res')
        add(f'{f.lower()}_ret_inv', f, inv=True, body=RET, group='inv')
    # ---- items produced by macro_rules! (types arrive as `$t:ty` fragments)
    for f in 'GTA':
        add(f'{f.lower()}_mr_plain', f, via_macro=True, group='plain')
        add(f'{f.lower()}_mr_res', f, ret='Result<u64, u8>', via_macro=True, group='res')
        add(f'{f.lower()}_mr_res_std_mem_l2', f, ret='std::result::Result<u64, u8>', mem='1KB', limit=2, policy='lru', via_macro=True, group='res')
        add(f'{f.lower()}_mr_cif_res', f, cif=True, ret='Result<u64, u8>', via_macro=True, group='cif')
    # ---- short lifetimes for invalidation of entries that have expired but were not looked up again
    for f in 'GA':
        add(f'{f.lower()}_ttl1_lru_l3', f, policy='lru', limit=3, ttl=1, group='cfg')
    # ---- larger limits for invalidation followed by overflows
    for f in 'GA':
        add(f'{f.lower()}_arc_l4', f, policy='arc', limit=4, group='cfg')
        add(f'{f.lower()}_tlru_l4', f, policy='tlru', limit=4, group='cfg')
        add(f'{f.lower()}_lfu_l4', f, policy='lfu', limit=4, group='cfg')
    # ---- attribute order must not matter: reversed twins
    for f in 'GTA':
        add(f'{f.lower()}_rev_tlru_ttl10_w15_l2', f, policy='tlru', limit=2, ttl=10, fw=1.5, rev=True, group='cfg')
        add(f'{f.lower()}_rev_tlru_w03_l2', f, policy='tlru', limit=2, fw=0.3, rev=True, group='cfg')
        add(f'{f.lower()}_rev_mem2mb_lru_l2', f, policy='lru', limit=2, mem='2MB', rev=True, group='mem')
        add(f'{f.lower()}_rev_cif_res_mem_l2', f, cif=True, ret='Result<u64, u8>', mem='1KB', limit=2, rev=True, group='cif')
        add(f'{f.lower()}_rev_inv_l2_lru', f, inv=True, limit=2, policy='lru', rev=True, group='inv')
    add('g_rev_named_tag', 'G', cname='rev_custom', tags=['t9'], limit=3, policy='arc', ttl=9, rev=True, group='meta')
    add('a_rev_named_dep', 'A', cname='rev_custom_a', deps=['rev_custom'], events=['e9'], limit=3, policy='lfu', rev=True, group='meta')
    # ---- async bodies with await points
    add('a_gate1', 'A', gates=1, group='gate')
    add('a_gate2_lru_l2', 'A', gates=2, policy='lru', limit=2, group='gate')
    add('a_gate3_ttl5', 'A', gates=3, ttl=5, group='gate')
    add('a_gate1_arc_l2_ttl9', 'A', gates=1, policy='arc', limit=2, ttl=9, group='gate')
    add('a_gate1_mem', 'A', gates=1, mem='1KB', policy='lfu', group='gate')
    add('a_gate1_tag1', 'A', gates=1, tags=['t1'], group='gate')
    add('a_gate1_res', 'A', gates=1, ret='Result<u64, u8>', group='gate')
    add('a_gate1_inv', 'A', gates=1, inv=True, group='gate')
    add('a_gate2_inv_cif_l2', 'A', gates=2, inv=True, cif=True, limit=2, policy='lru', group='gate')

    lines = ['// @generated by gen_subjects.py -- do not edit', '']
    lines += ['macro_rules! mk_item {',
              '    ($(#[$m:meta])* $v:vis fn $name:ident ($($a:ident : $t:ty),*) -> $ret:ty { $($body:tt)* }) => { $(#[$m])* $v fn $name($($a: $t),*) -> $ret { $($body)* } };',
              '    ($(#[$m:meta])* $v:vis async fn $name:ident ($($a:ident : $t:ty),*) -> $ret:ty { $($body:tt)* }) => { $(#[$m])* $v async fn $name($($a: $t),*) -> $ret { $($body)* } };',
              '}', '']
    lines += ['#[derive(Debug, Clone, PartialEq)]', 'pub struct Pt { pub x: u32, pub y: u32 }', 'impl cachelito_core::DefaultCacheableKey for Pt {}', '']
    for r in S:
        lines += render(r) + ['']
    # methods
    meth = []
    for (nm, flav, recv, args, kw) in [
        ('m_ref', 'G', '&self', (('a', 'u64'),), dict(limit=3)),
        ('m_ref0', 'G', '&self', (), {}),
        ('m_thread', 'T', '&self', (('a', 'u64'),), dict(limit=2, policy='lru')),
        ('m_async', 'A', '&self', (('a', 'u64'),), dict(limit=2, policy='lru')),
        ('m_async0', 'A', '&self', (), {}),
        ('m_ref2', 'G', '&self', (('a', 'String'), ('b', 'String')), {}),
    ]:
        r = add(nm, flav, args=args, recv=recv, group='method', body='env::body2({id}, self.id as u64, %s)' % ('a' if args and args[0][1] == 'u64' else '0'), **kw)
        meth += ['    ' + l for l in render(r)]
    lines += ['#[derive(Debug, Clone, PartialEq)]', 'pub struct Svc { pub id: u32 }', 'impl cachelito_core::DefaultCacheableKey for Svc {}', 'impl Svc {'] + meth + ['}', '']
    # ---- methods whose receiver renders without a closing delimiter: unit-like enum variants, built-in keyed receivers (extension trait)
    nodem = []; extm = []; ext_sigs = []
    for (nm, flav, rty, args, kw) in [
        ('n_slot', 'G', 'Node', (('a', 'u64'),), {}), ('n_slot_t', 'T', 'Node', (('a', 'u64'),), {}), ('n_slot_a', 'A', 'Node', (('a', 'u64'),), {}),
        ('n_slot2', 'G', 'Node', (('a', 'u64'), ('b', 'String')), {}),
        ('x_ext', 'G', 'u32', (('a', 'u64'),), {}), ('x_ext_t', 'T', 'u32', (('a', 'u64'),), dict(limit=2, policy='lru')), ('x_ext2', 'G', 'u32', (('a', 'u64'), ('b', 'i32')), {}),
    ]:
        r = add(nm, flav, args=args, recv='&self', group='method2', body='env::body2({id}, *self as u64, a)', **kw)
        r['recv_ty'] = rty
        if rty == 'Node': nodem += ['    ' + l for l in render(r)]
        else:
            lines_ = render(r)
            extm += ['    ' + l.replace('pub fn', 'fn').replace('pub async fn', 'async fn') for l in lines_]
            ext_sigs.append('    fn %s(&self, %s) -> %s;' % (nm, ', '.join(f'{a}: {t}' for a, t in args), r['ret']))
    lines += ['#[derive(Debug, Clone, Copy, PartialEq)]', 'pub enum Maybe { None, Just }', 'impl cachelito_core::DefaultCacheableKey for Maybe {}', '']
    lines += ['#[derive(Debug, Clone, Copy, PartialEq)]', 'pub enum Node { Node1, Node11, Node110 }', 'impl cachelito_core::DefaultCacheableKey for Node {}',
              'impl Node { pub fn parse(s: &str) -> Option<Node> { match s { "Node1" => Some(Node::Node1), "Node11" => Some(Node::Node11), "Node110" => Some(Node::Node110), _ => None } } }',
              'impl Node {'] + nodem + ['}', '']
    lines += ['pub trait Ext {'] + ext_sigs + ['}', 'impl Ext for u32 {'] + extm + ['}', '']
    # ---- dispatch tables for the native replay (subjects whose arguments are all u64)
    syn = []; asy = []
    for r in S:
        if any(t != 'u64' for a, t in r['args']) or r['group'] == 'method2': continue
        call = ('Svc { id: recv as u32 }.' if r['recv'] else '') + r['name'] + '(' + ', '.join(f'a[{i}]' for i in range(len(r['args']))) + ')'
        if r['flavour'] == 'A': asy.append(f'        "{r["name"]}" => Some(format!("{{:?}}", {call}.await)),')
        else: syn.append(f'        "{r["name"]}" => Some(format!("{{:?}}", {call})),')
    lines += ['pub fn call_sync(name: &str, recv: u64, a: &[u64]) -> Option<String> {', '    match name {'] + syn + ['        _ => None,', '    }', '}', '']
    lines += ['pub async fn call_async(name: &str, recv: u64, a: Vec<u64>) -> Option<String> {', '    match name {'] + asy + ['        _ => None,', '    }', '}', '']
    # ---- typed dispatch for the key-shape subjects (arguments given as text tokens)
    def conv(t, i):
        return conve(t, f'a[{i}]')
    def conve(t, e):
        """Rust expression of type `t` parsed from the text token `e` (a String / &str expression); None if the type has no native encoding"""
        t = t.strip()
        if t in ('u8', 'u16', 'u32', 'u64', 'usize', 'i8', 'i16', 'i32', 'i64', 'isize', 'bool'): return f'{e}.parse::<{t}>().ok()?'
        if t == 'String': return f'dec(&{e})?'
        if t == '&str': return f'&*Box::leak(dec(&{e})?.into_boxed_str())'
        if t == 'char': return f'dec(&{e})?.chars().next()?'
        if t == 'Maybe': return f'(match &{e}[..] {{ "None" => Maybe::None, "Just" => Maybe::Just, _ => return None }})'
        mv = re.match(r"^(?:Vec<|&'static \[)(u8|u16|u32|u64|usize|i8|i16|i32|i64|isize)[>\]]$", t)
        if mv:
            # v:<e0>,<e1>,... (v: alone = empty)
            body = f'{{ let b_ = {e}.strip_prefix("v:")?.to_string(); if b_.is_empty() {{ Vec::<{mv.group(1)}>::new() }} else {{ b_.split(\',\').map(|x| x.parse::<{mv.group(1)}>().ok()).collect::<Option<Vec<_>>>()? }} }}'
            return body if t.startswith('Vec') else f'&*Box::leak({body}.into_boxed_slice())'
        mo = re.match(r'^Option<(.*)>$', t)
        if mo:
            inner = conve(mo.group(1), 'r_')
            if inner is None: return None
            # o:N = None, o:S:<token of the payload> = Some(payload)
            return f'{{ let s_: String = {e}.to_string(); if s_ == "o:N" {{ None }} else {{ let r_: String = s_.strip_prefix("o:S:")?.to_string(); Some({inner}) }} }}'
        mt = re.match(r'^\(((?:u8|u16|u32|u64|usize|i8|i16|i32|i64|isize)), *((?:\1(?:, *)?)*)\)$', t)
        if mt:
            n_ = t.count(',') + (0 if t.rstrip(')').rstrip().endswith(',') else 1)
            comps = ', '.join(f'p[{j}]' for j in range(n_)) + (',' if n_ == 1 else '')
            return f'{{ let p: Vec<{mt.group(1)}> = {e}.strip_prefix("t:")?.split(\',\').map(|x| x.parse::<{mt.group(1)}>().ok()).collect::<Option<Vec<_>>>()?; if p.len() != {n_} {{ return None; }} ({comps}) }}'
        return None
    ksyn = []; kasy = []
    for r in S:
        if (r['recv'] and r['group'] != 'method2') or not r['args']: continue
        off = 1 if r['recv'] else 0
        cs = [conv(t, i + off) for i, (a, t) in enumerate(r['args'])]
        if any(c is None for c in cs): continue
        call = r['name'] + '(' + ', '.join(cs) + ')'
        if r['recv']: call = ('Node::parse(&a[0])?.' if r['recv_ty'] == 'Node' else 'a[0].parse::<u32>().ok()?.') + call
        if r['flavour'] == 'A': kasy.append(f'        "{r["name"]}" => Some(format!("{{:?}}", {call}.await)),')
        else: ksyn.append(f'        "{r["name"]}" => Some(format!("{{:?}}", {call})),')
    lines += ['fn dec(t: &str) -> Option<String> {', '    let h = t.strip_prefix("s:")?;', '    let mut b = Vec::new(); let mut it = h.split(\'%\').skip(1);',
              '    while let Some(x) = it.next() { b.push(u8::from_str_radix(x, 16).ok()?); }', '    String::from_utf8(b).ok()', '}', '']
    lines += ['pub fn callk_sync(name: &str, a: &[String]) -> Option<String> {', '    match name {'] + ksyn + ['        _ => None,', '    }', '}', '']
    lines += ['pub async fn callk_async(name: &str, a: Vec<String>) -> Option<String> {', '    match name {'] + kasy + ['        _ => None,', '    }', '}', '']
    lines += ['pub fn is_async(name: &str) -> bool {', '    matches!(name, ' + ' | '.join(f'"{r["name"]}"' for r in S if r['flavour'] == 'A') + ')', '}', '']
    here = os.path.dirname(os.path.abspath(__file__))
    open(os.path.join(here, 'src', 'gen.rs'), 'w').write('\n'.join(lines))
    json.dump(S, open(os.path.join(here, 'subjects.json'), 'w'), indent=1)
    print(len(S), 'subjects')


if __name__ == '__main__':
    main()
