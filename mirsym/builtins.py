"""Builtin models of std / parking_lot / once_cell / dashmap / fastrand functions (the trusted base that
replaces library code, DESIGN.md section 2.3).  Each model works on the interpreter heap of engine.py.
`builtin()` is a generator (locks, DashMap calls, atomics and Once are scheduling points)."""
import re
import z3
from .engine import (Agg, Cell, SlotCell, Ref, Str, MapM, SeqM, LockM, GuardM, LazyM, OnceM, IterM, Closure, Coroutine, RefCellM, BorrowM,
                     TlsKey, FnItem, Instant, Duration, Opaque, EnvFn, ArgVal, Unsupported, Panic, Deadlock, unit, some, none, ok, err, tup,
                     load, store, deref, deref_all, clone_val, is_conc, is_z3, is_real, to_real, simp, b_not, b_and, b_or, v_eq, str_eq, term_eq,
                     outer_ty, INT_RANGE)

EXTERNAL_PREFIXES = ('std::', 'core::', 'alloc::', 'parking_lot::', 'once_cell::', 'dashmap::', 'fastrand::', 'lock_api::', 'hashbrown::')
STD_TYPES = {'String', 'str', 'Vec', 'VecDeque', 'HashMap', 'HashSet', 'Option', 'Result', 'Arc', 'Rc', 'Box', 'DashMap', 'Lazy', 'OnceCell', 'OnceLock',
             'Mutex', 'RwLock', 'MutexGuard', 'RwLockReadGuard', 'RwLockWriteGuard', 'RefCell', 'Ref', 'RefMut', 'RefMulti', 'RefMutMulti', 'LocalKey'}

NS = 1000000000
MAXU64 = 2 ** 64 - 1


def _find(ctx, m, k):
    """index of key k in map model m, forking over 'equals entry i' / 'absent' (returns len(items) if absent)"""
    conds = [str_eq(it[0], k) if isinstance(it[0], Str) and isinstance(k, Str) else term_eq(it[0], k) for it in m.items]
    conds = [simp(c) for c in conds]
    for i, c in enumerate(conds):
        if c is True: return i
    live = [(i, c) for i, c in enumerate(conds) if c is not False]
    if not live: return len(conds)
    none_c = z3.And([z3.Not(c) for _, c in live])
    j = ctx.choose([c for _, c in live] + [none_c])
    return live[j][0] if j < len(live) else len(conds)


def _key(x):
    x = deref_all(x)
    return x


def _conc_index(ctx, idx, n):
    """concretise an index into a sequence of length n; returns None for out-of-range"""
    idx = simp(idx)
    if is_conc(idx): return idx if 0 <= idx < n else None
    j = ctx.choose([idx == i for i in range(n)] + [z3.Or(idx >= n, idx < 0)])
    return j if j < n else None


def _iter_items(s, ctx, it):
    """generator: yields nothing; returns python list of the remaining items of an IterM after applying its adapters"""
    out = []
    while getattr(it, 'genfn', None) is not None:          # iter::from_fn: run the producer to exhaustion (the consumer takes everything)
        o = yield from s.call_callable(ctx, it.genfn, [])
        if o.variant == 0: it.genfn = None
        else:
            it.items.append(o.fields[0])
            if len(it.items) > 256: raise Unsupported('iter::from_fn producer did not finish within 256 items')
    base = it.items[it.pos:]
    it.pos = len(it.items)
    idx = it.count
    stop = False
    for v in base:
        x = v; keep = True;
        for kind, fn in it.adapters:
            if kind == 'enumerate': x = tup(idx, x); idx += 1
            elif kind == 'filter':
                r = yield from s.call_callable(ctx, fn, [Ref(Cell(x, 'it'))])
                if not ctx.branch(r): keep = False; break
            elif kind == 'map': x = yield from s.call_callable(ctx, fn, [x])
            elif kind == 'filter_map':
                o = yield from s.call_callable(ctx, fn, [x])
                if o.variant == 0: keep = False; break
                x = o.fields[0]
            elif kind == 'cloned' or kind == 'copied': x = clone_val(deref(x))
            elif kind == 'rev': pass
            elif kind == 'inspect': yield from s.call_callable(ctx, fn, [Ref(Cell(x, 'it'))])
            elif kind == 'take_while':
                r = yield from s.call_callable(ctx, fn, [Ref(Cell(x, 'it'))])
                if not ctx.branch(r): stop = True; keep = False; break
            elif kind == 'skip_while':
                if not it.state.get(id(fn)):
                    r = yield from s.call_callable(ctx, fn, [Ref(Cell(x, 'it'))])
                    if ctx.branch(r): keep = False; break
                    it.state[id(fn)] = True
            elif kind == 'map_while':
                o = yield from s.call_callable(ctx, fn, [x])
                if o.variant == 0: stop = True; keep = False; break
                x = o.fields[0]
            else: raise Unsupported('iterator adapter ' + kind)
        if stop: break
        if keep: out.append(x)
    it.count = idx
    return out


def _iter_next(s, ctx, it):
    while True:
        if it.pos >= len(it.items):
            if getattr(it, 'genfn', None) is None: break
            o = yield from s.call_callable(ctx, it.genfn, [])           # iter::from_fn: one more item on demand
            if o.variant == 0: it.genfn = None; break
            it.items.append(o.fields[0])
            if len(it.items) > 256: raise Unsupported('iter::from_fn producer did not finish within 256 items')
        x = it.items[it.pos]; it.pos += 1; keep = True
        for kind, fn in it.adapters:
            if kind == 'enumerate': x = tup(it.count, x); it.count += 1
            elif kind == 'filter':
                r = yield from s.call_callable(ctx, fn, [Ref(Cell(x, 'it'))])
                if not ctx.branch(r): keep = False; break
            elif kind == 'map': x = yield from s.call_callable(ctx, fn, [x])
            elif kind == 'filter_map':
                o = yield from s.call_callable(ctx, fn, [x])
                if o.variant == 0: keep = False; break
                x = o.fields[0]
            elif kind in ('cloned', 'copied'): x = clone_val(deref(x))
            elif kind == 'rev': pass
            elif kind == 'inspect': yield from s.call_callable(ctx, fn, [Ref(Cell(x, 'it'))])
            elif kind == 'take_while':
                r = yield from s.call_callable(ctx, fn, [Ref(Cell(x, 'it'))])
                if not ctx.branch(r): it.pos = len(it.items); it.genfn = None; return none()
            elif kind == 'skip_while':
                if not it.state.get(id(fn)):
                    r = yield from s.call_callable(ctx, fn, [Ref(Cell(x, 'it'))])
                    if ctx.branch(r): keep = False; break
                    it.state[id(fn)] = True
            elif kind == 'map_while':
                o = yield from s.call_callable(ctx, fn, [x])
                if o.variant == 0: it.pos = len(it.items); it.genfn = None; return none()
                x = o.fields[0]
            else: raise Unsupported('iterator adapter ' + kind)
        if keep: return some(x)
    if it.guard is not None: s.drop_val(ctx, it.guard); it.guard = None
    return none()


def _slice_bounds(ctx, r, n):
    """(start, end) of a range argument (`..`, `a..`, `..b`, `a..b`, `a..=b`) over a sequence of length n; panics as std does"""
    if r is None: return 0, n
    r = deref_all(r)
    if isinstance(r, FnItem) and r.name.split('<')[0].strip().endswith('RangeFull'): return 0, n          # the unit struct `..` arrives as a bare path constant
    if not isinstance(r, Agg): raise Unsupported('range argument ' + type(r).__name__)
    def conc(v):
        v = simp(v)
        if is_z3(v) and z3.is_int_value(v): v = v.as_long()
        if not is_conc(v): raise Unsupported('slice range with a symbolic bound')
        return v
    if r.ty == 'RangeFull': lo, hi = 0, n
    elif r.ty == 'RangeTo': lo, hi = 0, conc(r.fields[0])
    elif r.ty == 'RangeFrom': lo, hi = conc(r.fields[0]), n
    elif r.ty == 'Range': lo, hi = conc(r.fields[0]), conc(r.fields[1])
    elif r.ty == 'RangeInclusive': lo, hi = conc(r.fields[0]), conc(r.fields[1]) + 1
    elif r.ty == 'RangeToInclusive': lo, hi = 0, conc(r.fields[0]) + 1
    else: raise Unsupported('range argument ' + r.ty)
    if lo > hi: raise Panic('slice index starts at %d but ends at %d' % (lo, hi), 'index')
    if hi > n: raise Panic('range end index %d out of range for slice of length %d' % (hi, n), 'index')
    return lo, hi


def _from_fn(fn):
    it = IterM([]); it.genfn = fn; return it


def _mk_iter(d, kind=None, ctx=None):
    if isinstance(d, ArgVal) and ctx is not None:
        el = d.elements(ctx); return IterM([Ref(SlotCell(el, i)) for i in range(len(el))])
    if isinstance(d, SeqM): return IterM([Ref(SlotCell(d.items, i)) for i in range(len(d.items))])
    if isinstance(d, MapM):
        if d.kind == 'HashSet': return IterM([Ref(SlotCell(it, 0)) for it in d.items])
        return IterM([tup(Ref(SlotCell(it, 0)), Ref(SlotCell(it, 1))) for it in d.items])
    if isinstance(d, Agg) and d.ty == 'array': return IterM([Ref(SlotCell(d.fields, i)) for i in range(len(d.fields))])
    raise Unsupported('iterate over ' + type(d).__name__)


def builtin(s, ctx, func, g, tc, A, caller, ln=None):
    if False: yield None
    last = g.split('::')[-1]
    g = re.sub(r'<impl \[[^\]]*\]>', '<impl [T]>', g)          # slice methods on any element type
    r = yield from _builtin(s, ctx, func, g, tc, A, caller, ln, last)
    if r is not NotImplemented: ctx.builtins_used.add(re.sub(r"<'_, |'_, ", '', g)[:90])
    return r


def _builtin(s, ctx, func, g, tc, A, caller, ln, last):
    if False: yield None
    E = g.endswith
    from . import builtins_ext
    r_ = yield from builtins_ext.ext(s, ctx, func, g, tc, A, caller, ln, last)
    if r_ is not NotImplemented: return r_
    # ------------------------------------------------------------ lazy / once / statics
    if tc and tc[0] == 'Lazy' and tc[2] in ('deref', 'deref_mut') or E('Lazy::force'):
        lz = yield from s.force_static(ctx, A[0])
        if not isinstance(lz, LazyM): raise Unsupported('Lazy deref of ' + type(lz).__name__)
        if lz.inner is None:
            yield from s.sched_point(ctx, 'lazy')
            if lz.inner is None:
                v = yield from s.call_callable(ctx, lz.init, [])
                s.name_locks(v, lz.name)
                if lz.inner is None: lz.inner = Cell(v, lz.name)
        return Ref(lz.inner)
    if E('Lazy::new') or E('LazyLock::new'): return LazyM(A[0])
    if E('sync::Once::new'): return OnceM()
    if E('OnceLock::new') or E('OnceCell::new'): return OnceM()
    if E('Once::call_once') or E('Once::call_once_force'):
        o = yield from s.force_static(ctx, A[0]) if isinstance(A[0], Ref) else deref(A[0])
        if not o.done: yield from s.sched_point(ctx, 'once')
        if not o.done:
            if o.running is not None and o.running != ctx.tid:
                # another thread is inside the initialiser: block until done (modelled as a lock)
                raise Unsupported('Once contention (initialiser running on another thread)')
            o.running = ctx.tid
            yield from s.call_callable(ctx, A[1], [])
            o.done = True; o.running = None
        return unit()
    if E('Once::is_completed'):
        o = yield from s.force_static(ctx, A[0]); return o.done
    if E('OnceLock::get_or_init') or E('OnceCell::get_or_init'):
        o = yield from s.force_static(ctx, A[0]) if isinstance(A[0], Ref) else deref(A[0])
        if not o.done: yield from s.sched_point(ctx, 'once')
        if not o.done:
            if o.running is not None and o.running != ctx.tid: raise Unsupported('OnceCell contention')
            o.running = ctx.tid
            v = yield from s.call_callable(ctx, A[1], [])
            o.value = Cell(v, o.name); o.done = True; o.running = None
        return Ref(o.value)
    if E('OnceLock::get') or E('OnceCell::get'):
        o = yield from s.force_static(ctx, A[0]); return some(Ref(o.value)) if o.done else none()
    # ------------------------------------------------------------ locks
    if re.search(r'(Mutex|RwLock)::new$', g):
        return LockM(A[0], 'lock', 'RwLock' if 'RwLock' in g else 'Mutex')
    if re.search(r'(Mutex|RwLock)::(lock|read|write|upgradable_read)$', g):
        lk = deref_all(A[0])
        if not isinstance(lk, LockM): raise Unsupported('lock on ' + type(lk).__name__)
        gd = yield from s.acquire(ctx, lk, 'r' if last == 'read' else 'w')
        return ok(gd) if g.startswith('std::sync') else gd            # std's locks answer LockResult (poisoning is not modelled: no simulated thread unwinds while holding one)
    if re.search(r'(Mutex|RwLock)::(try_lock|try_read|try_write)$', g):
        lk = deref_all(A[0]); mode = 'r' if last == 'try_read' else 'w'
        yield from s.sched_point(ctx, 'try_lock')
        kind = 0 if lk.kind == 'Mutex' else (1 if mode == 'r' else 2)
        if (mode == 'w' and lk.state != 0) or (mode == 'r' and lk.state < 0):
            ctx.events.append(('lock', ctx.tid, lk.name, 'try-failed', kind, 1)); return none()        # the attempt is an event of the schedule too
        lk.state = -1 if mode == 'w' else lk.state + 1; lk.owners.append(ctx.tid)
        ctx.events.append(('lock', ctx.tid, lk.name, mode, kind, 1)); return some(GuardM(lk, mode, ctx.tid))
    if tc and tc[0] in ('MutexGuard', 'RwLockReadGuard', 'RwLockWriteGuard', 'MappedMutexGuard') and tc[2] in ('deref', 'deref_mut'):
        gd = deref_all(A[0])
        if not gd.live: raise Panic('use of a released guard')
        return Ref(gd.lock.inner)
    # ------------------------------------------------------------ strings / fmt
    if tc and tc[0] in ('String', 'str') and tc[2] in ('to_string', 'clone', 'deref', 'deref_mut', 'borrow', 'as_ref', 'to_owned', 'from', 'into', 'as_str'):
        v = deref_all(A[0]);
        if isinstance(v, Str): return v
        if isinstance(v, ArgVal):
            # the text of a string-typed argument used as it is (no Debug quoting): a Display-like rendering
            if tc[2] in ('to_string', 'to_owned', 'clone', 'from', 'into'): return Str(('fmt', 'display', ('bytes', '\\xc0\\x00'), v, v.ty))
            return A[0]
    if g in ('std::string::String::as_str', 'std::hint::must_use', 'std::string::String::as_mut_str', 'core::hint::must_use') or E('String::as_str') or E('hint::must_use'):
        return deref_all(A[0]) if last != 'must_use' else A[0]
    if tc and tc[1] == 'From' and tc[0] == 'String' and tc[2] == 'from': return deref_all(A[0])
    if tc and tc[1] in ('ToString', 'ToOwned', 'Into') and isinstance(deref_all(A[0]), Str): return deref_all(A[0])
    if E('String::new') or E('String::with_capacity'): return Str('')
    if E('String::len') or E('str::len') or E('<impl str>::len'):
        v = deref_all(A[0])
        if isinstance(v.t, str): return len(v.t.encode())
        return _strlen(ctx, v)
    if E('String::capacity'):
        v = deref_all(A[0])
        if v.cap is None: v.cap = ctx.fresh_int('cap', 0, 2 ** 40)
        return v.cap
    if E('String::is_empty') or E('<impl str>::is_empty'):
        v = deref_all(A[0])
        if isinstance(v.t, str): return v.t == ''
        return _strlen(ctx, v) == 0
    if tc and tc[1].startswith('PartialEq') and tc[2] in ('eq', 'ne') and isinstance(deref_all(A[0]), Str):
        a, b = deref_all(A[0]), deref_all(A[1])
        r = str_eq(a, b)
        return b_not(r) if tc[2] == 'ne' else r
    if E('Argument::new_debug') or E('Argument::new_display'):
        mm = re.search(r'new_(?:debug|display)::<(.*)>$', func)
        ty = mm.group(1) if mm else '?'
        ty = subst_type(ctx, ty)
        return Agg('FmtArg', 0, ['debug' if 'new_debug' in g else 'display', A[0], ty])
    if E('fmt::Arguments::new') or E('Arguments::new_v1') or E('Arguments::new_const') or E('Arguments::from_str') or E('Arguments::from_str_nonconst'):
        tmpl = A[0]; args = deref_all(A[1]) if len(A) > 1 else Agg('array', 0, [])
        return Agg('FmtArgs', 0, [tmpl, args])
    if E('fmt::format') or g in ('format', 'std::fmt::format', 'alloc::fmt::format'):
        fa = A[0]; tmpl = fa.fields[0]; parts = fa.fields[1].fields if isinstance(fa.fields[1], Agg) else []
        tkey = tmpl.what if isinstance(tmpl, Opaque) else (tmpl.t if isinstance(tmpl, Str) else repr(tmpl))
        if len(parts) == 0 and isinstance(tmpl, Str): return tmpl
        if len(parts) == 1:
            p = parts[0]; v = deref_all(p.fields[1])
            return Str(('fmt', p.fields[0], tkey, v, _norm_ty(p.fields[2])))
        return Str(('fmtn', tkey, tuple((p.fields[0], deref_all(p.fields[1]), _norm_ty(p.fields[2])) for p in parts)))
    def seq_items(d): return list(d.items) if isinstance(d, SeqM) else list(d.fields)      # Vec / slice, or an array value
    if E('::concat') and ('slice' in g or '[' in g):
        d = deref_all(A[0]); return Str(('join', '', seq_items(d)))
    if E('::join') and ('slice' in g or '[' in g):
        d = deref_all(A[0]); sep = deref_all(A[1])
        return Str(('join', sep.t if isinstance(sep, Str) else '?', seq_items(d)))
    if E('str::to_lowercase') or E('<impl str>::to_lowercase') or E('<impl str>::to_uppercase'):
        v = deref_all(A[0])
        if isinstance(v.t, str): return Str(v.t.lower() if 'lower' in g else v.t.upper())
        raise Unsupported('case conversion of a symbolic string')
    if E('String::push_str'):
        tgt = deref_all(A[0]); add_ = deref_all(A[1])
        if not isinstance(tgt, Str) or not isinstance(add_, Str): raise Unsupported('String::push_str on ' + type(tgt).__name__)
        if isinstance(tgt.t, str) and isinstance(add_.t, str): tgt.t = tgt.t + add_.t
        elif tgt.t == '': tgt.t = add_.t
        elif add_.t == '': pass
        else: tgt.t = ('join', '', [Str(tgt.t), Str(add_.t)])
        tgt.cap = None
        return unit()
    if E('String::clear'):
        tgt = deref_all(A[0])
        if isinstance(tgt, Str): tgt.t = ''; return unit()
    if E('String::push'):
        tgt = deref_all(A[0]); ch = A[1]
        if isinstance(ch, int): ch = chr(ch)
        if isinstance(tgt, Str) and isinstance(ch, str):
            if isinstance(tgt.t, str): tgt.t = tgt.t + ch
            else: tgt.t = ('join', '', [Str(tgt.t), Str(ch)])
            tgt.cap = None; return unit()
        raise Unsupported('String::push of a symbolic character')
    # ------------------------------------------------------------ Vec / VecDeque
    if re.search(r'(Vec|VecDeque)::(new|with_capacity)$', g): return SeqM(kind='VecDeque' if 'VecDeque' in g else 'Vec')
    if re.search(r'(HashMap|HashSet)::(new|with_capacity|default)$', g): return MapM(kind='HashSet' if 'HashSet' in g else 'HashMap')
    if tc and tc[1] == 'Default' and tc[0] in ('HashMap', 'HashSet', 'Vec', 'VecDeque', 'String'):
        return MapM(kind=tc[0]) if 'Hash' in tc[0] else (SeqM(kind=tc[0]) if tc[0] != 'String' else Str(''))
    if tc and tc[0] in ('Vec', 'VecDeque') and tc[2] in ('deref', 'deref_mut', 'as_ref', 'as_slice', 'borrow'): return A[0]
    if E('Vec::as_slice') or E('Vec::as_mut_slice'): return A[0]
    if re.search(r'(Vec|VecDeque)::(push|push_back)$', g): deref_all(A[0]).items.append(A[1]); return unit()
    if E('VecDeque::push_front'): deref_all(A[0]).items.insert(0, A[1]); return unit()
    if (re.search(r'(Vec|VecDeque)::(len|is_empty)$', g) or E('<impl [T]>::len') or E('<impl [T]>::is_empty')) and isinstance(deref_all(A[0]), ArgVal):
        n_ = len(deref_all(A[0]).elements(ctx)); return n_ if g.endswith('len') else n_ == 0
    if re.search(r'(Vec|VecDeque)::len$', g) or E('<impl [T]>::len'): return len(deref_all(A[0]).items)
    if re.search(r'(Vec|VecDeque)::is_empty$', g) or E('<impl [T]>::is_empty'): return len(deref_all(A[0]).items) == 0
    if E('Vec::capacity') or E('VecDeque::capacity'):
        d = deref_all(A[0])
        if d.cap is None: d.cap = ctx.fresh_int('vcap', len(d.items), 2 ** 36)
        return d.cap
    if re.search(r'iter::(sources::from_fn::)?from_fn$', g): return _from_fn(A[0])
    if re.search(r'(VecDeque|Vec)::iter(_mut)?$', g) or E('<impl [T]>::iter') or E('<impl [T]>::iter_mut'):
        return _mk_iter(deref_all(A[0]), ctx=ctx)
    if E('VecDeque::remove'):
        d = deref_all(A[0]); i = _conc_index(ctx, A[1], len(d.items))
        return some(d.items.pop(i)) if i is not None else none()
    if E('Vec::remove'):
        d = deref_all(A[0]); i = _conc_index(ctx, A[1], len(d.items))
        if i is None: raise Panic('Vec::remove index out of bounds', 'index')
        return d.items.pop(i)
    if E('Vec::swap_remove'):
        d = deref_all(A[0]); i = _conc_index(ctx, A[1], len(d.items))
        if i is None: raise Panic('swap_remove index out of bounds', 'index')
        v = d.items[i]; d.items[i] = d.items[-1]; d.items.pop(); return v
    if E('VecDeque::swap_remove_back'):
        d = deref_all(A[0]); i = _conc_index(ctx, A[1], len(d.items))
        if i is None: return none()
        v = d.items[i]; d.items[i] = d.items[-1]; d.items.pop(); return some(v)
    if E('VecDeque::swap_remove_front'):
        d = deref_all(A[0]); i = _conc_index(ctx, A[1], len(d.items))
        if i is None: return none()
        v = d.items[i]; d.items[i] = d.items[0]; d.items.pop(0); return some(v)
    if E('VecDeque::insert') or E('Vec::insert'):
        d = deref_all(A[0]); i = simp(A[1])
        if not is_conc(i):
            j = ctx.choose([i == k for k in range(len(d.items) + 1)] + [i > len(d.items)]); i = j
        if i > len(d.items): raise Panic('insert index out of bounds', 'index')
        d.items.insert(i, A[2]); return unit()
    if E('VecDeque::pop_front'):
        d = deref_all(A[0]); return some(d.items.pop(0)) if d.items else none()
    if E('VecDeque::pop_back') or E('Vec::pop'):
        d = deref_all(A[0]); return some(d.items.pop()) if d.items else none()
    if E('VecDeque::front') or E('<impl [T]>::first'):
        d = deref_all(A[0]); return some(Ref(SlotCell(d.items, 0))) if d.items else none()
    if E('VecDeque::back') or E('<impl [T]>::last'):
        d = deref_all(A[0]); return some(Ref(SlotCell(d.items, len(d.items) - 1))) if d.items else none()
    if E('VecDeque::get') or E('<impl [T]>::get'):
        d = deref_all(A[0]); i = _conc_index(ctx, A[1], len(d.items))
        return some(Ref(SlotCell(d.items, i))) if i is not None else none()
    if re.search(r'(Vec|VecDeque|HashMap|HashSet)::clear$', g): deref_all(A[0]).items.clear(); return unit()
    if E('VecDeque::contains') or E('<impl [T]>::contains'):
        d = deref_all(A[0]); k = _key(A[1])
        cs = [simp(term_eq(x, k)) for x in d.items]
        if any(c is True for c in cs): return True
        return ctx.branch(b_or(*cs))
    if E('VecDeque::retain') or E('Vec::retain') or E('VecDeque::retain_mut') or E('Vec::retain_mut'):
        d = deref_all(A[0]); keep = []
        for i in range(len(d.items)):
            r = yield from s.call_callable(ctx, A[1], [Ref(SlotCell(d.items, i))])
            if ctx.branch(r): keep.append(d.items[i])
        d.items[:] = keep; return unit()
    if E('VecDeque::truncate') or E('Vec::truncate'):
        d = deref_all(A[0]); n = simp(A[1])
        if not is_conc(n): raise Unsupported('symbolic truncate')
        del d.items[n:]; return unit()
    if E('VecDeque::drain') or E('Vec::drain'):
        d = deref_all(A[0]); lo_, hi_ = _slice_bounds(ctx, A[1] if len(A) > 1 else None, len(d.items))
        items = d.items[lo_:hi_]; del d.items[lo_:hi_]; return IterM(items)
    if E('VecDeque::extend') or E('Vec::extend'):
        d = deref_all(A[0]); src = A[1]
        if isinstance(src, IterM): d.items.extend((yield from _iter_items(s, ctx, src)))
        elif isinstance(src, SeqM): d.items.extend(src.items)
        else: raise Unsupported('extend from ' + type(src).__name__)
        return unit()
    if E('VecDeque::make_contiguous'): return A[0]
    # ------------------------------------------------------------ iterators
    if tc and tc[1] in ('Iterator', 'DoubleEndedIterator', 'ExactSizeIterator') or (tc and tc[1] == 'IntoIterator'):
        m = tc[2]
        if tc[1] == 'IntoIterator' and m == 'into_iter':
            x = A[0]
            if isinstance(x, IterM): return x
            if isinstance(x, SeqM): return IterM(list(x.items))
            if isinstance(x, MapM): return IterM([tup(it[0], it[1]) for it in x.items] if x.kind != 'HashSet' else [it[0] for it in x.items])
            if isinstance(x, Ref): return _mk_iter(deref_all(x), ctx=ctx)
            if isinstance(x, Agg) and x.ty in ('array',): return IterM(list(x.fields))
            if isinstance(x, Agg) and x.ty == 'Option': return IterM(list(x.fields) if x.variant == 1 else [])
            raise Unsupported('into_iter of ' + type(x).__name__)
        it = deref_all(A[0])
        if not isinstance(it, IterM): raise Unsupported(f'iterator method {m} on {type(it).__name__}')
        if m in ('enumerate', 'filter', 'map', 'cloned', 'copied', 'filter_map'):
            it.adapters.append((m, A[1] if len(A) > 1 else None)); return it
        if m in ('skip', 'take') and not it.adapters and is_conc(A[1]):
            rest = it.items[it.pos:]; it.items = rest[A[1]:] if m == 'skip' else rest[:A[1]]; it.pos = 0; return it
        if m in ('min_by_key', 'max_by_key'):
            out = yield from _iter_items(s, ctx, it)
            if it.guard is not None: s.drop_val(ctx, it.guard); it.guard = None
            best = None; bk = None
            for x in out:
                k = yield from s.call_callable(ctx, A[1], [Ref(Cell(x, 'it'))])
                # std: min_by_key keeps the first minimum, max_by_key the last maximum
                if not (is_conc(k) or is_z3(k)):
                    from .builtins_ext import _cmp
                    if best is None or (_cmp(ctx, k, bk) < 0 if m == 'min_by_key' else _cmp(ctx, k, bk) >= 0): best, bk = x, k
                elif best is None or ctx.branch(simp(k < bk) if m == 'min_by_key' else simp(k >= bk)): best, bk = x, k
            return some(best) if best is not None else none()
        if m == 'rev':
            if it.adapters: raise Unsupported('rev after adapters')
            it.items = list(reversed(it.items[it.pos:])); it.pos = 0; return it
        if m == 'by_ref': return A[0]
        if m == 'next':
            r = yield from _iter_next(s, ctx, it); return r
        if m in ('position', 'any', 'all', 'find'):
            idx = 0
            while True:
                nx = yield from _iter_next(s, ctx, it)
                if nx.variant == 0: break
                x = nx.fields[0]
                r = yield from s.call_callable(ctx, A[1], [x] if m != 'find' else [Ref(Cell(x, 'it'))])
                t = ctx.branch(r)
                if m == 'position' and t: return some(idx)
                if m == 'any' and t: return True
                if m == 'all' and not t: return False
                if m == 'find' and t: return some(x)
                idx += 1
            return none() if m in ('position', 'find') else (m == 'all')
        if m in ('collect', 'sum', 'count', 'last', 'for_each', 'min', 'max', 'fold'):
            out = yield from _iter_items(s, ctx, it)
            if it.guard is not None: s.drop_val(ctx, it.guard); it.guard = None
            if m == 'sum':
                acc = 0
                lo, hi = 0, MAXU64
                for x in out:
                    acc = acc + deref_all(x)
                    if not is_conc(acc):
                        if ctx.feasible(acc > hi):
                            if ctx.branch(acc > hi): raise Panic('attempt to add with overflow (iterator sum)', 'arith')
                    elif acc > hi: raise Panic('attempt to add with overflow (iterator sum)', 'arith')
                return acc
            if m == 'count': return len(out)
            if m == 'fold':
                acc = A[1]
                for x in out: acc = yield from s.call_callable(ctx, A[2], [acc, x])
                return acc
            if m == 'last': return some(out[-1]) if out else none()
            if m == 'for_each':
                for x in out: yield from s.call_callable(ctx, A[1], [x])
                return unit()
            if m == 'collect':
                mm = re.search(r'collect::<(.*)>$', func); target = outer_ty(mm.group(1)) if mm else 'Vec'
                if target in ('HashSet',): return MapM([[x, unit()] for x in out], 'HashSet')
                if target in ('HashMap',): return MapM([[x.fields[0], x.fields[1]] for x in out], 'HashMap')
                return SeqM(out, 'VecDeque' if target == 'VecDeque' else 'Vec')
            raise Unsupported('iterator consumer ' + m)
        if m in ('min_by_key', 'max_by_key', 'min_by', 'max_by'): raise Unsupported('iterator ' + m)
        if m == 'size_hint' or m == 'len': return len(it.items) - it.pos
    # ------------------------------------------------------------ hash map / set
    m_ = re.search(r'(HashMap|HashSet)::(get|get_mut|contains_key|remove|contains|get_key_value|remove_entry)$', g)
    if m_:
        m = deref_all(A[0]); k = _key(A[1]); op = m_.group(2)
        i = _find(ctx, m, k)
        if i == len(m.items): return False if op.startswith('contains') or (op == 'remove' and m.kind == 'HashSet') else none()
        if op.startswith('contains'): return True
        if op == 'remove':
            it = m.items.pop(i); return some(it[1]) if m.kind != 'HashSet' else True
        if op == 'remove_entry':
            it = m.items.pop(i); return some(tup(it[0], it[1]))
        if op == 'get_key_value': return some(tup(Ref(SlotCell(m.items[i], 0)), Ref(SlotCell(m.items[i], 1))))
        if m.kind == 'HashSet': return some(Ref(SlotCell(m.items[i], 0)))
        return some(Ref(SlotCell(m.items[i], 1, 'mapval')))
    if tc and tc[0] == 'HashMap' and tc[1].startswith('Index') and tc[2] in ('index', 'index_mut'):
        m = deref_all(A[0]); i = _find(ctx, m, _key(A[1]))
        if i == len(m.items): raise Panic('HashMap index: key not found', 'index')
        return Ref(SlotCell(m.items[i], 1, 'mapval'))
    if E('HashMap::insert') or E('HashSet::insert'):
        m = deref_all(A[0]); k = A[1]; v = A[2] if len(A) > 2 else unit()
        i = _find(ctx, m, deref_all(k))
        if i == len(m.items):
            m.items.append([k, v]); return none() if 'HashMap' in g else True
        old = m.items[i][1]; m.items[i][1] = v; return some(old) if 'HashMap' in g else False
    if E('HashMap::len') or E('HashSet::len'): return len(deref_all(A[0]).items)
    if E('HashMap::is_empty') or E('HashSet::is_empty'): return len(deref_all(A[0]).items) == 0
    if E('HashMap::values') or E('HashMap::values_mut'): return IterM([Ref(SlotCell(it, 1)) for it in deref_all(A[0]).items])
    if E('HashMap::keys') or E('HashSet::iter'): return IterM([Ref(SlotCell(it, 0)) for it in deref_all(A[0]).items])
    if E('HashMap::iter') or E('HashMap::iter_mut'): return IterM([tup(Ref(SlotCell(it, 0)), Ref(SlotCell(it, 1))) for it in deref_all(A[0]).items])
    if E('HashMap::retain'):
        m = deref_all(A[0]); keep = []
        for it in list(m.items):
            r = yield from s.call_callable(ctx, A[1], [Ref(SlotCell(it, 0)), Ref(SlotCell(it, 1))])
            if ctx.branch(r): keep.append(it)
        m.items[:] = keep; return unit()
    if E('HashSet::retain'):
        m = deref_all(A[0]); keep = []
        for it in list(m.items):
            r = yield from s.call_callable(ctx, A[1], [Ref(SlotCell(it, 0))])
            if ctx.branch(r): keep.append(it)
        m.items[:] = keep; return unit()
    if E('HashMap::entry'): return Agg('Entry', 0, [A[0], A[1]])
    if E('Entry::or_insert_with') or E('Entry::or_insert') or E('Entry::or_default'):
        m = deref_all(A[0].fields[0]); k = A[0].fields[1]
        i = _find(ctx, m, deref_all(k))
        if i < len(m.items): return Ref(SlotCell(m.items[i], 1))
        if E('or_insert'): v = A[1]
        elif E('or_default'):
            mm = re.search(r'Entry::<.*?, (.*)>::or_default$', func); t = outer_ty(mm.group(1)) if mm else '?'
            v = MapM(kind=t) if 'Hash' in t else SeqM(kind=t) if t in ('Vec', 'VecDeque') else 0
        else: v = yield from s.call_callable(ctx, A[1], [])
        m.items.append([k, v]); return Ref(SlotCell(m.items[-1], 1))
    # ------------------------------------------------------------ option / result helpers
    if re.search(r'Option::(is_some|is_none)$', g):
        o = deref_all(A[0]); return (o.variant == 1) == (last == 'is_some')
    if re.search(r'Result::(is_ok|is_err)$', g):
        o = deref_all(A[0]); return (o.variant == 0) == (last == 'is_ok')
    if E('Option::cloned') or E('Option::copied'):
        o = A[0]; return some(clone_val(deref(o.fields[0]))) if o.variant == 1 else none()
    if E('Option::as_ref') or E('Option::as_mut') or E('Option::as_deref'):
        r = A[0]; o = deref_all(r)
        if o.variant == 0: return none()
        return some(Ref(r.cell, r.path + (0,))) if isinstance(r, Ref) else some(o.fields[0])
    if E('Result::as_ref'):
        r = A[0]; o = deref_all(r)
        return Agg('Result', o.variant, [Ref(r.cell, r.path + (0,))])
    if E('Option::unwrap_or_default'):
        o = A[0]
        if o.variant == 1: return o.fields[0]
        mm = re.search(r'Option::<(.*)>::unwrap_or_default$', func); t = outer_ty(mm.group(1)) if mm else '?'
        if t in ('HashSet', 'HashMap'): return MapM(kind=t)
        if t in ('Vec', 'VecDeque'): return SeqM(kind=t)
        if t in INT_RANGE: return 0
        if t == 'String': return Str('')
        raise Unsupported('unwrap_or_default of ' + t)
    if E('Option::unwrap_or') or E('Result::unwrap_or'):
        o = A[0]; good = 1 if 'Option' in g else 0
        return o.fields[0] if o.variant == good else A[1]
    if E('Option::unwrap_or_else'):
        o = A[0]
        if o.variant == 1: return o.fields[0]
        r = yield from s.call_callable(ctx, A[1], []); return r
    if E('Option::unwrap') or E('Option::expect'):
        if A[0].variant != 1: raise Panic('called `Option::unwrap()` on a `None` value', 'unwrap')
        return A[0].fields[0]
    if E('Result::unwrap') or E('Result::expect'):
        if A[0].variant != 0: raise Panic('called `Result::unwrap()` on an `Err` value', 'unwrap')
        return A[0].fields[0]
    if E('Result::ok'):
        return some(A[0].fields[0]) if A[0].variant == 0 else none()
    if E('Option::map') or E('Option::and_then'):
        o = A[0]
        if o.variant == 0: return none()
        v = yield from s.call_callable(ctx, A[1], [o.fields[0]]); return some(v) if last == 'map' else v
    if E('Result::map_or'):
        o = A[0]
        if o.variant != 0: return A[1]
        v = yield from s.call_callable(ctx, A[2], [o.fields[0]]); return v
    if E('Result::map') or E('Result::map_err') or E('Result::and_then'):
        o = A[0]; good = 0 if last in ('map', 'and_then') else 1
        if o.variant != good: return o
        v = yield from s.call_callable(ctx, A[1], [o.fields[0]])
        return v if last == 'and_then' else Agg('Result', o.variant, [v])
    if E('Option::map_or'):
        o = A[0]
        if o.variant == 0: return A[1]
        v = yield from s.call_callable(ctx, A[2], [o.fields[0]]); return v
    if E('Option::filter'):
        o = A[0]
        if o.variant == 0: return none()
        r = yield from s.call_callable(ctx, A[1], [Ref(Cell(o.fields[0], 'opt'))])
        return o if ctx.branch(r) else none()
    if E('Option::take'):
        r = A[0]; o = load(r); store(r, none()); return o
    if E('Option::get_or_insert_with') or E('Option::get_or_insert') or E('Option::insert'):
        r = A[0]; o = load(r)
        if o.variant == 0 or E('Option::insert'):
            v = (yield from s.call_callable(ctx, A[1], [])) if E('Option::get_or_insert_with') else A[1]
            if o.variant == 1: s.drop_val(ctx, o.fields[0])
            store(r, some(v))
        return Ref(r.cell, r.path + (0,))
    if E('Option::is_some_and'):
        o = A[0]
        if o.variant == 0: return False
        r = yield from s.call_callable(ctx, A[1], [o.fields[0]]); return r
    # ------------------------------------------------------------ memory sizes
    if tc and tc[2] == 'estimate_memory' and re.match(r'^[A-Z][0-9]?$', tc[0]):
        v = deref_all(A[0])
        if isinstance(v, Str):
            if v.cap is None: v.cap = ctx.fresh_int('cap', 0, 2 ** 36)
            return 24 + v.cap
        if not (is_z3(v) or is_conc(v)):
            # structured value (Result / Option / tuple ...) behind a type parameter: one symbolic size per value object
            if not hasattr(ctx, '_objsize'): ctx._objsize = {}
            if id(v) not in ctx._objsize: ctx._objsize[id(v)] = (v, ctx.fresh_int('objsize', 0, 2 ** 40))
            return ctx._objsize[id(v)][1]
        SIZE = z3.Function('size', z3.IntSort(), z3.IntSort())
        r = SIZE(v if is_z3(v) else z3.IntVal(v)); ctx.add(z3.And(r >= 0, r <= 2 ** 40)); return r
    if E('mem::size_of') or E('mem::size_of_val') or E('mem::align_of'):
        if last == 'size_of_val':
            mm = re.search(r'size_of_val::<(.*)>$', func)
        else: mm = re.search(r'(?:size_of|align_of)::<(.*)>$', func)
        ty = mm.group(1) if mm else '?'
        return s.size_of(ctx, subst_type(ctx, ty))
    if E('Box::new') or E('Arc::new') or E('Rc::new'):
        return Agg(g.split('::')[-2], 0, [Ref(Cell(A[0], 'heap'))]) if not isinstance(A[0], (Closure, FnItem, EnvFn)) else A[0]
    if tc and tc[0] in ('Arc', 'Rc', 'Box') and tc[2] in ('deref', 'deref_mut', 'as_ref', 'borrow'):
        v = deref_all(A[0]) if not isinstance(deref(A[0]), (Closure, FnItem, EnvFn)) else deref(A[0])
        if isinstance(v, Agg) and v.ty in ('Arc', 'Rc', 'Box'): return v.fields[0]
        return A[0]
    if tc and tc[0] in ('Arc', 'Rc') and tc[2] == 'clone': return deref(A[0])
    if E('Box::new_uninit'):
        return Agg('BoxUninit', 0, [Agg('Unique', 0, [Ref(Cell(Agg('MaybeUninit', 0, [None, None]), 'boxuninit'))])])
    if E('box_assume_init_into_vec_unsafe'):
        mu = load(A[0].fields[0].fields[0])
        arr = mu.fields[1]
        while isinstance(arr, Agg) and arr.ty != 'array': arr = arr.fields[0]
        return SeqM(list(arr.fields))
    if E('slice::<impl [T]>::into_vec') or E('<impl [T]>::into_vec') or E('<impl [T]>::to_vec'):
        v = deref_all(A[0])
        if isinstance(v, Agg) and v.ty == 'Box': v = load(v.fields[0])
        if isinstance(v, Agg) and v.ty == 'array': return SeqM(list(v.fields))
        if isinstance(v, SeqM): return SeqM([clone_val(x) for x in v.items])
    if E('mem::drop'): s.drop_val(ctx, A[0]); return unit()
    if E('mem::take'):
        r = A[0]; v = load(r)
        if isinstance(v, SeqM): store(r, SeqM(kind=v.kind))
        elif isinstance(v, MapM): store(r, MapM(kind=v.kind))
        elif isinstance(v, Agg) and v.ty == 'Option': store(r, none())
        else: raise Unsupported('mem::take of ' + type(v).__name__)
        return v
    if E('mem::replace'):
        r = A[0]; v = load(r); store(r, A[1]); return v
    if E('mem::swap'):
        a, b = A[0], A[1]; va, vb = load(a), load(b); store(a, vb); store(b, va); return unit()
    # ------------------------------------------------------------ thread locals / RefCell
    if E('LocalKey::new'):
        name = caller.name
        initf = s.p.fns.get(name + '::__rust_std_internal_init_fn')
        if initf is None: raise Unsupported('thread_local init fn for ' + name)
        key = s.tls.get((caller.tag, name))
        if key is None:
            def mk(initf=initf):
                g_ = s.call_fn(ctx, initf, [])
                try:
                    next(g_); raise Unsupported('thread_local initialiser reached a scheduling point')
                except StopIteration as e: return e.value
            key = TlsKey(name, mk); s.tls[(caller.tag, name)] = key
        return key
    if E('RefCell::new'): return RefCellM(A[0], 'refcell')
    if E('Cell::new'): return Agg('Cell', 0, [A[0]])
    if E('Cell::get'): return clone_val(deref_all(A[0]).fields[0])
    if E('Cell::set'): deref_all(A[0]).fields[0] = A[1]; return unit()
    if re.search(r'LocalKey::(with|try_with|with_borrow|with_borrow_mut|set|get|take|replace)$', g):
        key = deref_all(A[0])
        if ctx.tid not in key.per_thread:
            v = key.init() if callable(key.init) else key.init
            if isinstance(v, RefCellM): v.name = key.name.split('::')[-1]
            key.per_thread[ctx.tid] = Cell(v, key.name)
        slot = key.per_thread[ctx.tid]
        if last in ('with', 'try_with'):
            r = yield from s.call_callable(ctx, A[1], [Ref(slot)])
            return r if last == 'with' else ok(r)
        inner = slot.v
        if isinstance(inner, RefCellM):
            if last in ('with_borrow', 'with_borrow_mut'):
                mode = 'w' if last.endswith('mut') else 'r'
                if (mode == 'w' and inner.state != 0) or (mode == 'r' and inner.state < 0): raise Panic('RefCell already borrowed (thread-local with_borrow) on ' + inner.name, 'refcell')
                inner.state = -1 if mode == 'w' else inner.state + 1
                try: r = yield from s.call_callable(ctx, A[1], [Ref(inner.inner)])
                finally: inner.state = 0 if mode == 'w' else inner.state - 1
                return r
            if inner.state != 0: raise Panic('RefCell already borrowed (thread-local ' + last + ') on ' + inner.name, 'refcell')
            old = inner.inner.v
            if last == 'set': inner.inner.v = A[1]; return unit()
            if last == 'replace': inner.inner.v = A[1]; return old
            if last == 'take': inner.inner.v = _default_like(old); return old
        if isinstance(inner, Agg) and inner.ty == 'Cell':
            old = inner.fields[0]
            if last == 'get': return clone_val(old)
            if last == 'set': inner.fields[0] = A[1]; return unit()
            if last == 'replace': inner.fields[0] = A[1]; return old
            if last == 'take': inner.fields[0] = _default_like(old); return old
        raise Unsupported('LocalKey::' + last + ' on ' + type(inner).__name__)
    if re.search(r'Cell::(replace|take|into_inner|get_mut|update)$', g) and isinstance(deref_all(A[0]), Agg) and deref_all(A[0]).ty == 'Cell':
        c_ = deref_all(A[0]); old = c_.fields[0]
        if last == 'replace': c_.fields[0] = A[1]; return old
        if last == 'take': c_.fields[0] = _default_like(old); return old
        if last == 'into_inner': return old
        if last == 'get_mut': return Ref(SlotCell(c_.fields, 0))
        v_ = yield from s.call_callable(ctx, A[1], [clone_val(old)]); c_.fields[0] = v_; return unit()
    if re.search(r'RefCell::(replace|take|into_inner|get_mut|swap|replace_with)$', g) and isinstance(deref_all(A[0]), RefCellM):
        rc = deref_all(A[0])
        if last in ('into_inner',): return rc.inner.v
        if last == 'get_mut': return Ref(rc.inner)
        if rc.state != 0: raise Panic('RefCell already borrowed (' + last + ') on ' + rc.name, 'refcell')
        old = rc.inner.v
        if last == 'replace': rc.inner.v = A[1]; return old
        if last == 'take': rc.inner.v = _default_like(old); return old
        if last == 'replace_with':
            nv = yield from s.call_callable(ctx, A[1], [Ref(rc.inner)]); rc.inner.v = nv; return old
        o2 = deref_all(A[1]); rc.inner.v, o2.inner.v = o2.inner.v, rc.inner.v; return unit()
    if re.search(r'RefCell::(borrow|borrow_mut|try_borrow|try_borrow_mut)$', g):
        rc = deref_all(A[0]); mode = 'w' if 'mut' in last else 'r'
        bad = (mode == 'w' and rc.state != 0) or (mode == 'r' and rc.state < 0)
        if bad:
            if last.startswith('try_'): return err(unit())
            raise Panic(f'RefCell already {"mutably " if rc.state < 0 else ""}borrowed ({"BorrowMutError" if mode == "w" else "BorrowError"}) on {rc.name}', 'refcell')
        rc.state = -1 if mode == 'w' else rc.state + 1
        b = BorrowM(rc, mode)
        return ok(b) if last.startswith('try_') else b
    if tc and tc[0] in ('Ref', 'RefMut') and tc[2] in ('deref', 'deref_mut') and isinstance(deref_all(A[0]), BorrowM):
        b = deref_all(A[0])
        if not b.live: raise Panic('use of a released RefCell borrow')
        return Ref(b.rc.inner)
    # ------------------------------------------------------------ futures
    if tc and tc[1] == 'IntoFuture' and tc[2] == 'into_future': return A[0]
    if E('Pin::new_unchecked') or E('Pin::new'): return Agg('Pin', 0, [A[0]])
    if E('Pin::get_mut') or E('Pin::get_unchecked_mut') or E('Pin::as_mut') or E('Pin::into_inner'): return A[0].fields[0] if last != 'as_mut' else A[0]
    if E('Box::pin') or E('Box::into_pin'):
        return Agg('Pin', 0, [A[0] if isinstance(A[0], Ref) else Ref(Cell(A[0], 'pinned'))])
    if re.search(r'future::(ready::)?ready$', g): return Agg('ReadyFut', 0, [A[0]])
    if tc and tc[1] == 'Future' and tc[2] == 'poll':
        pin_ = deref_all(A[0]) if isinstance(A[0], Ref) else A[0]          # `pinned.as_mut()` hands the Pin over by reference
        co = deref_all(pin_.fields[0])
        if isinstance(co, Agg) and co.ty == 'Box' and co.fields: co = deref_all(co.fields[0])
        if isinstance(co, Agg) and co.ty == 'ReadyFut': return Agg('Poll', 0, [co.fields[0]])          # std::future::ready(v)
        if isinstance(co, Agg) and co.ty == 'Pin': co = deref_all(co.fields[0])                           # Pin<Box<dyn Future>> polled through a reference
        if not isinstance(co, Coroutine): raise Unsupported('poll of ' + type(co).__name__)
        fn = s.p.fns[co.fname]
        r = yield from s.call_fn(ctx, fn, [pin_ if pin_ is not A[0] and isinstance(pin_, Agg) and pin_.ty == 'Pin' and isinstance(pin_.fields[0], Ref) and deref_all(pin_.fields[0]) is co else A[0], A[1]]); return r
    if E('task::Context::from_waker') or E('Waker::noop'): return Opaque('cx')
    # ------------------------------------------------------------ time
    if E('SystemTime::now'): return Opaque('systime')
    if E('SystemTime::duration_since'):
        t = ctx.fresh_time('unix_s', 2 ** 40)
        if ctx.sys_vars: ctx.add(t >= ctx.sys_vars[-1])
        ctx.sys_vars.append(t)
        ctx.events.append(('sysnow', ctx.tid, t))
        # the wall clock has sub-second resolution: t whole seconds plus a fraction (what `.as_secs()` truncates away)
        if ctx.real_time: return ok(Duration(t * NS))           # real-valued relaxation (TLRU scores): whole seconds only, as before
        frac = ctx.fresh_int('unix_frac_ns', 0, NS - 1)
        if not hasattr(ctx, 'sys_fracs'): ctx.sys_fracs = []
        ctx.sys_fracs.append(frac)
        return ok(Duration(t * NS + frac))
    if E('Instant::now'):
        t = ctx.fresh_time('now', 2 ** 70)
        if ctx.now_vars: ctx.add(t >= ctx.now_vars[-1])
        ctx.now_vars.append(t); ctx.events.append(('now', ctx.tid, t)); return Instant(t)
    if E('Instant::elapsed'):
        i0 = deref_all(A[0]); t = ctx.fresh_time('now', 2 ** 70)
        if ctx.now_vars: ctx.add(t >= ctx.now_vars[-1])
        ctx.now_vars.append(t); ctx.add(t >= i0.t); ctx.events.append(('now', ctx.tid, t)); return Duration(t - i0.t)
    if E('Instant::duration_since') or E('Instant::saturating_duration_since'):
        a, b = deref_all(A[0]), deref_all(A[1]); return Duration(z3.If(a.t >= b.t, a.t - b.t, 0))
    if E('Duration::as_secs'):
        d = deref_all(A[0])
        if is_z3(d.t) and z3.is_mul(d.t) and False: pass
        return _div_const(ctx, d.t, NS)
    if E('Duration::as_millis'): return _div_const(ctx, deref_all(A[0]).t, 1000000)
    if E('Duration::as_nanos'): return deref_all(A[0]).t
    if E('Duration::as_secs_f64') or E('Duration::as_secs_f32'): return to_real(deref_all(A[0]).t) / NS
    if E('Duration::from_secs'): return Duration(A[0] * NS)
    if E('Duration::from_millis'): return Duration(A[0] * 1000000)
    if tc and tc[0] == 'Duration' and tc[1].startswith('Partial') and tc[2] in ('lt', 'le', 'gt', 'ge', 'eq', 'ne'):
        a, b = deref_all(A[0]).t, deref_all(A[1]).t
        return {'lt': a < b, 'le': a <= b, 'gt': a > b, 'ge': a >= b, 'eq': a == b, 'ne': a != b}[tc[2]]
    if tc and tc[0] in ('VecDeque', 'Vec', 'slice', '[T]') and tc[1] in ('Index', 'IndexMut') and tc[2] in ('index', 'index_mut') and isinstance(deref_all(A[1]), Agg) and deref_all(A[1]).ty.startswith('Range'):
        d = deref_all(A[0]); lo_, hi_ = _slice_bounds(ctx, A[1], len(d.items))
        return Ref(Cell(SeqM(d.items[lo_:hi_], 'Vec'), 'subslice'))          # a view for reading (element objects are shared)
    if tc and tc[0] in ('VecDeque', 'Vec') and tc[1] in ('Index', 'IndexMut') and tc[2] in ('index', 'index_mut'):
        d = deref_all(A[0]); i = _conc_index(ctx, A[1], len(d.items))
        if i is None: raise Panic('index out of bounds', 'index')
        return Ref(SlotCell(d.items, i))
    if tc and tc[0] == 'Duration' and tc[1] in ('Sub', 'Add') and tc[2] in ('sub', 'add'):
        a, b = deref_all(A[0]).t, deref_all(A[1]).t
        if tc[2] == 'add': return Duration(a + b)
        if not ctx.branch(a >= b): raise Panic('overflow when subtracting durations', 'arith')
        return Duration(a - b)
    if re.search(r'Duration::(checked_sub|saturating_sub)$', g):
        a, b = deref_all(A[0]).t, deref_all(A[1]).t
        if last == 'saturating_sub': return Duration(z3.If(a >= b, a - b, 0) if not (is_conc(a) and is_conc(b)) else max(a - b, 0))
        return some(Duration(a - b)) if ctx.branch(a >= b) else none()
    if E('Duration::div_duration_f64'): return to_real(deref_all(A[0]).t) / to_real(deref_all(A[1]).t)
    if E('Duration::mul_f64'): return Duration(to_real(deref_all(A[0]).t) * to_real(A[1]))
    if E('Duration::is_zero'): return simp(deref_all(A[0]).t == 0)
    if (tc and tc[0] == 'Instant' and tc[1] == 'Add' and tc[2] == 'add') or E('Instant::checked_add'):
        # Timespec { tv_sec: i64, .. }: the sum overflows when the seconds leave i64
        a, b = deref_all(A[0]), deref_all(A[1])
        over = ctx.branch(a.t + b.t >= (2 ** 63) * NS)
        if last == 'checked_add': return none() if over else some(Instant(a.t + b.t))
        if over: raise Panic('overflow when adding duration to instant', 'arith')
        return Instant(a.t + b.t)
    if E('Instant::checked_sub'): return some(Instant(deref_all(A[0]).t - deref_all(A[1]).t))
    if E('Instant::checked_duration_since'):
        a, b = deref_all(A[0]), deref_all(A[1]); return some(Duration(a.t - b.t)) if ctx.branch(a.t >= b.t) else none()
    if tc and tc[0] == 'Instant' and tc[1].startswith('Partial') and tc[2] in ('lt', 'le', 'gt', 'ge', 'eq', 'ne'):
        a, b = deref_all(A[0]).t, deref_all(A[1]).t
        return {'lt': a < b, 'le': a <= b, 'gt': a > b, 'ge': a >= b, 'eq': a == b, 'ne': a != b}[tc[2]]
    if tc and tc[0] == 'Instant' and tc[1] == 'Sub' and tc[2] == 'sub':
        a, b = deref_all(A[0]), deref_all(A[1])
        if isinstance(b, Instant): return Duration(z3.If(a.t >= b.t, a.t - b.t, 0))
        return Instant(a.t - b.t)
    if tc and tc[0] in ('Instant', 'Duration') and tc[2] == 'clone': return deref_all(A[0])
    # ------------------------------------------------------------ integers / floats
    m2 = re.search(r'<impl (u8|u16|u32|u64|usize|i32|i64|isize)>::(saturating_sub|saturating_add|saturating_mul|wrapping_add|wrapping_sub|checked_add|checked_sub|checked_mul|min|max|abs_diff|pow)$', g)
    if m2 or (tc and tc[0] in INT_RANGE and tc[2] in ('min', 'max')):
        ity = m2.group(1) if m2 else tc[0]; op = m2.group(2) if m2 else tc[2]
        lo, hi = INT_RANGE[ity]; a, b = A[0], A[1]
        def ite(c, x, y):
            c = simp(c) if is_z3(c) else c
            if is_conc(c): return x if c else y
            return z3.If(c, x, y)
        if op == 'saturating_sub': return ite(a < b, lo if lo == 0 else None, a - b) if lo == 0 else _unsup('signed saturating_sub')
        if op == 'saturating_add': return ite(a + b > hi, hi, a + b)
        if op == 'saturating_mul': return ite(a * b > hi, hi, a * b)
        if op == 'wrapping_add': return ite(a + b > hi, a + b - (hi + 1), a + b)
        if op == 'wrapping_sub': return ite(a - b < lo, a - b + (hi + 1), a - b)
        if op in ('checked_add', 'checked_sub', 'checked_mul'):
            r = a + b if op == 'checked_add' else a - b if op == 'checked_sub' else a * b
            inr = b_and(r >= lo, r <= hi) if not is_conc(r) else (lo <= r <= hi)
            return some(r) if ctx.branch(inr) else none()
        if op == 'min': return ite(a <= b, a, b)
        if op == 'max': return ite(a >= b, a, b)
        if op == 'abs_diff': return ite(a >= b, a - b, b - a)
        if op == 'pow':
            if is_conc(b): return a ** b
            raise Unsupported('symbolic exponent')
    if re.search(r'<impl f64>::(min|max)$', g) or (tc and tc[0] == 'f64' and tc[2] in ('min', 'max')):
        from .engine import FSpec
        x, y = A[0], A[1]
        if isinstance(x, FSpec) or isinstance(y, FSpec):
            # IEEE minNum / maxNum: a NaN operand is dropped; infinities order as usual
            if isinstance(x, FSpec) and x.kind == 'nan': return y
            if isinstance(y, FSpec) and y.kind == 'nan': return x
            sp, fin = (x, y) if isinstance(x, FSpec) else (y, x)
            if isinstance(fin, FSpec): return sp if (sp.kind == 'inf') == (last == 'max') else fin
            return sp if (sp.kind == 'inf') == (last == 'max') else fin
        a, b = to_real(x), to_real(y)
        return z3.If(a < b, a, b) if last == 'min' else z3.If(a > b, a, b)
    if re.search(r'<impl f64>::clamp$', g) or (tc and tc[0] == 'f64' and tc[2] == 'clamp'):
        from .engine import FSpec
        x, lo, hi = A[0], A[1], A[2]
        if isinstance(x, FSpec): return x if x.kind == 'nan' else (hi if x.kind == 'inf' else lo)       # clamp propagates NaN
        x, lo, hi = to_real(x), to_real(lo), to_real(hi)
        return z3.If(x < lo, lo, z3.If(x > hi, hi, x))
    if re.search(r'<impl f64>::powf$', g) or E('f64::powf'):
        from .engine import FSpec, NAN
        if isinstance(A[0], FSpec) or isinstance(A[1], FSpec):
            if (isinstance(A[0], FSpec) and A[0].kind == 'nan') or (isinstance(A[1], FSpec) and A[1].kind == 'nan'): return NAN
            raise Unsupported('powf of an infinite value')
        return s.powf(ctx, to_real(A[0]), to_real(A[1]))
    if re.search(r'<impl f64>::(abs)$', g): return z3.If(A[0] >= 0, A[0], -A[0])
    if re.search(r'<impl f64>::(sqrt|ln|log2|log10|exp|powi|floor|ceil|round)$', g): raise Unsupported('f64::' + last)
    # ------------------------------------------------------------ atomics
    if re.search(r'Atomic(U64|Usize|U32|<.*>)?::new$', g) or E('Atomic::new'): return Agg('Atomic', 0, [A[0]])
    if re.search(r'Atomic\w*::(fetch_add|fetch_sub|load|store|swap|compare_exchange|compare_exchange_weak|fetch_max|fetch_min)$', g):
        a = deref_all(A[0])
        if isinstance(a, tuple) and isinstance(A[0], Ref): a = yield from s.force_static(ctx, A[0])          # a plain `static X: AtomicU64` touched for the first time
        if getattr(s, 'sched_atomics', False): yield from s.sched_point(ctx, 'atomic')
        old = a.fields[0]
        if last == 'load': return old
        if last == 'store': a.fields[0] = A[1]; return unit()
        if last == 'swap': a.fields[0] = A[1]; return old
        if last == 'fetch_add':
            r = old + A[1]; r = simp(z3.If(r > MAXU64, r - (MAXU64 + 1), r)) if not is_conc(r) else r % (MAXU64 + 1)
            a.fields[0] = r; return old
        if last == 'fetch_sub':
            r = old - A[1]; r = simp(z3.If(r < 0, r + (MAXU64 + 1), r)) if not is_conc(r) else r % (MAXU64 + 1)
            a.fields[0] = r; return old
        if last.startswith('compare_exchange'):
            if ctx.branch(v_eq(old, A[1])): a.fields[0] = A[2]; return ok(old)
            return err(old)
        if last in ('fetch_max', 'fetch_min'):
            bigger = ctx.branch(A[1] > old)
            if bigger == (last == 'fetch_max'): a.fields[0] = A[1]
            return old
        raise Unsupported('atomic ' + last)
    if re.search(r'Atomic\w*::(fetch_update|fetch_and|fetch_or|fetch_xor|fetch_nand|into_inner|get_mut)$', g) or re.search(r'Atomic(::<.*>)?::(fetch_update|into_inner|get_mut)$', func):
        a = deref_all(A[0])
        if isinstance(a, tuple) and isinstance(A[0], Ref): a = yield from s.force_static(ctx, A[0])
        old = a.fields[0]
        if last == 'into_inner': return old
        if last == 'get_mut': return Ref(SlotCell(a.fields, 0))
        if getattr(s, 'sched_atomics', False): yield from s.sched_point(ctx, 'atomic')
        if last == 'fetch_update':
            o = yield from s.call_callable(ctx, A[3], [old])
            if o.variant == 0: return err(old)
            a.fields[0] = o.fields[0]; return ok(old)
        if isinstance(old, bool) or (is_z3(old) and z3.is_bool(old)):
            x, y = old, A[1]
            a.fields[0] = {'fetch_and': b_and(x, y), 'fetch_or': b_or(x, y), 'fetch_xor': simp(z3.Xor(x, y)) if is_z3(x) or is_z3(y) else (x != y), 'fetch_nand': b_not(b_and(x, y))}[last]
            return old
        if is_conc(old) and is_conc(A[1]):
            a.fields[0] = {'fetch_and': old & A[1], 'fetch_or': old | A[1], 'fetch_xor': old ^ A[1], 'fetch_nand': ~(old & A[1]) & MAXU64}[last]; return old
        raise Unsupported('atomic ' + last + ' on symbolic integers')
    # ------------------------------------------------------------ clone / eq of plain data
    if tc and tc[1] == 'Clone' and tc[2] == 'clone':
        v = deref(A[0])
        if isinstance(v, (Agg, MapM, SeqM, Str)) or is_conc(v) or is_z3(v): return clone_val(v)
        if isinstance(v, (Closure, FnItem, EnvFn, Instant, Duration)): return v
        if isinstance(v, Ref): return v
    if tc and tc[1].startswith('PartialEq') and tc[2] in ('eq', 'ne'):
        a, b = deref_all(A[0]), deref_all(A[1])
        r = term_eq(a, b); return b_not(r) if tc[2] == 'ne' else r
    if tc and tc[1] in ('Into', 'From') and tc[2] in ('into', 'from') and tc[0] in INT_RANGE: return A[0]
    if tc and tc[1] in ('Fn', 'FnMut', 'FnOnce') and tc[2] in ('call', 'call_mut', 'call_once'):
        args2 = A[1].fields if isinstance(A[1], Agg) else []
        if deref_all(A[0]) is None and '{closure@' in func and caller is not None:
            # a capture-less closure is a zero-sized value that MIR may never materialise: its identity is in the call's type
            mcl = re.search(r'\{closure@[^}]*\}', func)
            clo = s.closure_by_site(caller, None, ln, mcl.group(0), [])
            r = yield from s.call_callable(ctx, clo, list(args2)); return r
        r = yield from s.call_callable(ctx, A[0], list(args2)); return r
    if tc and tc[1] == 'Default' and tc[2] == 'default' and tc[0] in INT_RANGE: return 0
    # ------------------------------------------------------------ RNG
    if E('fastrand::usize') or E('fastrand::global_rng::usize') or (g == 'usize'):
        rng = A[0]
        if isinstance(rng, Agg) and rng.ty in ('RangeTo',): lo, hi = 0, rng.fields[0]
        elif isinstance(rng, Agg) and rng.ty in ('Range',): lo, hi = rng.fields[0], rng.fields[1]
        elif isinstance(rng, Agg) and len(rng.fields) == 1: lo, hi = 0, rng.fields[0]
        else: raise Unsupported('fastrand range ' + repr(rng))
        if is_conc(lo) and is_conc(hi) and hi <= lo: raise Panic('fastrand: empty range', 'rng')
        x = ctx.fresh_int('rand'); ctx.add(z3.And(x >= lo, x < hi)); ctx.events.append(('rand', ctx.tid, x, hi)); return x
    # ------------------------------------------------------------ DashMap (one shard lock = worst case)
    if E('DashMap::new') or E('DashMap::with_capacity'):
        m = MapM(kind='DashMap'); m.shard = LockM(None, 'shard', 'RwLock'); return m
    if re.search(r'(Arc|Rc)(::<.*>)?::(strong_count|weak_count)$', g):
        # other handles to the same allocation may exist: any count (strong >= 1), fixed per object
        v = deref_all(A[0])
        if not hasattr(ctx, 'rc_counts'): ctx.rc_counts = {}
        k_ = (id(v), last)
        if k_ not in ctx.rc_counts: ctx.rc_counts[k_] = (v, ctx.fresh_int(last, 1 if last == 'strong_count' else 0, 2 ** 20))
        return ctx.rc_counts[k_][1]
    # ------------------------------------------------------------ the `?` operator on Option / Result
    if tc and tc[1] == 'Try' and tc[2] == 'branch' and tc[0] in ('Option', 'Result'):
        v = A[0]
        if not (isinstance(v, Agg) and v.ty in ('Option', 'Result')): raise Unsupported('`?` on ' + type(v).__name__)
        good = (v.variant == 1) if v.ty == 'Option' else (v.variant == 0)
        if good: return Agg('ControlFlow', 0, [v.fields[0]])
        return Agg('ControlFlow', 1, [none() if v.ty == 'Option' else err(v.fields[0])])
    if tc and tc[1] == 'FromResidual' and tc[2] == 'from_residual' and tc[0] in ('Option', 'Result'):
        r_ = A[0]
        if tc[0] == 'Option': return none()
        return err(r_.fields[0]) if isinstance(r_, Agg) and r_.ty == 'Result' else _unsup('from_residual of ' + type(r_).__name__)
    if tc and tc[1] == 'Try' and tc[2] == 'from_output' and tc[0] in ('Option', 'Result'): return some(A[0]) if tc[0] == 'Option' else ok(A[0])
    mt = re.search(r'TryResult::<.*>::(try_unwrap|unwrap|is_present|is_absent|is_locked)$', g) or re.search(r'TryResult::(try_unwrap|unwrap|is_present|is_absent|is_locked)$', g)
    if mt:
        v = deref_all(A[0]) if mt.group(1).startswith('is_') else A[0]
        if not (isinstance(v, Agg) and v.ty == 'TryResult'): raise Unsupported('TryResult method on ' + type(v).__name__)
        k = mt.group(1)
        if k == 'try_unwrap': return some(v.fields[0]) if v.variant == 0 else none()
        if k == 'unwrap':
            if v.variant != 0: raise Panic('called `TryResult::unwrap()` on a `' + ('Absent' if v.variant == 1 else 'Locked') + '` value')
            return v.fields[0]
        return v.variant == {'is_present': 0, 'is_absent': 1, 'is_locked': 2}[k]
    mt = re.search(r'DashMap::(try_get|try_get_mut)$', g)
    if mt:
        # non-blocking lookup: TryResult::{Present(guard) = 0, Absent = 1, Locked = 2}; Locked when another holder has the shard
        m = deref_all(A[0]); mode = 'r' if mt.group(1) == 'try_get' else 'w'
        if not isinstance(m, MapM): raise Unsupported('DashMap op on ' + type(m).__name__)
        if m.shard is None: m.shard = LockM(None, 'shard', 'RwLock')
        lk = m.shard; kind = 1 if mode == 'r' else 2
        yield from s.sched_point(ctx, 'try_lock')
        if (mode == 'w' and lk.state != 0) or (mode == 'r' and lk.state < 0):
            ctx.events.append(('lock', ctx.tid, lk.name, 'try-failed', kind, 1)); return Agg('TryResult', 2, [])
        lk.state = -1 if mode == 'w' else lk.state + 1; lk.owners.append(ctx.tid)
        ctx.events.append(('lock', ctx.tid, lk.name, mode, kind, 1)); gd = GuardM(lk, mode, ctx.tid)
        k = _key(A[1]); i = _find(ctx, m, k)
        if i == len(m.items): s.drop_val(ctx, gd); return Agg('TryResult', 1, [])
        yield from s.sched_point(ctx, 'guard-held')                 # the caller now works under the guard: others may run meanwhile
        return Agg('TryResult', 0, [Agg('DashRef', 0, [gd, Ref(SlotCell(m.items[i], 1, 'dashval')), Ref(SlotCell(m.items[i], 0))])])
    md = re.search(r'DashMap::(get|get_mut|contains_key|remove|insert|len|clear|iter|iter_mut|is_empty|retain|entry|remove_if|alter)$', g)
    if md:
        m = deref_all(A[0]); op = md.group(1)
        if not isinstance(m, MapM): raise Unsupported('DashMap op on ' + type(m).__name__)
        if m.shard is None: m.shard = LockM(None, 'shard', 'RwLock')
        mode = 'r' if op in ('get', 'contains_key', 'len', 'iter', 'is_empty') else 'w'
        gd = yield from s.acquire(ctx, m.shard, mode, 'all' if op in ('len', 'is_empty', 'clear', 'iter', 'iter_mut', 'retain') else 1)
        if op == 'len': s.drop_val(ctx, gd); return len(m.items)
        if op == 'is_empty': s.drop_val(ctx, gd); return len(m.items) == 0
        if op == 'clear': m.items.clear(); s.drop_val(ctx, gd); return unit()
        if op in ('iter', 'iter_mut'):
            it = IterM([Agg('RefMulti', 0, [Ref(SlotCell(e, 0)), Ref(SlotCell(e, 1))]) for e in m.items]); it.guard = gd
            if not m.items: s.drop_val(ctx, gd); it.guard = None
            return it
        if op == 'retain':
            keep = []
            for e in list(m.items):
                r = yield from s.call_callable(ctx, A[1], [Ref(SlotCell(e, 0)), Ref(SlotCell(e, 1))])
                if ctx.branch(r): keep.append(e)
            m.items[:] = keep; s.drop_val(ctx, gd); return unit()
        if op == 'remove_if':
            k = _key(A[1]); i = _find(ctx, m, k)
            if i == len(m.items): s.drop_val(ctx, gd); return none()
            r = yield from s.call_callable(ctx, A[2], [Ref(SlotCell(m.items[i], 0)), Ref(SlotCell(m.items[i], 1))])
            take = ctx.branch(r)
            s.drop_val(ctx, gd)
            if not take: return none()
            e = m.items.pop(i); return some(tup(e[0], e[1]))
        if op in ('entry', 'alter'): raise Unsupported('DashMap::' + op)
        if op == 'insert':
            k, v = A[1], A[2]
            i = _find(ctx, m, deref_all(k))
            s.drop_val(ctx, gd)
            if i == len(m.items): m.items.append([k, v]); return none()
            old = m.items[i][1]; m.items[i][1] = v; return some(old)
        k = _key(A[1]); i = _find(ctx, m, k); found = i < len(m.items)
        if op == 'contains_key': s.drop_val(ctx, gd); return found
        if op == 'remove':
            s.drop_val(ctx, gd)
            if not found: return none()
            e = m.items.pop(i); return some(tup(e[0], e[1]))
        if not found: s.drop_val(ctx, gd); return none()
        if getattr(s, 'guard_points', False): yield from s.sched_point(ctx, 'guard-held')      # others may run while the entry guard is held
        return some(Agg('DashRef', 0, [gd, Ref(SlotCell(m.items[i], 1, 'dashval')), Ref(SlotCell(m.items[i], 0))]))
    if tc and tc[0] in ('Ref', 'RefMut') and tc[2] in ('deref', 'deref_mut'):
        d = deref_all(A[0])
        if isinstance(d, Agg) and d.ty == 'DashRef':
            if not d.fields[0].live: raise Panic('use of a released DashMap guard')
            return d.fields[1]
    if re.search(r'(one::Ref|one::RefMut|RefMulti|RefMutMulti)::(value|value_mut)$', g): return deref_all(A[0]).fields[1]
    if re.search(r'(one::Ref|one::RefMut|RefMulti|RefMutMulti)::key$', g):
        d = deref_all(A[0]); return d.fields[2] if d.ty == 'DashRef' else d.fields[0]
    if re.search(r'(one::Ref|one::RefMut|RefMulti|RefMutMulti)::pair$', g):
        d = deref_all(A[0]); return tup(d.fields[2] if d.ty == 'DashRef' else d.fields[0], d.fields[1])
    # ------------------------------------------------------------ misc
    if E('ops::RangeTo') or E('ops::Range'): pass
    if E('panicking::panic') or E('panicking::panic_fmt') or E('panic_fmt') or E('core::panicking::panic') or E('begin_panic') or E('option::expect_failed') or E('result::unwrap_failed'):
        raise Panic('explicit panic: ' + g, 'explicit')
    if E('intrinsics::unreachable') or E('hint::unreachable_unchecked'): raise Panic('unreachable_unchecked', 'unreachable')
    if E('thread::current') or E('Thread::id'): return Opaque(('thread', ctx.tid))
    if E('thread::yield_now') or E('hint::spin_loop'):
        yield from s.sched_point(ctx, 'yield'); return unit()
    return NotImplemented


def subst_type(ctx, ty):
    """replace type parameters bound at enclosing monomorphic call sites (innermost binding first)"""
    for sub in reversed(ctx.tysubst):
        changed = False
        for p_, conc in sub.items():
            ty2 = re.sub(r'(?<![\w:])' + re.escape(p_) + r'(?![\w:])', conc, ty)
            if ty2 != ty: ty = ty2; changed = True
        if not re.search(r'(?<![\w:])([A-Z][0-9]?|Self)(?![\w:<])', ty): break
    return ty


def _unsup(msg): raise Unsupported(msg)


def _default_like(v):
    """Default::default() of the type a value has (what mem::take / Cell::take leave behind)"""
    v = deref_all(v)
    if isinstance(v, bool): return False
    if is_conc(v) or is_z3(v): return 0
    if isinstance(v, Str): return Str('')
    if isinstance(v, SeqM): return SeqM(kind=v.kind)
    if isinstance(v, MapM): return MapM(kind=v.kind)
    if isinstance(v, Agg) and v.ty == 'Option': return none()
    if isinstance(v, Agg) and v.ty == 'tuple': return Agg('tuple', 0, [_default_like(x) for x in v.fields])
    raise Unsupported('default value of ' + (v.ty if isinstance(v, Agg) else type(v).__name__))


def _norm_ty(t):
    t = re.sub(r"'\w+ ", '', t or '?')
    return t.replace('std::string::', '').replace('std::option::', '').replace('std::vec::', '')


def _div_const(ctx, t, k):
    t = simp(t)
    if is_conc(t): return t // k
    if is_real(t): return t / k          # real-valued clock (TLRU score VCs): whole-second truncation is not modelled there
    q = ctx.fresh_int('q', 0); r = ctx.fresh_int('r', 0, k - 1)
    ctx.add(t == q * k + r)
    return q


def _strlen(ctx, v):
    if not hasattr(ctx, '_strlen'): ctx._strlen = z3.Function('strlen', z3.IntSort(), z3.IntSort())
    if is_z3(v.t):
        n = ctx._strlen(v.t); ctx.add(z3.And(n >= 0, n < 2 ** 32)); return n
    if isinstance(v.t, str): return len(v.t.encode('utf-8'))
    from .builtins_ext import render_concrete
    rc_ = render_concrete(v)
    if rc_ is not None: return len(rc_.encode('utf-8'))
    # a rendered / joined text: its length is some number (it only ever sizes a buffer; the text itself stays symbolic)
    return ctx.fresh_int('strlen', 0, 2 ** 32)
